(* Proofs/EventRelatedP.v — main lemmas of property C19 over Model/EventRelated.v. *)
From Coq Require Import ZArith QArith List Bool Arith Lia Sorted Setoid Morphisms Psatz.
From NT Require Import EventRelated EventRelatedBase EventRelatedDesign EventRelatedFir EventRelatedAvg EventRelatedPad.
Import ListNotations.
Open Scope Z_scope.

(* ===================================================================== order of the results *)
Theorem order_sorted_codes ev :
  StronglySorted Z.lt (event_types ev) /\ NoDup (event_types ev) /\
  (forall c, In c (event_types ev) <-> In c ev /\ c <> 0).
Proof.
  split; [apply event_types_sorted|]. split; [apply event_types_NoDup|]. intros c. apply event_types_In.
Qed.

(* ===================================================================== FIR on a given coded series *)
Lemma sgn_sq c : c <> 0 -> Z.sgn c * Z.sgn c = 1.
Proof. destruct c; simpl; congruence. Qed.

Lemma synth_signed_signed resp ev len offset t :
  (synth_at (signed (signed resp)) ev len offset t == synth_at resp ev len offset t)%Q.
Proof.
  unfold synth_at. apply qsumf_ext. intros i _. unfold placed, signed.
  destruct (getZ ev i =? 0) eqn:E; [reflexivity|]. apply Z.eqb_neq in E. cbn [negb andb].
  destruct ((i + offset <=? t) && (t <? i + offset + Z.of_nat len)); [|reflexivity].
  rewrite Qmult_assoc, <- inject_Z_mult, sgn_sq by exact E. ring.
Qed.

(* y = the true linear system over the coded series `ev` (rows = time bins of `ev`): the estimate is
   sign(code) * response, block by block in the order of the sorted codes *)
Theorem fir_signed_recovery pinv ev len resp (y : list Q) :
  pinv_contract pinv -> (0 < len)%nat ->
  length y = length ev ->
  (forall r, 0 <= r < zlen ev -> (getQ y r == synth_at resp ev len 0 r)%Q) ->
  nonsingular (design_cols ev len) (gramT (tabulateT (design ev len) (length ev) (design_cols ev len))) ->
  let h := fir pinv y (tabulateT (design ev len) (length ev) (design_cols ev len)) in
  length h = (length (event_types ev) * len)%nat /\
  forall b k, 0 <= b < zlen (event_types ev) -> 0 <= k < Z.of_nat len ->
    (getQ h (b * Z.of_nat len + k) ==
     inject_Z (Z.sgn (getZ (event_types ev) b)) * resp (getZ (event_types ev) b) k)%Q.
Proof.
  intros Hp Hlen Hy Hsyn Hns h.
  destruct (fir_recovery_core pinv (design ev len) (length ev) (design_cols ev len) y
              (hvec (event_types ev) (Z.of_nat len) (signed resp)) Hp Hy) as [Hl Hrec]; auto.
  - intros r Hr. rewrite (Hsyn r Hr). rewrite design_apply_signed by exact Hlen.
    symmetry. apply synth_signed_signed.
  - split; [exact Hl|]. intros b k Hb Hk. subst h. rewrite Hrec.
    + rewrite hvec_block by lia. reflexivity.
    + unfold design_cols, zlen in *. nia.
Qed.

Theorem fir_exact_recovery_coded pinv ev len resp (y : list Q) :
  pinv_contract pinv -> (0 < len)%nat ->
  (forall c, In c ev -> 0 <= c) ->
  length y = length ev ->
  (forall r, 0 <= r < zlen ev -> (getQ y r == synth_at resp ev len 0 r)%Q) ->
  nonsingular (design_cols ev len) (gramT (tabulateT (design ev len) (length ev) (design_cols ev len))) ->
  let h := fir pinv y (tabulateT (design ev len) (length ev) (design_cols ev len)) in
  length h = (length (event_types ev) * len)%nat /\
  forall b k, 0 <= b < zlen (event_types ev) -> 0 <= k < Z.of_nat len ->
    (getQ h (b * Z.of_nat len + k) == resp (getZ (event_types ev) b) k)%Q.
Proof.
  intros Hp Hlen Hpos Hy Hsyn Hns h.
  destruct (fir_signed_recovery pinv ev len resp y Hp Hlen Hy Hsyn Hns) as [Hl Hrec].
  split; [exact Hl|]. intros b k Hb Hk. subst h. rewrite (Hrec b k Hb Hk).
  assert (Hin : In (getZ (event_types ev) b) (event_types ev)) by (apply getZ_In; exact Hb).
  apply event_types_In in Hin as [Hin Hne]. specialize (Hpos _ Hin).
  replace (Z.sgn (getZ (event_types ev) b)) with 1 by (symmetry; apply Z.sgn_pos; lia). ring.
Qed.

(* ===================================================================== reshape *)
Lemma reshape_length l nrow len : length (reshape l nrow len) = nrow.
Proof. revert l. induction nrow as [|n IH]; intros l; simpl; [reflexivity|rewrite IH; reflexivity]. Qed.

Lemma reshape_nth nrow : forall (l : list Q) len b k,
  length l = (nrow * len)%nat -> (b < nrow)%nat -> (k < len)%nat ->
  nth k (nth b (reshape l nrow len) []) 0%Q = nth (b * len + k) l 0%Q.
Proof.
  induction nrow as [|n IH]; intros l len b k Hl Hb Hk; [lia|].
  simpl reshape. destruct b as [|b].
  - simpl nth at 2. simpl. rewrite <- (firstn_skipn len l) at 2.
    rewrite app_nth1; [reflexivity|]. rewrite firstn_length_le; simpl in Hl; lia.
  - simpl nth at 2. rewrite IH; [|rewrite skipn_length; simpl in Hl; lia|lia|lia].
    rewrite <- (firstn_skipn len l) at 2.
    rewrite app_nth2 by (rewrite firstn_length_le; simpl in Hl; lia).
    rewrite firstn_length_le by (simpl in Hl; lia). f_equal. simpl. lia.
Qed.

Lemma reshape_get (l : list Q) nrow len b k :
  length l = (nrow * len)%nat -> 0 <= b < Z.of_nat nrow -> 0 <= k < Z.of_nat len ->
  getQ (nth (Z.to_nat b) (reshape l nrow len) []) k = getQ l (b * Z.of_nat len + k).
Proof.
  intros Hl Hb Hk. unfold getQ.
  destruct (k <? 0) eqn:E1; [lia|]. destruct (b * Z.of_nat len + k <? 0) eqn:E2; [nia|].
  rewrite reshape_nth by (auto; lia). f_equal. nia.
Qed.

(* ===================================================================== FIR, one channel, end to end *)
(* event-coded series `ev`, data `y` = the noise-free linear system with responses `resp` starting
   `b` samples after each event; every response inside the series; padded, rolled, designed, solved,
   reshaped exactly as EventRelatedAnalyzer.FIR does *)
Theorem fir_channel_signed pinv (y : list Q) ev (len b : nat) resp :
  pinv_contract pinv -> (0 < len)%nat -> length y = length ev ->
  inside ev len (Z.of_nat b) ->
  (forall t, 0 <= t < zlen ev -> (getQ y t == synth_at resp ev len (Z.of_nat b) t)%Q) ->
  (let evr := roll (pad 0 b len ev) (Z.of_nat b) in
   nonsingular (design_cols evr len) (gramT (tabulateT (design evr len) (length evr) (design_cols evr len)))) ->
  exists rows,
    fir_channel pinv len (Z.of_nat b) (pad 0%Q b len y, pad 0 b len ev) = Ok rows /\
    length rows = length (event_types ev) /\
    forall bi k, 0 <= bi < zlen (event_types ev) -> 0 <= k < Z.of_nat len ->
      (getQ (nth (Z.to_nat bi) rows []) k ==
       inject_Z (Z.sgn (getZ (event_types ev) bi)) * resp (getZ (event_types ev) bi) k)%Q.
Proof.
  intros Hp Hlen Hy Hin Hsyn Hns.
  set (evp := pad 0 b len ev). set (yp := pad 0%Q b len y).
  set (evr := roll evp (Z.of_nat b)) in *.
  assert (HLr : length evr = (b + length ev + len)%nat) by (unfold evr, evp; rewrite roll_length, pad_length; reflexivity).
  assert (HLy : length yp = length evr) by (unfold yp; rewrite pad_length, HLr, Hy; reflexivity).
  assert (Htypes : event_types evr = event_types ev) by (unfold evr, evp; rewrite roll_types, pad_types; reflexivity).
  destruct (fir_signed_recovery pinv evr len resp yp Hp Hlen HLy) as [Hl Hrec].
  { intros r Hr. unfold yp, evr, evp. apply padded_is_design_data; auto. unfold zlen in Hr. rewrite HLr in Hr. exact Hr. }
  { exact Hns. }
  assert (Hok : design_ok evr len = true) by (apply rolled_design_ok; assumption).
  unfold fir_channel. fold evr. unfold fir_design_matrix. rewrite Hok.
  replace (length yp =? length evr)%nat with true by (symmetry; apply Nat.eqb_eq; exact HLy). cbn [negb].
  assert (Htp : event_types evp = event_types ev) by (unfold evp; apply pad_types).
  rewrite Htp, Hl, Htypes, Nat.eqb_refl.
  eexists. split; [reflexivity|]. split; [apply reshape_length|].
  intros bi k Hbi Hk. unfold zlen in Hbi.
  rewrite reshape_get by (auto; rewrite Hl, Htypes; reflexivity).
  rewrite Htypes in Hrec. apply Hrec; [unfold zlen; exact Hbi|exact Hk].
Qed.

Theorem fir_channel_exact pinv (y : list Q) ev (len b : nat) resp :
  pinv_contract pinv -> (0 < len)%nat -> length y = length ev ->
  (forall c, In c ev -> 0 <= c) ->
  inside ev len (Z.of_nat b) ->
  (forall t, 0 <= t < zlen ev -> (getQ y t == synth_at resp ev len (Z.of_nat b) t)%Q) ->
  (let evr := roll (pad 0 b len ev) (Z.of_nat b) in
   nonsingular (design_cols evr len) (gramT (tabulateT (design evr len) (length evr) (design_cols evr len)))) ->
  exists rows,
    fir_channel pinv len (Z.of_nat b) (pad 0%Q b len y, pad 0 b len ev) = Ok rows /\
    length rows = length (event_types ev) /\
    forall bi k, 0 <= bi < zlen (event_types ev) -> 0 <= k < Z.of_nat len ->
      (getQ (nth (Z.to_nat bi) rows []) k == resp (getZ (event_types ev) bi) k)%Q.
Proof.
  intros Hp Hlen Hy Hpos Hin Hsyn Hns.
  destruct (fir_channel_signed pinv y ev len b resp Hp Hlen Hy Hin Hsyn Hns) as [rows [H1 [H2 H3]]].
  exists rows. split; [exact H1|]. split; [exact H2|]. intros bi k Hbi Hk. rewrite (H3 bi k Hbi Hk).
  assert (Hi : In (getZ (event_types ev) bi) (event_types ev)) by (apply getZ_In; exact Hbi).
  apply event_types_In in Hi as [Hi Hne]. specialize (Hpos _ Hi).
  replace (Z.sgn (getZ (event_types ev) bi)) with 1 by (symmetry; apply Z.sgn_pos; lia). ring.
Qed.

(* the analyzer level, 1-d data and 1-d events *)
Theorem FIR_exact_1d pinv (y : list Q) ev (len b : nat) resp :
  pinv_contract pinv -> (0 < len)%nat -> length y = length ev ->
  (forall c, In c ev -> 0 <= c) ->
  inside ev len (Z.of_nat b) ->
  (forall t, 0 <= t < zlen ev -> (getQ y t == synth_at resp ev len (Z.of_nat b) t)%Q) ->
  (let evr := roll (pad 0 b len ev) (Z.of_nat b) in
   nonsingular (design_cols evr len) (gramT (tabulateT (design evr len) (length evr) (design_cols evr len)))) ->
  exists rows,
    FIR pinv [y] (Ev1 ev) len (Z.of_nat b) = Ok [rows] /\
    length rows = length (event_types ev) /\
    forall bi k, 0 <= bi < zlen (event_types ev) -> 0 <= k < Z.of_nat len ->
      (getQ (nth (Z.to_nat bi) rows []) k == resp (getZ (event_types ev) bi) k)%Q.
Proof.
  intros Hp Hlen Hy Hpos Hin Hsyn Hns.
  destruct (fir_channel_exact pinv y ev len b resp Hp Hlen Hy Hpos Hin Hsyn Hns) as [rows [H1 H2]].
  exists rows. split; [|exact H2].
  unfold FIR, ts_prepare. replace (Z.of_nat b <? 0) with false by (symmetry; apply Z.ltb_ge; lia).
  rewrite Nat2Z.id. cbn [length broadcast_events repeat combine map fst snd rbind rsequence].
  rewrite H1. reflexivity.
Qed.

(* ===================================================================== eta / ets, coded series *)
Definition inside_z (ev : list Z) (len : nat) (offset : Z) : Prop :=
  forall i, 0 <= i < zlen ev -> getZ ev i <> 0 -> 0 <= i + offset /\ i + offset + Z.of_nat len <= zlen ev.

Lemma getQ_seg_fun y len start k : 0 <= k < Z.of_nat len -> getQ (seg_fun y len start) k = getQ y (start + k).
Proof. intros Hk. unfold seg_fun. apply (getQ_map_zrange (fun k => getQ y (start + k))). exact Hk. Qed.

Lemma seg_fun_length y len start : length (seg_fun y len start) = len.
Proof. unfold seg_fun. rewrite map_length. apply zrange_length. Qed.

(* the window cut out of the padded data at a padded occurrence is the window of the raw data *)
Lemma seg_fun_pad (y : list Q) (len b a' : nat) i :
  0 <= i -> i + Z.of_nat b + Z.of_nat len <= zlen y ->
  seg_fun (pad 0%Q b a' y) len (Z.of_nat b + i + Z.of_nat b) = seg_fun y len (i + Z.of_nat b).
Proof.
  intros H0 H1. unfold seg_fun. apply map_ext_in. intros k Hk. apply zrange_In in Hk.
  rewrite getQ_pad.
  replace (Z.of_nat b <=? Z.of_nat b + i + Z.of_nat b + k) with true by (symmetry; apply Z.leb_le; lia).
  replace (Z.of_nat b + i + Z.of_nat b + k <? Z.of_nat b + zlen y) with true by (symmetry; apply Z.ltb_lt; lia).
  cbn [andb]. f_equal. lia.
Qed.

(* value of the k-th sample of the (baseline-corrected) window at an occurrence of code t *)
Definition expected (resp : Z -> Z -> Q) (bc : bool) (t k : Z) : Q :=
  if bc then (resp t k - resp t 0%Z)%Q else resp t k.

Lemma window_is_response resp ev (y : list Q) len offset bc a k :
  (0 < len)%nat -> length y = length ev -> separated ev len ->
  (forall t, 0 <= t < zlen ev -> (getQ y t == synth_at resp ev len offset t)%Q) ->
  0 <= a < zlen ev -> getZ ev a <> 0 -> 0 <= a + offset -> a + offset + Z.of_nat len <= zlen ev ->
  0 <= k < Z.of_nat len ->
  forall s, In s (apply_baseline bc [seg_fun y len (a + offset)]) ->
  (getQ s k == expected resp bc (getZ ev a) k)%Q.
Proof.
  intros Hlen Hy Hsep Hsyn Ha Hne H0 H1 Hk s Hs.
  assert (W : forall k', 0 <= k' < Z.of_nat len ->
              (getQ (seg_fun y len (a + offset)) k' == resp (getZ ev a) k')%Q).
  { intros k' Hk'. rewrite getQ_seg_fun by exact Hk'. rewrite Hsyn by lia. apply synth_window; auto. }
  unfold apply_baseline, expected in *. destruct bc.
  - simpl in Hs. destruct Hs as [<-|[]].
    rewrite baseline_get by (unfold zlen; rewrite seg_fun_length; exact Hk).
    rewrite (W k Hk), (W 0) by lia. reflexivity.
  - destruct Hs as [<-|[]]. apply W; exact Hk.
Qed.

Lemma apply_baseline_map bc (f : Z -> list Q) l s :
  In s (apply_baseline bc (map f l)) -> exists a, In a l /\ In s (apply_baseline bc [f a]).
Proof.
  unfold apply_baseline. destruct bc.
  - rewrite map_map. intros H. apply in_map_iff in H as [a [<- Ha]]. exists a. split; [exact Ha|left; reflexivity].
  - intros H. apply in_map_iff in H as [a [<- Ha]]. exists a. split; [exact Ha|left; reflexivity].
Qed.

Lemma apply_baseline_length bc l : length (apply_baseline bc l) = length l.
Proof. unfold apply_baseline. destruct bc; [apply map_length|reflexivity]. Qed.

Lemma nth_map_default {A B} (f : A -> B) l i d d' : (i < length l)%nat -> nth i (map f l) d' = f (nth i l d).
Proof. intros H. rewrite (nth_indep _ d' (f d)) by (rewrite map_length; exact H). apply map_nth. Qed.

Section CodedChannel.
  Variables (resp : Z -> Z -> Q) (ev : list Z) (y : list Q) (len b : nat) (bc : bool).
  Hypothesis Hlen : (0 < len)%nat.
  Hypothesis Hy : length y = length ev.
  Hypothesis Hsep : separated ev len.
  Hypothesis Hin : inside ev len (Z.of_nat b).
  Hypothesis Hsyn : forall t, 0 <= t < zlen ev -> (getQ y t == synth_at resp ev len (Z.of_nat b) t)%Q.

  Let yp := pad 0%Q b len y.
  Let evp := pad 0 b len ev.

  Lemma coded_segments t : In t (event_types ev) ->
    segments yp (positions evp t) (Z.of_nat b) len =
    Ok (map (fun i => seg_fun y len (i + Z.of_nat b)) (positions ev t)).
  Proof.
    intros Ht. apply event_types_In in Ht as [_ Hne].
    unfold evp. rewrite pad_positions_list by exact Hne.
    unfold segments. rewrite map_map. apply rsequence_map_ok. intros i Hi.
    apply positions_In in Hi as [Hi Hc].
    assert (Hi2 := Hin i Hi ltac:(congruence)).
    rewrite seg_at_inside.
    - f_equal. unfold yp. apply seg_fun_pad; [lia|]. unfold zlen in *. rewrite Hy. lia.
    - lia.
    - unfold yp, zlen in *. rewrite pad_length, Hy. lia.
  Qed.

  Lemma coded_segments_values t k s : In t (event_types ev) -> 0 <= k < Z.of_nat len ->
    In s (apply_baseline bc (map (fun i => seg_fun y len (i + Z.of_nat b)) (positions ev t))) ->
    (getQ s k == expected resp bc t k)%Q.
  Proof.
    intros Ht Hk Hs. apply apply_baseline_map in Hs as [i [Hi Hs]].
    apply positions_In in Hi as [Hi Hc]. apply event_types_In in Ht as [_ Hne].
    rewrite <- Hc. assert (Hi2 := Hin i Hi ltac:(congruence)).
    apply (window_is_response resp ev y len (Z.of_nat b) bc i k); auto; try lia; try congruence.
  Qed.

  Lemma positions_nonempty t : In t (event_types ev) -> positions ev t <> [].
  Proof.
    intros Ht. apply event_types_In in Ht as [Hi _]. apply In_getZ in Hi as [i [Hi Hc]].
    intros E. assert (H : In i (positions ev t)) by (apply positions_In; auto). rewrite E in H. destruct H.
  Qed.

  (* event-triggered average of one channel: row bi is the response of the bi-th sorted code *)
  Theorem eta_channel_exact :
    exists rows,
      per_type (fun s => eta_of s len) bc len (Z.of_nat b) (yp, evp) = Ok rows /\
      length rows = length (event_types ev) /\
      forall bi k, 0 <= bi < zlen (event_types ev) -> 0 <= k < Z.of_nat len ->
        (getQ (nth (Z.to_nat bi) rows []) k == expected resp bc (getZ (event_types ev) bi) k)%Q.
  Proof.
    unfold per_type. unfold evp at 2. rewrite pad_types.
    exists (map (fun t => eta_of (apply_baseline bc (map (fun i => seg_fun y len (i + Z.of_nat b)) (positions ev t))) len)
                (event_types ev)).
    split; [|split; [apply map_length|]].
    - apply rsequence_map_ok. intros t Ht. rewrite coded_segments by exact Ht. reflexivity.
    - intros bi k Hbi Hk. unfold zlen in Hbi.
      rewrite (nth_map_default _ _ _ 0) by lia.
      assert (Ht : In (nth (Z.to_nat bi) (event_types ev) 0) (event_types ev)) by (apply nth_In; lia).
      replace (getZ (event_types ev) bi) with (nth (Z.to_nat bi) (event_types ev) 0)
        by (unfold getZ; destruct (bi <? 0) eqn:E; [lia|reflexivity]).
      set (t := nth (Z.to_nat bi) (event_types ev) 0) in *.
      apply (eta_of_identical _ len (expected resp bc t)); [|intros s k' Hs Hk'; apply (coded_segments_values t); auto|exact Hk].
      intros E. apply (f_equal (@length _)) in E. rewrite apply_baseline_length, map_length in E.
      apply (positions_nonempty t Ht). destruct (positions ev t); [reflexivity|simpl in E; lia].
  Qed.

  (* standard error: exactly zero for every code that occurs at least twice *)
  Theorem ets_channel_zero :
    exists rows,
      per_type (fun s => ets_of s len) bc len (Z.of_nat b) (yp, evp) = Ok rows /\
      length rows = length (event_types ev) /\
      forall bi k, 0 <= bi < zlen (event_types ev) -> 0 <= k < Z.of_nat len ->
        (2 <= length (positions ev (getZ (event_types ev) bi)))%nat ->
        exists v, nth (Z.to_nat k) (nth (Z.to_nat bi) rows []) None = Some v /\ (v == 0)%Q.
  Proof.
    unfold per_type. unfold evp at 2. rewrite pad_types.
    exists (map (fun t => ets_of (apply_baseline bc (map (fun i => seg_fun y len (i + Z.of_nat b)) (positions ev t))) len)
                (event_types ev)).
    split; [|split; [apply map_length|]].
    - apply rsequence_map_ok. intros t Ht. rewrite coded_segments by exact Ht. reflexivity.
    - intros bi k Hbi Hk H2. unfold zlen in Hbi.
      rewrite (nth_map_default _ _ _ 0) by lia.
      assert (Ht : In (nth (Z.to_nat bi) (event_types ev) 0) (event_types ev)) by (apply nth_In; lia).
      replace (getZ (event_types ev) bi) with (nth (Z.to_nat bi) (event_types ev) 0) in H2
        by (unfold getZ; destruct (bi <? 0) eqn:E; [lia|reflexivity]).
      set (t := nth (Z.to_nat bi) (event_types ev) 0) in *.
      apply (ets_of_identical _ len (expected resp bc t)); [|intros s k' Hs Hk'; apply (coded_segments_values t); auto|exact Hk].
      rewrite apply_baseline_length, map_length. exact H2.
  Qed.
End CodedChannel.

(* analyzer level, 1-d data and 1-d coded events *)
Lemma eta_ts_1d y ev len (b : nat) bc zs :
  eta_ts [y] (Ev1 ev) len (Z.of_nat b) bc zs =
  rbind (per_type (fun s => eta_of s len) bc len (Z.of_nat b) (pad 0%Q b len y, pad 0 b len ev)) (fun r => Ok [r]).
Proof.
  unfold eta_ts, ts_prepare. replace (Z.of_nat b <? 0) with false by (symmetry; apply Z.ltb_ge; lia).
  rewrite Nat2Z.id. cbn [length broadcast_events repeat combine map fst snd rbind rsequence].
  destruct (per_type _ bc len (Z.of_nat b) _); reflexivity.
Qed.

Lemma ets_ts_1d y ev len (b : nat) bc zs :
  ets_ts [y] (Ev1 ev) len (Z.of_nat b) bc zs =
  rbind (per_type (fun s => ets_of s len) bc len (Z.of_nat b) (pad 0%Q b len y, pad 0 b len ev)) (fun r => Ok [r]).
Proof.
  unfold ets_ts, ts_prepare. replace (Z.of_nat b <? 0) with false by (symmetry; apply Z.ltb_ge; lia).
  rewrite Nat2Z.id. cbn [length broadcast_events repeat combine map fst snd rbind rsequence].
  destruct (per_type _ bc len (Z.of_nat b) _); reflexivity.
Qed.

(* ===================================================================== eta / ets, list of event times *)
Section EventTimes.
  Variables (resp : Z -> Z -> Q) (ev : list Z) (y : list Q) (len : nat) (offset : Z) (bc zs : bool)
            (times : list Z) (dt c : Z).
  Hypothesis Hlen : (0 < len)%nat.
  Hypothesis Hy : length y = length ev.
  Hypothesis Hsep : separated ev len.
  Hypothesis Hin : inside_z ev len offset.
  Hypothesis Hsyn : forall t, 0 <= t < zlen ev -> (getQ y t == synth_at resp ev len offset t)%Q.
  Hypothesis Hc : c <> 0.
  (* every listed time falls into a bin that holds an event of the one type c *)
  Hypothesis Htimes : forall tm, In tm times -> 0 <= ev_idx dt tm < zlen ev /\ getZ ev (ev_idx dt tm) = c.

  Lemma times_segments :
    segments y (map (ev_idx dt) times) offset len =
    Ok (map (fun a => seg_fun y len (a + offset)) (map (ev_idx dt) times)).
  Proof.
    apply segments_inside. intros a Ha. apply in_map_iff in Ha as [tm [<- Htm]].
    destruct (Htimes tm Htm) as [H1 H2]. unfold zlen in *. rewrite Hy. apply Hin; [exact H1|congruence].
  Qed.

  Lemma times_values k s : 0 <= k < Z.of_nat len ->
    In s (apply_baseline bc (map (fun a => seg_fun y len (a + offset)) (map (ev_idx dt) times))) ->
    (getQ s k == expected resp bc c k)%Q.
  Proof.
    intros Hk Hs. apply apply_baseline_map in Hs as [a [Ha Hs]].
    apply in_map_iff in Ha as [tm [<- Htm]]. destruct (Htimes tm Htm) as [H1 H2].
    destruct (Hin _ H1 ltac:(congruence)) as [H3 H4]. rewrite <- H2.
    apply (window_is_response resp ev y len offset bc (ev_idx dt tm) k); auto; try lia; try congruence.
  Qed.

  Theorem eta_events_exact : times <> [] ->
    exists row, eta_events [y] times dt len offset bc zs = Ok [row] /\ length row = len /\
      forall k, 0 <= k < Z.of_nat len -> (getQ row k == expected resp bc c k)%Q.
  Proof.
    intros Hne. unfold eta_events. cbn [map]. rewrite times_segments. cbn [rbind rsequence].
    eexists. split; [reflexivity|].
    apply (eta_of_identical _ len (expected resp bc c)); [|intros s k Hs Hk; apply times_values; auto].
    intros E. apply (f_equal (@length _)) in E. rewrite apply_baseline_length, !map_length in E.
    destruct times; [congruence|simpl in E; lia].
  Qed.

  Theorem ets_events_zero : (2 <= length times)%nat ->
    exists row, ets_events [y] times dt len offset bc zs = Ok [row] /\ length row = len /\
      forall k, 0 <= k < Z.of_nat len -> exists v, nth (Z.to_nat k) row None = Some v /\ (v == 0)%Q.
  Proof.
    intros H2. unfold ets_events. cbn [map]. rewrite times_segments. cbn [rbind rsequence].
    eexists. split; [reflexivity|].
    apply (ets_of_identical _ len (expected resp bc c)); [|intros s k Hs Hk; apply times_values; auto].
    rewrite apply_baseline_length, !map_length. exact H2.
  Qed.
End EventTimes.

(* ===================================================================== the two event representations *)
Lemma ev_idx_multiple dt i : 0 < dt -> ev_idx dt (i * dt) = i.
Proof. intros H. unfold ev_idx. apply Z.quot_mul. lia. Qed.

Lemma ev_idx_multiples dt l : 0 < dt -> map (ev_idx dt) (map (fun i => i * dt) l) = l.
Proof.
  intros H. rewrite map_map. rewrite (map_ext _ (fun i => i)) by (intros; apply ev_idx_multiple; exact H).
  apply map_id.
Qed.

(* a time inside bin i (i*dt <= t < (i+1)*dt, i >= 0) is assigned to bin i *)
Lemma ev_idx_bin dt i t : 0 < dt -> 0 <= i -> i * dt <= t < (i + 1) * dt -> ev_idx dt t = i.
Proof.
  intros Hdt Hi Ht. unfold ev_idx. rewrite Z.quot_div_nonneg by nia.
  symmetry. apply (Zdiv_unique _ _ _ (t - i * dt)); nia.
Qed.

(* one event type, given either as the coded series `ev` or as the list of times of its occurrences (in
   increasing order): eta and ets return the same numbers, for ANY data *)
Theorem events_repr_equiv (y : list Q) ev len (b : nat) bc zs times dt c :
  (0 < len)%nat -> c <> 0 -> event_types ev = [c] -> map (ev_idx dt) times = positions ev c ->
  length y = length ev -> inside ev len (Z.of_nat b) ->
  (exists row, eta_ts [y] (Ev1 ev) len (Z.of_nat b) bc zs = Ok [[row]] /\
               eta_events [y] times dt len (Z.of_nat b) bc zs = Ok [row]) /\
  (exists row, ets_ts [y] (Ev1 ev) len (Z.of_nat b) bc zs = Ok [[row]] /\
               ets_events [y] times dt len (Z.of_nat b) bc zs = Ok [row]).
Proof.
  intros Hlen Hc Htypes Hpos Hy Hin.
  assert (Hct : In c (event_types ev)) by (rewrite Htypes; left; reflexivity).
  assert (Hseg : segments y (positions ev c) (Z.of_nat b) len =
                 Ok (map (fun i => seg_fun y len (i + Z.of_nat b)) (positions ev c))).
  { apply segments_inside. intros a Ha. apply positions_In in Ha as [Ha Hv].
    specialize (Hin a Ha ltac:(congruence)). unfold zlen in *. rewrite Hy. lia. }
  split.
  - rewrite eta_ts_1d. unfold per_type. rewrite pad_types, Htypes. cbn [map].
    rewrite (coded_segments ev y len b Hlen Hy Hin c Hct). cbn [rbind rsequence].
    eexists. split; [reflexivity|].
    unfold eta_events. cbn [map]. rewrite Hpos, Hseg. reflexivity.
  - rewrite ets_ts_1d. unfold per_type. rewrite pad_types, Htypes. cbn [map].
    rewrite (coded_segments ev y len b Hlen Hy Hin c Hct). cbn [rbind rsequence].
    eexists. split; [reflexivity|].
    unfold ets_events. cbn [map]. rewrite Hpos, Hseg. reflexivity.
Qed.

(* ===================================================================== linear in the data *)
Definition lincomb (a b : Q) (y y1 y2 : list Q) : Prop :=
  forall t, (getQ y t == a * getQ y1 t + b * getQ y2 t)%Q.

Definition win (y : list Q) (bc : bool) (s k : Z) : Q :=
  if bc then (getQ y (s + k) - getQ y (s + 0))%Q else getQ y (s + k).

Lemma eta_of_formula y len bc starts k : (0 < len)%nat -> 0 <= k < Z.of_nat len ->
  (getQ (eta_of (apply_baseline bc (map (seg_fun y len) starts)) len) k ==
   qsumf (fun s => win y bc s k) starts / qlen starts)%Q.
Proof.
  intros Hlen Hk. unfold eta_of. rewrite getQ_map_zrange by exact Hk. unfold mean, col.
  assert (E : (qsum (map (fun s => getQ s k) (apply_baseline bc (map (seg_fun y len) starts))) ==
               qsumf (fun s => win y bc s k) starts)%Q).
  { unfold apply_baseline, win. destruct bc.
    - rewrite !map_map. apply qsumf_ext. intros s _.
      rewrite baseline_get by (unfold zlen; rewrite seg_fun_length; exact Hk).
      rewrite !getQ_seg_fun by lia. reflexivity.
    - rewrite map_map. apply qsumf_ext. intros s _. rewrite getQ_seg_fun by exact Hk. reflexivity. }
  rewrite E. unfold qlen, zlen. rewrite map_length, apply_baseline_length, map_length. reflexivity.
Qed.

Theorem eta_of_linear a b y y1 y2 len bc starts k :
  (0 < len)%nat -> lincomb a b y y1 y2 -> 0 <= k < Z.of_nat len ->
  (getQ (eta_of (apply_baseline bc (map (seg_fun y len) starts)) len) k ==
   a * getQ (eta_of (apply_baseline bc (map (seg_fun y1 len) starts)) len) k +
   b * getQ (eta_of (apply_baseline bc (map (seg_fun y2 len) starts)) len) k)%Q.
Proof.
  intros Hlen Hl Hk. unfold lincomb in Hl. rewrite !eta_of_formula by assumption.
  assert (E : (qsumf (fun s => win y bc s k) starts ==
               a * qsumf (fun s => win y1 bc s k) starts + b * qsumf (fun s => win y2 bc s k) starts)%Q).
  { rewrite <- !qsumf_scal, <- qsumf_plus. apply qsumf_ext. intros s _. unfold win.
    destruct bc; [rewrite (Hl (s + k)), (Hl (s + 0))|rewrite (Hl (s + k))]; ring. }
  rewrite E. unfold Qdiv. ring.
Qed.

(* end to end for event times with all windows inside the series *)
Theorem eta_events_linear a b y y1 y2 len offset bc zs times dt :
  (0 < len)%nat -> lincomb a b y y1 y2 -> length y = length y1 -> length y = length y2 ->
  (forall tm, In tm times -> 0 <= ev_idx dt tm + offset /\ ev_idx dt tm + offset + Z.of_nat len <= zlen y) ->
  exists r r1 r2,
    eta_events [y] times dt len offset bc zs = Ok [r] /\
    eta_events [y1] times dt len offset bc zs = Ok [r1] /\
    eta_events [y2] times dt len offset bc zs = Ok [r2] /\
    forall k, 0 <= k < Z.of_nat len -> (getQ r k == a * getQ r1 k + b * getQ r2 k)%Q.
Proof.
  intros Hlen Hl H1 H2 Hin. unfold eta_events. cbn [map].
  rewrite !segments_inside.
  - cbn [rbind rsequence]. do 3 eexists. repeat split; try reflexivity.
    intros k Hk. rewrite !map_map. apply (eta_of_linear a b y y1 y2 len bc (map (fun x => ev_idx dt x + offset) times)) in Hk; auto.
    rewrite !map_map in Hk. exact Hk.
  - intros x Hx. apply in_map_iff in Hx as [tm [<- Htm]]. unfold zlen in *. rewrite <- H2. apply Hin; exact Htm.
  - intros x Hx. apply in_map_iff in Hx as [tm [<- Htm]]. unfold zlen in *. rewrite <- H1. apply Hin; exact Htm.
  - intros x Hx. apply in_map_iff in Hx as [tm [<- Htm]]. apply Hin; exact Htm.
Qed.

(* ===================================================================== flags and axis *)
Theorem zscore_irrelevant data ev len offset bc times dt :
  eta_ts data ev len offset bc true = eta_ts data ev len offset bc false /\
  ets_ts data ev len offset bc true = ets_ts data ev len offset bc false /\
  eta_events data times dt len offset bc true = eta_events data times dt len offset bc false /\
  ets_events data times dt len offset bc true = ets_events data times dt len offset bc false.
Proof. repeat split; reflexivity. Qed.

Theorem axis_offset offset dt : out_t0 offset dt = offset * dt /\ out_dt dt = dt /\ out_t0 0 dt = 0.
Proof. unfold out_t0, out_dt. repeat split; lia. Qed.

(* a negative offset is refused for coded-series input (np.zeros of a negative size) *)
Theorem negative_offset_coded pinv data ev len offset bc zs : offset < 0 ->
  FIR pinv data ev len offset = Err ValueError /\ eta_ts data ev len offset bc zs = Err ValueError /\
  ets_ts data ev len offset bc zs = Err ValueError.
Proof.
  intros H. unfold FIR, eta_ts, ets_ts, ts_prepare.
  replace (offset <? 0) with true by (symmetry; apply Z.ltb_lt; exact H). repeat split; reflexivity.
Qed.

(* ===================================================================== decidable forms of the hypotheses *)
Definition inside_b (ev : list Z) (len : nat) (offset : Z) : bool :=
  forallb (fun i => (getZ ev i =? 0) || ((0 <=? i + offset) && (i + offset + Z.of_nat len <=? zlen ev)))
          (zrange (length ev)).
Definition separated_b (ev : list Z) (len : nat) : bool :=
  forallb (fun i => forallb (fun j => (getZ ev i =? 0) || (getZ ev j =? 0) || (i =? j) ||
                                      (Z.of_nat len <=? Z.abs (i - j))) (zrange (length ev)))
          (zrange (length ev)).
Definition left_inverse_b (n : nat) (P : list (list Q)) (G : list (list Z)) : bool :=
  forallb (fun j => forallb (fun c =>
     Qeq_bool (qsumf (fun k => Pf P j k * inject_Z (Gf G k c))%Q (zrange n)) (if j =? c then 1 else 0))
     (zrange n)) (zrange n).

Lemma inside_b_sound ev len offset : inside_b ev len offset = true -> inside_z ev len offset.
Proof.
  unfold inside_b, inside_z. intros H i Hi Hne. rewrite forallb_forall in H.
  specialize (H i ltac:(apply zrange_In; exact Hi)).
  apply orb_prop in H as [H|H]; [apply Z.eqb_eq in H; congruence|].
  apply andb_prop in H as [H1 H2]. apply Z.leb_le in H1. apply Z.leb_le in H2. lia.
Qed.

Lemma inside_z_nat ev len (b : nat) : inside_z ev len (Z.of_nat b) -> inside ev len (Z.of_nat b).
Proof. intros H i Hi Hne. apply H; assumption. Qed.

Lemma separated_b_sound ev len : separated_b ev len = true -> separated ev len.
Proof.
  unfold separated_b, separated. intros H i j Hi Hj Hni Hnj Hij. rewrite forallb_forall in H.
  specialize (H i ltac:(apply zrange_In; exact Hi)). rewrite forallb_forall in H.
  specialize (H j ltac:(apply zrange_In; exact Hj)).
  apply orb_prop in H as [H|H]; [|apply Z.leb_le in H; exact H].
  apply orb_prop in H as [H|H]; [|apply Z.eqb_eq in H; congruence].
  apply orb_prop in H as [H|H]; apply Z.eqb_eq in H; congruence.
Qed.

Lemma left_inverse_b_sound n P G : left_inverse_b n P G = true -> left_inverse n (Pf P) G.
Proof.
  unfold left_inverse_b, left_inverse. intros H j c Hj Hc. rewrite forallb_forall in H.
  specialize (H j ltac:(apply zrange_In; exact Hj)). rewrite forallb_forall in H.
  specialize (H c ltac:(apply zrange_In; exact Hc)). apply Qeq_bool_iff in H. exact H.
Qed.

Lemma synth_get resp ev len offset t : 0 <= t < zlen ev ->
  getQ (synth resp ev len offset) t = synth_at resp ev len offset t.
Proof. intros H. unfold synth. apply (getQ_map_zrange (synth_at resp ev len offset)). exact H. Qed.

Lemma synth_length resp ev len offset : length (synth resp ev len offset) = length ev.
Proof. unfold synth. rewrite map_length. apply zrange_length. Qed.

(* ===================================================================== the negative-code witness *)
Definition w_ev : list Z := [0; -1; 0; 0; 0; -1; 0; 0].
Definition w_resp (c k : Z) : Q :=
  if c =? -1 then (if k =? 0 then 3 # 2 else if k =? 1 then 2 # 1 else 0)%Q else 0%Q.
Definition w_y : list Q := synth w_resp w_ev 2 0.
Definition w_pinv (G : list (list Z)) : list (list Q) := [[1 # 2; 0]; [0; 1 # 2]]%Q.
Definition w_G : list (list Z) := gramT (tabulateT (design (roll (pad 0 0 2 w_ev) 0) 2) 10 2).

Lemma w_y_val : w_y = [0; 3 # 2; 2 # 1; 0; 0; 3 # 2; 2 # 1; 0]%Q.
Proof. vm_compute. reflexivity. Qed.
Lemma w_G_val : w_G = [[2; 0]; [0; 2]].
Proof. vm_compute. reflexivity. Qed.
Lemma w_pinv_ok : left_inverse_b 2 (w_pinv w_G) w_G = true.
Proof. vm_compute. reflexivity. Qed.
Lemma w_FIR_val : FIR w_pinv [w_y] (Ev1 w_ev) 2 0 = Ok [[[(-3 # 2)%Q; (-2 # 1)%Q]]].
Proof. vm_compute. reflexivity. Qed.

(* the faithful model contradicts "FIR returns each event type's response" for a negative code *)
Theorem negative_code_refuted :
  exists pinv ev len resp y,
    (0 < len)%nat /\ inside ev len 0 /\ y = synth resp ev len 0 /\ event_types ev = [-1] /\
    (let evr := roll (pad 0 0 len ev) 0 in
     left_inverse (design_cols evr len) (Pf (pinv (gramT (tabulateT (design evr len) (length evr) (design_cols evr len)))))
                  (gramT (tabulateT (design evr len) (length evr) (design_cols evr len)))) /\
    exists r0 r1, FIR pinv [y] (Ev1 ev) len 0 = Ok [[[r0; r1]]] /\
      (r0 == - resp (-1)%Z 0%Z)%Q /\ (r1 == - resp (-1)%Z 1%Z)%Q /\ ~ (r0 == resp (-1)%Z 0%Z)%Q.
Proof.
  exists w_pinv, w_ev, 2%nat, w_resp, w_y.
  split; [lia|]. split; [apply (inside_z_nat w_ev 2 0), inside_b_sound; vm_compute; reflexivity|].
  split; [reflexivity|]. split; [vm_compute; reflexivity|].
  split; [apply left_inverse_b_sound; exact w_pinv_ok|].
  exists (-3 # 2)%Q, (-2 # 1)%Q. split; [exact w_FIR_val|].
  split; [vm_compute; reflexivity|]. split; [vm_compute; reflexivity|]. vm_compute. discriminate.
Qed.

(* ===================================================================== FIR is linear in the data *)
Lemma lincomb_tail a b x y x1 y1 x2 y2 :
  lincomb a b (x :: y) (x1 :: y1) (x2 :: y2) -> (x == a * x1 + b * x2)%Q /\ lincomb a b y y1 y2.
Proof.
  intros H. split; [exact (H 0)|]. intros t. destruct (Z_lt_le_dec t 0) as [Hn|Hp].
  - unfold getQ. replace (t <? 0) with true by (symmetry; apply Z.ltb_lt; lia). ring.
  - specialize (H (t + 1)). unfold getQ in *.
    replace (t + 1 <? 0) with false in H by (symmetry; apply Z.ltb_ge; lia).
    replace (t <? 0) with false by (symmetry; apply Z.ltb_ge; lia).
    replace (Z.to_nat (t + 1)) with (S (Z.to_nat t)) in H by lia. exact H.
Qed.

Lemma dotZQ_nil_r u : dotZQ u [] = 0%Q.
Proof. destruct u; reflexivity. Qed.

Lemma dotZQ_lin a b u : forall y y1 y2,
  length y = length y1 -> length y = length y2 -> lincomb a b y y1 y2 ->
  (dotZQ u y == a * dotZQ u y1 + b * dotZQ u y2)%Q.
Proof.
  induction u as [|x u IH]; intros y y1 y2 H1 H2 Hl.
  - unfold dotZQ. simpl. ring.
  - destruct y as [|q y]; destruct y1 as [|q1 y1]; destruct y2 as [|q2 y2]; try discriminate.
    + rewrite !dotZQ_nil_r. ring.
    + apply lincomb_tail in Hl as [Hq Hl]. unfold dotZQ in *. cbn [map2].
      rewrite !qsum_cons. rewrite (IH y y1 y2) by (auto; simpl in *; lia). rewrite Hq. ring.
Qed.

Lemma dotQ_maps_lin {A} a b (f f1 f2 : A -> Q) u : forall l,
  (forall c, In c l -> (f c == a * f1 c + b * f2 c)%Q) ->
  (dotQ u (map f l) == a * dotQ u (map f1 l) + b * dotQ u (map f2 l))%Q.
Proof.
  induction u as [|x u IH]; intros l H.
  - unfold dotQ. simpl. ring.
  - destruct l as [|c l]; [unfold dotQ; simpl; ring|].
    unfold dotQ in *. cbn [map map2]. rewrite !qsum_cons.
    rewrite (IH l) by (intros; apply H; right; assumption). rewrite (H c) by (left; reflexivity). ring.
Qed.

Lemma getQ_map_lin {A} a b (g g1 g2 : A -> Q) P :
  (forall p, In p P -> (g p == a * g1 p + b * g2 p)%Q) ->
  forall j, (getQ (map g P) j == a * getQ (map g1 P) j + b * getQ (map g2 P) j)%Q.
Proof.
  intros H j. unfold getQ. destruct (j <? 0); [ring|].
  generalize (Z.to_nat j) as n. induction P as [|p P IH]; intros n.
  - simpl. destruct n; ring.
  - destruct n as [|n]; cbn [map nth].
    + apply H. left; reflexivity.
    + apply IH. intros q Hq. apply H. right; exact Hq.
Qed.

Theorem fir_linear pinv XT a b (y y1 y2 : list Q) :
  length y = length y1 -> length y = length y2 -> lincomb a b y y1 y2 ->
  forall j, (getQ (fir pinv y XT) j == a * getQ (fir pinv y1 XT) j + b * getQ (fir pinv y2 XT) j)%Q.
Proof.
  intros H1 H2 Hl j. unfold fir. apply getQ_map_lin. intros Prow _.
  apply dotQ_maps_lin. intros c _. apply dotZQ_lin; assumption.
Qed.

(* ===================================================================== concrete instances (non-vacuity) *)
Definition ex_resp (c k : Z) : Q := (inject_Z (c * 10 + k) / 4)%Q.

Definition ex_fir_ev : list Z := [1; 2; 0; 1; 0; 0; 0; 0].
Definition ex_fir_G : list (list Z) :=
  let evr := roll (pad 0 1 2 ex_fir_ev) 1 in
  gramT (tabulateT (design evr 2) (length evr) (design_cols evr 2)).
Definition ex_B : list (list Q) := [[1 # 2; 0; 0; 0]; [0; 1; -1; 0]; [0; -1; 2; 0]; [0; 0; 0; 1]]%Q.
Lemma ex_fir_G_val : ex_fir_G = [[2; 0; 0; 0]; [0; 2; 1; 0]; [0; 1; 1; 0]; [0; 0; 0; 1]].
Proof. vm_compute. reflexivity. Qed.
Lemma ex_B_ok : left_inverse_b 4 ex_B ex_fir_G = true.
Proof. vm_compute. reflexivity. Qed.
Lemma ex_fir_inside : inside_b ex_fir_ev 2 1 = true.
Proof. vm_compute. reflexivity. Qed.

Lemma ex_fir_hypotheses :
  let ev := ex_fir_ev in let len := 2%nat in let b := 1%nat in
  (forall c, In c ev -> 0 <= c) /\ inside ev len (Z.of_nat b) /\
  length (synth ex_resp ev len (Z.of_nat b)) = length ev /\
  (forall t, 0 <= t < zlen ev ->
     (getQ (synth ex_resp ev len (Z.of_nat b)) t == synth_at ex_resp ev len (Z.of_nat b) t)%Q) /\
  (let evr := roll (pad 0 b len ev) (Z.of_nat b) in
   nonsingular (design_cols evr len) (gramT (tabulateT (design evr len) (length evr) (design_cols evr len)))) /\
  event_types ev = [1; 2].
Proof.
  cbv zeta. split; [|split; [|split; [|split; [|split]]]].
  - intros c Hc. unfold ex_fir_ev in Hc. simpl in Hc. intuition lia.
  - apply (inside_z_nat ex_fir_ev 2 1), inside_b_sound. exact ex_fir_inside.
  - apply synth_length.
  - intros t Ht. rewrite synth_get by exact Ht. reflexivity.
  - exists (Pf ex_B). apply left_inverse_b_sound. exact ex_B_ok.
  - vm_compute. reflexivity.
Qed.

Definition ex_eta_ev : list Z := [1; 0; 0; -2; 0; 0; 1; 0; 0; 0].
Lemma ex_eta_sep : separated_b ex_eta_ev 3 = true. Proof. vm_compute. reflexivity. Qed.
Lemma ex_eta_inside : inside_b ex_eta_ev 3 1 = true. Proof. vm_compute. reflexivity. Qed.
Lemma ex_eta_hypotheses :
  let ev := ex_eta_ev in let len := 3%nat in let b := 1%nat in
  separated ev len /\ inside ev len (Z.of_nat b) /\
  length (synth ex_resp ev len (Z.of_nat b)) = length ev /\
  (forall t, 0 <= t < zlen ev ->
     (getQ (synth ex_resp ev len (Z.of_nat b)) t == synth_at ex_resp ev len (Z.of_nat b) t)%Q) /\
  event_types ev = [-2; 1] /\ (2 <= length (positions ev 1))%nat.
Proof.
  cbv zeta. split; [|split; [|split; [|split; [|split]]]].
  - apply separated_b_sound. exact ex_eta_sep.
  - apply (inside_z_nat ex_eta_ev 3 1), inside_b_sound. exact ex_eta_inside.
  - apply synth_length.
  - intros t Ht. rewrite synth_get by exact Ht. reflexivity.
  - vm_compute. reflexivity.
  - vm_compute. lia.
Qed.

Definition ex_evt_ev : list Z := [0; 1; 0; 0; 2; 0; 0; 1; 0; 0; 0].
Definition ex_one_ev : list Z := [0; 1; 0; 0; 0; 1; 0; 0; 0].
Lemma ex_evt_sep : separated_b ex_evt_ev 3 = true. Proof. vm_compute. reflexivity. Qed.
Lemma ex_evt_inside : inside_b ex_evt_ev 3 (-1) = true. Proof. vm_compute. reflexivity. Qed.
Lemma ex_one_inside : inside_b ex_one_ev 3 1 = true. Proof. vm_compute. reflexivity. Qed.
Lemma ex_one_types : event_types ex_one_ev = [1]. Proof. vm_compute. reflexivity. Qed.
Lemma ex_one_idx : map (ev_idx 2000000000000) [1 * 2000000000000; 5 * 2000000000000] = positions ex_one_ev 1.
Proof. vm_compute. reflexivity. Qed.
Lemma ex_evt_times : forall tm, In tm [1 * 2000000000000; 7 * 2000000000000] ->
  0 <= ev_idx 2000000000000 tm < zlen ex_evt_ev /\ getZ ex_evt_ev (ev_idx 2000000000000 tm) = 1.
Proof. intros tm [<-|[<-|[]]]; (vm_compute; split; [split; congruence|reflexivity]). Qed.

Lemma ex_events_hypotheses :
  let ev := ex_evt_ev in let len := 3%nat in let dt := 2000000000000 in
  separated ev len /\ inside_z ev len (-1) /\
  (forall tm, In tm [1 * dt; 7 * dt] -> 0 <= ev_idx dt tm < zlen ev /\ getZ ev (ev_idx dt tm) = 1) /\
  (let ev1 := ex_one_ev in
   event_types ev1 = [1] /\ map (ev_idx dt) [1 * dt; 5 * dt] = positions ev1 1 /\ inside ev1 len 1).
Proof.
  cbv zeta.
  split. { apply separated_b_sound. exact ex_evt_sep. }
  split. { apply inside_b_sound. exact ex_evt_inside. }
  split. { exact ex_evt_times. }
  split. { exact ex_one_types. }
  split. { exact ex_one_idx. }
  apply (inside_z_nat ex_one_ev 3 1), inside_b_sound. exact ex_one_inside.
Qed.

(* ===================================================================== per-channel dispatch *)
Lemma combine_repeat {A B} (l : list A) (e : B) : combine l (repeat e (length l)) = map (fun y => (y, e)) l.
Proof. induction l as [|a l IH]; [reflexivity|]. simpl. rewrite IH. reflexivity. Qed.

Lemma prepare_Ev1 data ev len (b : nat) :
  ts_prepare data (Ev1 ev) len (Z.of_nat b) = Ok (map (fun y => (pad 0%Q b len y, pad 0 b len ev)) data).
Proof.
  unfold ts_prepare. replace (Z.of_nat b <? 0) with false by (symmetry; apply Z.ltb_ge; lia).
  rewrite Nat2Z.id. cbn [broadcast_events]. rewrite combine_repeat, map_map. reflexivity.
Qed.

Lemma stack_ok {A} (l : list (list A)) n : (forall x, In x l -> length x = n) -> stack l = Ok l.
Proof.
  intros H. unfold stack, homogeneous. destruct l as [|x r]; [reflexivity|].
  replace (forallb (fun y => (length y =? length x)%nat) r) with true; [reflexivity|].
  symmetry. apply forallb_forall. intros y Hy. apply Nat.eqb_eq.
  rewrite (H y) by (right; exact Hy). rewrite (H x) by (left; reflexivity). reflexivity.
Qed.

Lemma rsequence_map_Forall2 {A B} (f : A -> res B) l l' :
  Forall2 (fun a r => f a = Ok r) l l' -> rsequence (map f l) = Ok l'.
Proof. induction 1 as [|a r l l' H _ IH]; [reflexivity|]. simpl. rewrite H, IH. reflexivity. Qed.

(* multi-channel data with one coded series: channel i of the result is computed from data[i] alone *)
Theorem FIR_per_channel pinv data ev len (b n : nat) rows :
  Forall2 (fun y r => fir_channel pinv len (Z.of_nat b) (pad 0%Q b len y, pad 0 b len ev) = Ok r /\ length r = n)
          data rows ->
  FIR pinv data (Ev1 ev) len (Z.of_nat b) = Ok rows.
Proof.
  intros H. unfold FIR. rewrite prepare_Ev1. cbn [rbind]. rewrite map_map.
  rewrite (rsequence_map_Forall2 _ data rows).
  - cbn [rbind]. apply (stack_ok rows n). intros x Hx.
    clear -H Hx. induction H as [|y r data rows [_ Hr] _ IH]; [destruct Hx|].
    destruct Hx as [<-|Hx]; [exact Hr|apply IH; exact Hx].
  - clear -H. induction H as [|y r data rows [Hy _] _ IH]; constructor; auto.
Qed.

Theorem eta_per_channel data ev len (b n : nat) bc zs rows :
  Forall2 (fun y r => per_type (fun s => eta_of s len) bc len (Z.of_nat b) (pad 0%Q b len y, pad 0 b len ev) = Ok r
                      /\ length r = n) data rows ->
  eta_ts data (Ev1 ev) len (Z.of_nat b) bc zs = Ok rows.
Proof.
  intros H. unfold eta_ts. rewrite prepare_Ev1. cbn [rbind]. rewrite map_map.
  rewrite (rsequence_map_Forall2 _ data rows).
  - cbn [rbind]. apply (stack_ok rows n). intros x Hx.
    clear -H Hx. induction H as [|y r data rows [_ Hr] _ IH]; [destruct Hx|].
    destruct Hx as [<-|Hx]; [exact Hr|apply IH; exact Hx].
  - clear -H. induction H as [|y r data rows [Hy _] _ IH]; constructor; auto.
Qed.

Theorem ets_per_channel data ev len (b n : nat) bc zs rows :
  Forall2 (fun y r => per_type (fun s => ets_of s len) bc len (Z.of_nat b) (pad 0%Q b len y, pad 0 b len ev) = Ok r
                      /\ length r = n) data rows ->
  ets_ts data (Ev1 ev) len (Z.of_nat b) bc zs = Ok rows.
Proof.
  intros H. unfold ets_ts. rewrite prepare_Ev1. cbn [rbind]. rewrite map_map.
  rewrite (rsequence_map_Forall2 _ data rows).
  - cbn [rbind]. apply (stack_ok rows n). intros x Hx.
    clear -H Hx. induction H as [|y r data rows [_ Hr] _ IH]; [destruct Hx|].
    destruct Hx as [<-|Hx]; [exact Hr|apply IH; exact Hx].
  - clear -H. induction H as [|y r data rows [Hy _] _ IH]; constructor; auto.
Qed.

(* ===================================================================== scaling (special case of linearity) *)
Definition scaled (a : Q) (y y1 : list Q) : Prop := forall t, (getQ y t == a * getQ y1 t)%Q.

Lemma scaled_lincomb a y y1 : scaled a y y1 -> lincomb a 0 y y1 y1.
Proof. intros H t. rewrite (H t). ring. Qed.

Theorem fir_scale pinv XT a (y y1 : list Q) :
  length y = length y1 -> scaled a y y1 ->
  forall j, (getQ (fir pinv y XT) j == a * getQ (fir pinv y1 XT) j)%Q.
Proof.
  intros Hl Hs j. rewrite (fir_linear pinv XT a 0 y y1 y1 Hl Hl (scaled_lincomb a y y1 Hs) j). ring.
Qed.

Theorem eta_scale a y y1 len bc starts k :
  (0 < len)%nat -> scaled a y y1 -> 0 <= k < Z.of_nat len ->
  (getQ (eta_of (apply_baseline bc (map (seg_fun y len) starts)) len) k ==
   a * getQ (eta_of (apply_baseline bc (map (seg_fun y1 len) starts)) len) k)%Q.
Proof.
  intros Hlen Hs Hk. rewrite (eta_of_linear a 0 y y1 y1 len bc starts k Hlen (scaled_lincomb a y y1 Hs) Hk). ring.
Qed.
