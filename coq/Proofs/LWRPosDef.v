(* Proofs/LWRPosDef.v — positive-definiteness of the innovation covariance (property C11).
   With Abar = [I, A(1), ..., A(P)] and T the block-Toeplitz matrix of the lags (block (i, k) =
   R(k - i)), the block Yule-Walker equations say Abar T = [sigma, 0, ..., 0], hence
   sigma = Abar T Abar^T (LWRP.sigma_congruence), so v^T sigma v = w^T T w with w = Abar^T v, whose
   first block is v itself.  Over Q (an order is needed), matrices = the executable instance. *)
From Coq Require Import List Arith QArith Bool Lia Setoid Morphisms.
From NT Require Import Sums LWR LWRP.
Import ListNotations.
Open Scope Q_scope.

(* vectors are functions on indices < n *)
Definition vdot (n : nat) (x z : nat -> Q) : Q := sumn (fun a => x a * z a) n.
Definition mvec (n : nat) (M : mat) (y : nat -> Q) : nat -> Q := fun a => sumn (fun b => mget M a b * y b) n.
Definition tvec (n : nat) (M : mat) (x : nat -> Q) : nat -> Q := fun a => sumn (fun c => x c * mget M c a) n.
(* x^T M y *)
Definition bform (n : nat) (x : nat -> Q) (M : mat) (y : nat -> Q) : Q := vdot n x (mvec n M y).
(* w^T T w for the stacked vector w = (w 0, ..., w P), block (i, j) of T being R(j - i) *)
Definition qformT (n : nat) (r : list mat) (P : nat) (w : nat -> nat -> Q) : Q :=
  sumn (fun j => sumn (fun i => bform n (w i) (Rlag (mat_ops n) r j i) (w j)) (S P)) (S P).
Definition vnonzero (n : nat) (v : nat -> Q) : Prop := exists a, (a < n)%nat /\ ~ v a == 0.

Lemma vdot_ext n x x' z z' :
  (forall a, (a < n)%nat -> x a == x' a) -> (forall a, (a < n)%nat -> z a == z' a) ->
  vdot n x z == vdot n x' z'.
Proof. intros Hx Hz. apply sumn_ext. intros a Ha. rewrite (Hx a Ha), (Hz a Ha). reflexivity. Qed.

Lemma mvec_ext n M M' y y' a :
  meq n M M' -> (forall b, (b < n)%nat -> y b == y' b) -> (a < n)%nat -> mvec n M y a == mvec n M' y' a.
Proof. intros HM Hy Ha. apply sumn_ext. intros b Hb. rewrite (HM a b Ha Hb), (Hy b Hb). reflexivity. Qed.

Lemma bform_meq n x M M' y : meq n M M' -> bform n x M y == bform n x M' y.
Proof.
  intros H. apply vdot_ext; [intros; reflexivity|]. intros a Ha. apply mvec_ext; auto. intros; reflexivity.
Qed.

Lemma bform_add n x M1 M2 y : bform n x (madd n M1 M2) y == bform n x M1 y + bform n x M2 y.
Proof.
  unfold bform, vdot.
  rewrite <- (sumn_plus (fun a => x a * mvec n M1 y a) (fun a => x a * mvec n M2 y a) n).
  apply sumn_ext. intros a Ha.
  assert (E : mvec n (madd n M1 M2) y a == mvec n M1 y a + mvec n M2 y a).
  { unfold mvec. rewrite <- (sumn_plus (fun b => mget M1 a b * y b) (fun b => mget M2 a b * y b) n).
    apply sumn_ext. intros b Hb. rewrite madd_get by assumption. ring. }
  rewrite E. ring.
Qed.

Lemma bform_zero n x y : bform n x (mzero n) y == 0.
Proof.
  unfold bform, vdot. rewrite (sumn_ext _ (fun _ => 0)); [apply sumn_const0|].
  intros a Ha. unfold mvec. rewrite (sumn_ext _ (fun _ => 0)); [rewrite sumn_const0; ring|].
  intros b Hb. rewrite mzero_get by assumption. ring.
Qed.

Lemma bform_rsum n x y (f : nat -> mat) m :
  bform n x (rsum (mat_ops n) f m) y == sumn (fun k => bform n x (f k) y) m.
Proof.
  induction m; cbn [rsum sumn].
  - apply bform_zero.
  - cbn [mat_ops mat_ops_with radd]. rewrite bform_add, IHm. reflexivity.
Qed.

Lemma mvec_mul n A B y a : (a < n)%nat -> mvec n (mmul n A B) y a == mvec n A (mvec n B y) a.
Proof.
  intros Ha. unfold mvec.
  rewrite (sumn_ext _ (fun b => sumn (fun c => mget A a c * (mget B c b * y b)) n)).
  2:{ intros b Hb. rewrite mmul_get by assumption. rewrite <- sumn_scal_r. apply sumn_ext. intros; ring. }
  rewrite sumn_swap. apply sumn_ext. intros c Hc. rewrite sumn_scal. reflexivity.
Qed.

Lemma mvec_tr n B y a : (a < n)%nat -> mvec n (mtr n B) y a == tvec n B y a.
Proof. intros Ha. apply sumn_ext. intros b Hb. rewrite mtr_get by assumption. ring. Qed.

Lemma vdot_mvec n x M z : vdot n x (mvec n M z) == vdot n (tvec n M x) z.
Proof.
  unfold vdot, mvec, tvec.
  rewrite (sumn_ext _ (fun a => sumn (fun c => x a * mget M a c * z c) n)).
  2:{ intros a Ha. rewrite <- sumn_scal. apply sumn_ext. intros; ring. }
  rewrite sumn_swap. apply sumn_ext. intros c Hc. rewrite <- sumn_scal_r. apply sumn_ext. intros; ring.
Qed.

(* x^T (A R B^T) y = (A^T x)^T R (B^T y) *)
Lemma bform_congr n x y A R B :
  bform n x (mmul n (mmul n A R) (mtr n B)) y == bform n (tvec n A x) R (tvec n B y).
Proof.
  unfold bform.
  transitivity (vdot n x (mvec n A (mvec n R (tvec n B y)))).
  - apply vdot_ext; [intros; reflexivity|]. intros a Ha.
    rewrite mvec_mul by assumption. rewrite mvec_mul by assumption.
    apply mvec_ext; [intros ? ? ? ?; reflexivity| |assumption].
    intros b Hb. apply mvec_ext; [intros ? ? ? ?; reflexivity| |assumption].
    intros c Hc. apply mvec_tr. assumption.
  - apply vdot_mvec.
Qed.

Lemma tvec_id n v a : (a < n)%nat -> tvec n (mid n) v a == v a.
Proof.
  intros Ha. unfold tvec.
  rewrite (sumn_ext _ (fun c => v c * (if Nat.eqb c a then 1 else 0))).
  - apply (sumn_delta_r v n a Ha).
  - intros c Hc. rewrite mid_get by assumption. reflexivity.
Qed.

Section PosDef.
  Variables (n : nat) (r a : list mat) (sigma : mat) (P : nat).
  Hypothesis HF : forall k, (1 <= k <= P)%nat ->
    meq n (rsum (mat_ops n) (fun i => mmul n (coefA (mat_ops n) a i) (Rlag (mat_ops n) r k i)) (S P)) (mzero n).
  Hypothesis HF0 :
    meq n (rsum (mat_ops n) (fun i => mmul n (coefA (mat_ops n) a i) (Rlag (mat_ops n) r 0 i)) (S P)) sigma.

  (* w = Abar^T v *)
  Definition wvec (v : nat -> Q) : nat -> nat -> Q := fun i => tvec n (coefA (mat_ops n) a i) v.

  Lemma sigma_quadratic_form v : bform n v sigma v == qformT n r P (wvec v).
  Proof.
    pose proof (sigma_congruence (mat_ops n) (meq n) (mat_ring_laws n) r a sigma P HF HF0) as E.
    cbn [mat_ops mat_ops_with rmul rtr] in E.
    rewrite <- (bform_meq n v _ _ v E).
    rewrite bform_rsum. unfold qformT. apply sumn_ext. intros j Hj.
    rewrite bform_rsum. apply sumn_ext. intros i Hi.
    apply bform_congr.
  Qed.

  Lemma wvec_first v b : (b < n)%nat -> wvec v 0%nat b == v b.
  Proof. intros Hb. unfold wvec. cbn [coefA mat_ops mat_ops_with r1]. apply tvec_id. assumption. Qed.

  (* block-Toeplitz positive definite  ->  innovation covariance positive definite *)
  Theorem sigma_positive_definite_lemma :
    (forall w, (exists i, (i <= P)%nat /\ vnonzero n (w i)) -> 0 < qformT n r P w) ->
    forall v, vnonzero n v -> 0 < bform n v sigma v.
  Proof.
    intros HT v (b & Hb & Hv). rewrite sigma_quadratic_form. apply HT.
    exists 0%nat. split; [lia|]. exists b. split; [assumption|]. rewrite wvec_first by assumption. exact Hv.
  Qed.

  Theorem sigma_positive_semidefinite_lemma :
    (forall w, 0 <= qformT n r P w) -> forall v, 0 <= bform n v sigma v.
  Proof. intros HT v. rewrite sigma_quadratic_form. apply HT. Qed.
End PosDef.

(* for the output of the recursion, under the invertibility guard *)
Theorem lwr_sigma_positive_definite_lemma n r P :
  length r = S P ->
  meq n (mtr n (nth 0 r (mzero n))) (nth 0 r (mzero n)) ->
  steps_ok (mat_ops n) (meq n) r P ->
  (forall w, (exists i, (i <= P)%nat /\ vnonzero n (w i)) -> 0 < qformT n r P w) ->
  forall v, vnonzero n v -> 0 < bform n v (snd (lwr_recursion (mat_ops n) r)) v.
Proof.
  intros L Hs Hok HT v Hv.
  pose proof (lwr_solves_block_YW_mat_lemma n r P L Hs Hok) as H.
  destruct (lwr_recursion (mat_ops n) r) as [a sigma]. destruct H as (_ & HF & HF0 & _). simpl.
  exact (sigma_positive_definite_lemma n r a sigma P HF HF0 HT v Hv).
Qed.
