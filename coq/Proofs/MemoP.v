(* Proofs/MemoP.v — lemmas about the memoisation machine of Model/Memo.v (properties C13, C14). *)
From Coq Require Import List Arith Bool Lia.
From NT Require Import Memo.
Import ListNotations.

Section MemoP.
Variable V : Type.
Variable C : cls V.
Variable rk : nat -> nat.
Hypothesis rk_dec : acyclic C rk.

Lemma val_fuel : forall c0 f1 f2 r, rk r < f1 -> rk r < f2 -> val C c0 f1 r = val C c0 f2 r.
Proof.
  intros c0. induction f1 as [|f1 IH]; intros f2 r H1 H2; [lia|]. destruct f2 as [|f2]; [lia|].
  simpl. f_equal. apply map_ext_in. intros d Hd. apply IH; specialize (rk_dec _ _ Hd); lia.
Qed.

Lemma count_nil : forall x, count [] x = 0. Proof. reflexivity. Qed.

(* the invariant: protected cells and every cell read by a getter that has not run yet still hold their
   initial values, every stored result is the fresh value, no getter has run twice, and a name not stored
   has not run *)
Definition Inv (c0 : nat -> V) (prot : nat -> bool) (s : state V) : Prop :=
  ((forall c, prot c = true -> cells s c = c0 c) /\
   (forall r c, In c (creads C r) -> inst s r = None -> cells s c = c0 c)) /\
  (forall x v, inst s x = Some v -> forall f, rk x < f -> v = val C c0 f x) /\
  (forall x, (inst s x = None -> calls s x = 0) /\ calls s x <= 1).
(* the stronger statement about cells that C14 needs *)
Definition Strong (c0 : nat -> V) (prot : nat -> bool) (s : state V) : Prop :=
  forall c, tracked C prot c -> cells s c = c0 c.

Lemma construct_inv : forall c0 prot, Inv c0 prot (construct c0).
Proof.
  intros c0 prot. split; [|split].
  - split; intros; reflexivity.
  - intros x v H. discriminate.
  - intros x. unfold calls. simpl. split; auto.
Qed.

Lemma read_stored : forall fuel s r v, inst s r = Some v -> read C fuel s r = Some (v, s).
Proof. intros fuel s r v H. destruct fuel; simpl; rewrite H; reflexivity. Qed.

Lemma wf_strict_wf : forall c0 prot, wf_strict C c0 prot -> wf C c0 prot.
Proof.
  intros c0 prot [H1 H2]. split; [assumption|]. intros r c f Hin Hq. apply H2; [assumption|].
  destruct Hq as [(r' & _ & Hr')|Hp]; [left; exists r'; assumption|right; assumption].
Qed.

(* cells that satisfy P keep their initial value through the writes of getter r, provided every write of r
   to a P-cell is benign *)
Lemma writes_keep : forall c0 r cv (P : nat -> Prop),
  (forall c f, In (c, f) (cwrites C r) -> P c -> f cv (c0 c) = c0 c) ->
  forall ws, incl ws (cwrites C r) -> forall m, (forall c, P c -> m c = c0 c) ->
  forall c, P c -> fold_left (apply_write cv) ws m c = c0 c.
Proof.
  intros c0 r cv P Hw. induction ws as [|[c' f] ws IH]; intros Hin m Hm c Hc; simpl.
  - apply Hm; assumption.
  - apply IH; [intros w Hx; apply Hin; right; assumption| |assumption].
    intros c2 Hc2. unfold apply_write, upd. simpl. destruct (Nat.eqb c2 c') eqn:E.
    + apply Nat.eqb_eq in E. subst c2. rewrite (Hm c' Hc2).
      apply (Hw c' f); [apply Hin; left; reflexivity|assumption].
    + apply Hm; assumption.
Qed.

Lemma read_sound : forall c0 prot, wf C c0 prot -> forall fuel s r, Inv c0 prot s -> rk r < fuel ->
  exists s', read C fuel s r = Some (val C c0 fuel r, s') /\ Inv c0 prot s' /\
             (forall x v, inst s x = Some v -> inst s' x = Some v) /\
             (forall x, rk r < rk x -> inst s' x = inst s x /\ calls s' x = calls s x) /\
             inst s' r = Some (val C c0 fuel r) /\
             (wf_strict C c0 prot -> Strong c0 prot s -> Strong c0 prot s').
Proof.
  intros c0 prot Hwf. induction fuel as [|fuel IH]; intros s r Hs Hr; [lia|].
  cbn [read]. destruct (inst s r) as [v|] eqn:E.
  - exists s. assert (v = val C c0 (S fuel) r) as -> by (apply (proj1 (proj2 Hs)) ; assumption).
    split; [reflexivity|]. split; [assumption|]. split; [auto|]. split; [auto|]. split; [assumption|auto].
  - assert (G: forall ds s0 acc, Inv c0 prot s0 -> (forall d, In d ds -> rk d < fuel /\ rk d < rk r) ->
       exists s1, (fix go (ds : list nat) (s : state V) (acc : list V) {struct ds} : option (list V * state V) :=
          match ds with [] => Some (rev acc, s)
          | d :: ds' => match read C fuel s d with Some (v, s') => go ds' s' (v :: acc) | None => None end end) ds s0 acc
          = Some (rev acc ++ map (val C c0 fuel) ds, s1) /\ Inv c0 prot s1 /\
          (forall x v, inst s0 x = Some v -> inst s1 x = Some v) /\
          (forall x, rk r <= rk x -> inst s1 x = inst s0 x /\ calls s1 x = calls s0 x) /\
          (wf_strict C c0 prot -> Strong c0 prot s0 -> Strong c0 prot s1)).
    { induction ds as [|d ds IHds]; intros s0 acc Hs0 Hd.
      - exists s0. rewrite app_nil_r. auto 6.
      - destruct (Hd d (or_introl eq_refl)) as [Hd1 Hd2].
        destruct (IH s0 d Hs0 Hd1) as (s1 & R1 & S1 & M1 & F1 & _ & T1). rewrite R1.
        destruct (IHds s1 (val C c0 fuel d :: acc) S1 (fun x Hx => Hd x (or_intror Hx))) as (s2 & R2 & S2 & M2 & F2 & T2).
        exists s2. rewrite R2. simpl. rewrite <- app_assoc. simpl. split; [reflexivity|]. split; [assumption|].
        split; [auto|]. split; [|auto]. intros x Hx. destruct (F2 x Hx) as [A1 A2]. destruct (F1 x ltac:(lia)) as [B1 B2].
        split; congruence. }
    destruct (G (deps C r) s [] Hs) as (s1 & R1 & S1 & M1 & F1 & T1).
    { intros d Hd. specialize (rk_dec _ _ Hd). lia. }
    rewrite R1. simpl rev. simpl app.
    destruct Hwf as [Hcl Hw]. rewrite (Hcl r). simpl fold_left.
    destruct S1 as ((I1p & I1r) & I2 & I3).
    destruct (F1 r (le_n _)) as [Fr1 Fr2].
    assert (Hcv : map (cells s1) (creads C r) = map c0 (creads C r)).
    { apply map_ext_in. intros c Hc. apply (I1r r c Hc). congruence. }
    rewrite Hcv.
    change (fn C r (map (val C c0 fuel) (deps C r)) (map c0 (creads C r))) with (val C c0 (S fuel) r).
    eexists. split; [reflexivity|]. split; [|split; [|split; [|split]]].
    + split; [split|split]; simpl.
      * intros c Hc.
        apply (writes_keep c0 r (map c0 (creads C r)) (fun c => prot c = true));
          [|apply incl_refl|exact I1p|exact Hc].
        intros c' f Hin Hp. apply (Hw r c' f Hin). right; assumption.
      * intros r' c Hc Hn. unfold upd in Hn. destruct (Nat.eqb r' r) eqn:Er; [discriminate|].
        apply Nat.eqb_neq in Er.
        apply (writes_keep c0 r (map c0 (creads C r))
                 (fun c => exists r', r' <> r /\ inst s1 r' = None /\ In c (creads C r'))).
        -- intros c' f Hin (r2 & N2 & _ & H2). apply (Hw r c' f Hin). left. exists r2. split; assumption.
        -- apply incl_refl.
        -- intros c' (r2 & N2 & E2 & H2). apply (I1r r2 c' H2 E2).
        -- exists r'. split; [assumption|]. split; assumption.
      * intros x v Hx f Hf. unfold upd in Hx. destruct (Nat.eqb x r) eqn:Exr.
        -- apply Nat.eqb_eq in Exr. subst x. injection Hx as <-.
           change (val C c0 (S fuel) r = val C c0 f r). apply val_fuel; lia.
        -- apply (I2 _ _ Hx); assumption.
      * intros x. unfold calls, upd. simpl. destruct (Nat.eqb r x) eqn:Erx.
        -- apply Nat.eqb_eq in Erx. subst x. rewrite Nat.eqb_refl.
           assert (calls s1 r = 0) as Z.
           { rewrite Fr2. apply (proj1 (proj2 (proj2 Hs) r)). assumption. }
           unfold calls in Z. rewrite Z. split; [discriminate|lia].
        -- rewrite Nat.eqb_sym in Erx. rewrite Erx. apply (I3 x).
    + simpl. intros x v Hx. unfold upd. destruct (Nat.eqb x r) eqn:Exr.
      * apply Nat.eqb_eq in Exr. subst x. congruence.
      * auto.
    + simpl. intros x Hx. unfold calls, upd. simpl.
      assert (Nat.eqb x r = false) as E1 by (apply Nat.eqb_neq; intros ->; lia).
      assert (Nat.eqb r x = false) as E2 by (apply Nat.eqb_neq; intros ->; lia).
      rewrite E1, E2. apply F1. lia.
    + simpl. unfold upd. rewrite Nat.eqb_refl. reflexivity.
    + intros [_ Hws] St c Hc. simpl.
      apply (writes_keep c0 r (map c0 (creads C r)) (tracked C prot)); [|apply incl_refl| |exact Hc].
      * intros c' f Hin Ht. apply (Hws r c' f Hin Ht).
      * intros c' Hc'. apply (T1 (conj Hcl Hws) St c' Hc').
Qed.

Lemma run_sound : forall c0 prot, wf C c0 prot -> forall F h s0, Inv c0 prot s0 ->
  (forall x, In x h -> rk x < F) ->
  exists s, run C F s0 h = Some s /\ Inv c0 prot s /\ (forall x v, inst s0 x = Some v -> inst s x = Some v) /\
            (wf_strict C c0 prot -> Strong c0 prot s0 -> Strong c0 prot s).
Proof.
  intros c0 prot Hwf F. induction h as [|x h IHh]; intros s0 Hs0 Hh; simpl.
  - exists s0. auto.
  - destruct (read_sound c0 prot Hwf F s0 x Hs0 (Hh x (or_introl eq_refl))) as (s1 & R & S1 & M1 & _ & _ & T1). rewrite R.
    destruct (IHh s1 S1 (fun y Hy => Hh y (or_intror Hy))) as (s2 & R2 & S2 & M2 & T2). exists s2. auto 6.
Qed.

(* C13, all histories *)
Theorem order_independent : forall c0 prot, wf C c0 prot -> forall F h r,
  (forall x, In x (r :: h) -> rk x < F) ->
  exists s, run C F (construct c0) h = Some s /\
  exists s', read C F s r = Some (val C c0 F r, s') /\
             (exists sf, read C F (construct c0) r = Some (val C c0 F r, sf)) /\
             (forall x, calls s' x <= 1) /\
             read C F s' r = Some (val C c0 F r, s') /\
             (forall c, prot c = true -> cells s' c = c0 c) /\
             (forall x v, inst s x = Some v -> inst s' x = Some v).
Proof.
  intros c0 prot Hwf F h r HF.
  destruct (run_sound c0 prot Hwf F h (construct c0) (construct_inv c0 prot)) as (s & R & Ss & _).
  { intros x Hx. apply HF. right; assumption. }
  exists s. split; [assumption|].
  destruct (read_sound c0 prot Hwf F s r Ss (HF r (or_introl eq_refl))) as (s' & R' & S' & M' & _ & St & _).
  exists s'. split; [assumption|].
  destruct (read_sound c0 prot Hwf F (construct c0) r (construct_inv c0 prot) (HF r (or_introl eq_refl)))
    as (sf & Rf & _).
  split; [eauto|]. split; [intros x; apply (proj2 (proj2 S') x)|].
  split; [apply read_stored; assumption|]. split; [|assumption].
  intros c Hc. apply (proj1 (proj1 S')). assumption.
Qed.

(* C14: re-targeting re-establishes the invariant for the new initial cells *)
Lemma retarget_inv : forall c0 c1 prot l,
  survivors_stable C rk c0 c1 -> no_init_derived_state C prot l c0 c1 ->
  forall s, Inv c0 prot s -> Strong c0 prot s ->
  Inv c1 prot (retarget C l s) /\ Strong c1 prot (retarget C l s).
Proof.
  intros c0 c1 prot l Hsurv Hnid s (I1 & I2 & I3) St.
  assert (S1 : Strong c1 prot (retarget C l s)).
  { intros c Hc. simpl. apply (Hnid (cells s)); assumption. }
  split; [|assumption]. split; [|split]; simpl.
  - split.
    + intros c Hc. apply (S1 c). right; assumption.
    + intros r c Hc _. apply (S1 c). left. exists r. assumption.
  - intros x v Hx f Hf. destruct (resets C x) eqn:E; [discriminate|].
    rewrite <- (Hsurv x E f Hf). apply (I2 x v Hx f Hf).
  - intros x. unfold calls. simpl. split; auto.
Qed.

Theorem retarget_equiv_fresh : forall c0 c1 prot l, wf_strict C c0 prot -> wf_strict C c1 prot ->
  survivors_stable C rk c0 c1 -> no_init_derived_state C prot l c0 c1 ->
  forall F h1 h2 r, (forall x, In x (r :: h1 ++ h2) -> rk x < F) ->
  exists s1, run C F (construct c0) h1 = Some s1 /\
  exists s2, run C F (retarget C l s1) h2 = Some s2 /\
  exists s3, read C F s2 r = Some (val C c1 F r, s3) /\
             (exists sf, read C F (construct c1) r = Some (val C c1 F r, sf)) /\
             (forall x, calls s3 x <= 1) /\
             (forall x v, inst (retarget C l s1) x = Some v -> rk x < F -> v = val C c1 F x).
Proof.
  intros c0 c1 prot l Ws0 Ws1 Hsurv Hnid F h1 h2 r HF.
  pose proof (wf_strict_wf c0 prot Ws0) as W0. pose proof (wf_strict_wf c1 prot Ws1) as W1.
  destruct (run_sound c0 prot W0 F h1 (construct c0) (construct_inv c0 prot)) as (s1 & R1 & S1 & _ & T1).
  { intros x Hx. apply HF. right. apply in_or_app. left; assumption. }
  exists s1. split; [assumption|].
  assert (St1 : Strong c0 prot s1) by (apply (T1 Ws0); intros c _; reflexivity).
  destruct (retarget_inv c0 c1 prot l Hsurv Hnid s1 S1 St1) as [S1' _].
  destruct (run_sound c1 prot W1 F h2 (retarget C l s1) S1') as (s2 & R2 & S2 & _).
  { intros x Hx. apply HF. right. apply in_or_app. right; assumption. }
  exists s2. split; [assumption|].
  destruct (read_sound c1 prot W1 F s2 r S2 (HF r (or_introl eq_refl))) as (s3 & R3 & S3 & _).
  exists s3. split; [assumption|].
  destruct (read_sound c1 prot W1 F (construct c1) r (construct_inv c1 prot) (HF r (or_introl eq_refl)))
    as (sf & Rf & _).
  split; [eauto|]. split; [intros x; apply (proj2 (proj2 S3) x)|].
  intros x v Hx Hf. apply (proj1 (proj2 S1') x v Hx F Hf).
Qed.

(* a copied state carries the invariant *)
Lemma copy_inv : forall c0 prot s, Inv c0 prot s -> Inv c0 prot (copy_state s).
Proof.
  intros c0 prot s (I1 & I2 & I3). split; [exact I1|]. split; [exact I2|].
  intros x. unfold calls. simpl. split; auto.
Qed.
Lemma copy_strong : forall c0 prot s, Strong c0 prot s -> Strong c0 prot (copy_state s).
Proof. intros c0 prot s H c Hc. simpl. apply H. assumption. Qed.

(* C14 for objects produced by copying state: after any history h1 the state is copied; the copy is re-targeted
   and read (h2, r) and behaves like a newly built object for the new cells; the original, read on (ho, ro),
   behaves as if no copy had been taken *)
Theorem copy_retarget_equiv_fresh : forall c0 c1 prot l, wf_strict C c0 prot -> wf_strict C c1 prot ->
  survivors_stable C rk c0 c1 -> no_init_derived_state C prot l c0 c1 ->
  forall F h1 h2 r ho ro, (forall x, In x (r :: ro :: h1 ++ h2 ++ ho) -> rk x < F) ->
  exists s1, run C F (construct c0) h1 = Some s1 /\
  (exists s2, run C F (retarget C l (copy_state s1)) h2 = Some s2 /\
   exists s3, read C F s2 r = Some (val C c1 F r, s3) /\ (forall x, calls s3 x <= 1)) /\
  (exists so, run C F s1 ho = Some so /\
   exists so', read C F so ro = Some (val C c0 F ro, so') /\ (forall x, calls so' x <= 1)).
Proof.
  intros c0 c1 prot l Ws0 Ws1 Hsurv Hnid F h1 h2 r ho ro HF.
  pose proof (wf_strict_wf c0 prot Ws0) as W0. pose proof (wf_strict_wf c1 prot Ws1) as W1.
  destruct (run_sound c0 prot W0 F h1 (construct c0) (construct_inv c0 prot)) as (s1 & R1 & S1 & _ & T1).
  { intros x Hx. apply HF. right. right. apply in_or_app. left; assumption. }
  exists s1. split; [assumption|].
  assert (St1 : Strong c0 prot s1) by (apply (T1 Ws0); intros c _; reflexivity).
  split.
  - destruct (retarget_inv c0 c1 prot l Hsurv Hnid (copy_state s1) (copy_inv c0 prot s1 S1)
                (copy_strong c0 prot s1 St1)) as [S1' _].
    destruct (run_sound c1 prot W1 F h2 (retarget C l (copy_state s1)) S1') as (s2 & R2 & S2 & _).
    { intros x Hx. apply HF. right. right. apply in_or_app. right. apply in_or_app. left; assumption. }
    exists s2. split; [assumption|].
    destruct (read_sound c1 prot W1 F s2 r S2 (HF r (or_introl eq_refl))) as (s3 & R3 & S3 & _).
    exists s3. split; [assumption|]. intros x; apply (proj2 (proj2 S3) x).
  - destruct (run_sound c0 prot W0 F ho s1 S1) as (so & Ro & So & _).
    { intros x Hx. apply HF. right. right. apply in_or_app. right. apply in_or_app. right; assumption. }
    exists so. split; [assumption|].
    destruct (read_sound c0 prot W0 F so ro So (HF ro (or_intror (or_introl eq_refl)))) as (so' & Ro' & So' & _).
    exists so'. split; [assumption|]. intros x; apply (proj2 (proj2 So') x).
Qed.

Lemma own_complete_stable : forall c0 c1, own_dict_complete C -> survivors_stable C rk c0 c1.
Proof. intros c0 c1 H x E. rewrite (H x) in E. discriminate. Qed.

Lemma own_complete_clears : forall l s x, own_dict_complete C -> inst (retarget C l s) x = None.
Proof. intros l s x H. simpl. rewrite (H x). reflexivity. Qed.

End MemoP.

(* ------------------------------------------------------------------ the boolean checkers are sound *)
Section Checkers.
Variable V : Type.
Variable C : cls V.

(* the machine has the effect signature the table describes; a write the table flags as "same value"
   is one that stores back what the cell initially holds *)
Definition realises (g : graph) (c0 : nat -> V) : Prop :=
  (forall r, deps C r = g_deps (gnth g r)) /\
  (forall r, creads C r = g_creads (gnth g r)) /\
  (forall r, map fst (clobbers C r) = g_clob (gnth g r)) /\
  (forall r, resets C r = g_resets (gnth g r)) /\
  (forall r, Forall2 (fun w gw => fst w = fst gw /\
                (snd gw = true -> snd w (map c0 (creads C r)) (c0 (fst w)) = c0 (fst w)))
             (cwrites C r) (g_writes (gnth g r))).

Lemma forallb_i_nth : forall A (f : nat -> A -> bool) l i d, forallb_i f i l = true ->
  forall k, k < length l -> f (i + k) (nth k l d) = true.
Proof.
  intros A f. induction l as [|a l IH]; intros i d H k Hk; simpl in *; [lia|].
  apply andb_prop in H as [H1 H2]. destruct k as [|k].
  - rewrite Nat.add_0_r. assumption.
  - replace (i + S k) with (S i + k) by lia. apply IH; [assumption|lia].
Qed.

Lemma Forall2_In_l : forall A B (P : A -> B -> Prop) l1 l2 a, Forall2 P l1 l2 -> In a l1 ->
  exists b, In b l2 /\ P a b.
Proof.
  intros A B P l1 l2 a H. induction H as [|x y l1 l2 Hxy H IH]; intros Hin; [destruct Hin|].
  destruct Hin as [->|Hin]; [exists y; split; [left; reflexivity|assumption]|].
  destruct (IH Hin) as (b & Hb & Pb). exists b. split; [right; assumption|assumption].
Qed.

Lemma mem_In : forall x l, mem x l = true <-> In x l.
Proof.
  intros x l. unfold mem. rewrite existsb_exists. split.
  - intros (y & Hy & E). apply Nat.eqb_eq in E. subst; assumption.
  - intros H. exists x. split; [assumption|apply Nat.eqb_refl].
Qed.

Lemma gnth_out : forall g r, length g <= r -> gnth g r = gnil.
Proof. intros g r H. unfold gnth. apply nth_overflow. assumption. Qed.

Lemma tracked_table : forall g c0 prot c, realises g c0 ->
  tracked C (fun c => mem c prot) c -> is_read g c || mem c prot = true.
Proof.
  intros g c0 prot c (_ & Hc & _) [[r Hr]|Hp]; [|rewrite Hp; apply orb_true_r].
  apply orb_true_intro. left. rewrite Hc in Hr. unfold is_read. apply existsb_exists.
  destruct (Nat.lt_ge_cases r (length g)) as [Hlt|Hge].
  - exists (gnth g r). split; [apply nth_In; assumption|apply mem_In; assumption].
  - rewrite (gnth_out g r Hge) in Hr. destruct Hr.
Qed.

Lemma node_ok_all : forall strict g prot r, forallb_i (node_ok_gen strict g prot) 0 g = true ->
  node_ok_gen strict g prot r (gnth g r) = true.
Proof.
  intros strict g prot r H. destruct (Nat.lt_ge_cases r (length g)) as [Hlt|Hge].
  - apply (forallb_i_nth _ (node_ok_gen strict g prot) g 0 gnil H r Hlt).
  - rewrite (gnth_out g r Hge). reflexivity.
Qed.

Lemma readother_table : forall g c0 r c, realises g c0 -> readcell_other C r c -> is_read_other g r c = true.
Proof.
  intros g c0 r c (_ & Hc & _) (r' & Hne & Hr). rewrite Hc in Hr. unfold is_read_other. apply existsb_exists.
  destruct (Nat.lt_ge_cases r' (length g)) as [Hlt|Hge].
  - exists r'. split; [apply in_seq; lia|]. apply andb_true_intro. split.
    + apply negb_true_iff. apply Nat.eqb_neq. assumption.
    + apply mem_In. assumption.
  - rewrite (gnth_out g r' Hge) in Hr. destruct Hr.
Qed.

Lemma check_sound_gen : forall strict g prot c0, realises g c0 ->
  forallb_i (node_ok_gen strict g prot) 0 g = true ->
  (forall r, clobbers C r = []) /\ acyclic C (fun x => x) /\
  (forall r c f, In (c, f) (cwrites C r) ->
     (if strict then is_read g c else is_read_other g r c) || mem c prot = true ->
     f (map c0 (creads C r)) (c0 c) = c0 c).
Proof.
  intros strict g prot c0 HR Hchk. pose proof HR as (Hd & Hc & Hcl & _ & Hw).
  split; [|split].
  - intros r. pose proof (node_ok_all strict g prot r Hchk) as N. unfold node_ok_gen in N.
    apply andb_prop in N as [N _]. apply andb_prop in N as [_ N].
    specialize (Hcl r). destruct (g_clob (gnth g r)); [|discriminate].
    destruct (clobbers C r); [reflexivity|discriminate].
  - intros r d Hin. rewrite Hd in Hin. pose proof (node_ok_all strict g prot r Hchk) as N. unfold node_ok_gen in N.
    apply andb_prop in N as [N _]. apply andb_prop in N as [N _]. rewrite forallb_forall in N.
    apply Nat.ltb_lt. apply N. assumption.
  - intros r c f Hin Htr. pose proof (node_ok_all strict g prot r Hchk) as N. unfold node_ok_gen in N.
    apply andb_prop in N as [_ N]. rewrite forallb_forall in N.
    destruct (Forall2_In_l _ _ _ _ _ _ (Hw r) Hin) as (gw & Hgw & E1 & E2). simpl in E1, E2.
    specialize (N gw Hgw). unfold write_bad in N. destruct (snd gw) eqn:Es; [apply E2; reflexivity|].
    simpl in N. rewrite <- E1 in N. rewrite Htr in N. discriminate.
Qed.

Theorem wf_check_sound : forall g prot c0, realises g c0 -> wf_check g prot = true ->
  wf C c0 (fun c => mem c prot) /\ acyclic C (fun x => x).
Proof.
  intros g prot c0 HR Hchk. destruct (check_sound_gen false g prot c0 HR Hchk) as (Hcl & Ac & Hw).
  split; [split|]; [assumption| |assumption].
  intros r c f Hin Hq. apply (Hw r c f Hin). destruct Hq as [Hq|Hp].
  - rewrite (readother_table g c0 r c HR Hq). reflexivity.
  - rewrite Hp. apply orb_true_r.
Qed.

Theorem wf_check_strict_sound : forall g prot c0, realises g c0 -> wf_check_strict g prot = true ->
  wf_strict C c0 (fun c => mem c prot) /\ acyclic C (fun x => x).
Proof.
  intros g prot c0 HR Hchk. destruct (check_sound_gen true g prot c0 HR Hchk) as (Hcl & Ac & Hw).
  split; [split|]; [assumption| |assumption].
  intros r c f Hin Hq. apply (Hw r c f Hin). apply (tracked_table g c0 prot c HR Hq).
Qed.

(* a well-formed table has no offending edge, and conversely *)
Lemma taint_val : forall g c0 c1 changed, realises g c0 ->
  (forall c, mem c changed = false -> c0 c = c1 c) ->
  forall f x, taint g changed f x = false -> val C c0 f x = val C c1 f x.
Proof.
  intros g c0 c1 changed (Hd & Hc & _) Hch. induction f as [|f IH]; intros x H; [discriminate|].
  simpl in H. apply orb_false_elim in H as [H1 H2]. simpl.
  assert (A : map c0 (creads C x) = map c1 (creads C x)).
  { apply map_ext_in. intros c Hin. apply Hch. rewrite Hc in Hin.
    destruct (mem c changed) eqn:E; [|reflexivity].
    assert (existsb (fun c => mem c changed) (g_creads (gnth g x)) = true) as Q
      by (apply existsb_exists; exists c; split; assumption). congruence. }
  assert (B : map (val C c0 f) (deps C x) = map (val C c1 f) (deps C x)).
  { apply map_ext_in. intros d Hin. apply IH. rewrite Hd in Hin.
    destruct (taint g changed f d) eqn:E; [|reflexivity].
    assert (existsb (taint g changed f) (g_deps (gnth g x)) = true) as Q
      by (apply existsb_exists; exists d; split; assumption). congruence. }
  rewrite A, B. reflexivity.
Qed.

Lemma filter_nil_all : forall A (p : A -> bool) l, filter p l = [] -> forall a, In a l -> p a = false.
Proof.
  intros A p. induction l as [|b l IH]; intros H a Hin; [destruct Hin|]. simpl in H.
  destruct (p b) eqn:E; [discriminate|]. destruct Hin as [->|Hin]; [assumption|apply IH; assumption].
Qed.

(* C14: the boolean checker over the tables implies the hypotheses of retarget_equiv_fresh.
   [l] is the list of assignments the re-targeting performs; the tables describe it faithfully. *)
Theorem checker_sound : forall g prot assigned changed c0 c1 l,
  realises g c0 -> realises g c1 ->
  (forall c, mem c changed = false -> c0 c = c1 c) ->
  (forall c m, mem c assigned = true -> assign l m c = c1 c) ->
  (forall c m, mem c assigned = false -> assign l m c = m c) ->
  c14_check g prot assigned changed = true ->
  wf_strict C c0 (fun c => mem c prot) /\ wf_strict C c1 (fun c => mem c prot) /\ acyclic C (fun x => x) /\
  survivors_stable C (fun x => x) c0 c1 /\
  no_init_derived_state C (fun c => mem c prot) l c0 c1.
Proof.
  intros g prot assigned changed c0 c1 l R0 R1 Hch Ha1 Ha2 Hchk. unfold c14_check in Hchk.
  apply andb_prop in Hchk as [Hchk H3]. apply andb_prop in Hchk as [H1 H2].
  destruct (wf_check_strict_sound g prot c0 R0 H1) as [W0 Ac]. destruct (wf_check_strict_sound g prot c1 R1 H1) as [W1 _].
  split; [assumption|]. split; [assumption|]. split; [assumption|]. split.
  - intros x Hx f Hf. destruct (stale_survivors g changed) eqn:E; [|discriminate].
    unfold stale_survivors in E. pose proof R0 as (_ & _ & _ & Hr & _). rewrite Hr in Hx.
    destruct (Nat.lt_ge_cases x (length g)) as [Hlt|Hge].
    + pose proof (filter_nil_all _ _ _ E x) as Q. simpl in Q. rewrite Hx in Q. simpl in Q.
      assert (In x (seq 0 (length g))) as Hin by (apply in_seq; lia). specialize (Q Hin).
      rewrite <- (val_fuel V C (fun x => x) Ac c0 (S x) f x) by lia.
      rewrite <- (val_fuel V C (fun x => x) Ac c1 (S x) f x) by lia.
      apply (taint_val g c0 c1 changed R0 Hch). assumption.
    + rewrite (gnth_out g x Hge) in Hx. discriminate.
  - intros m Hm c Hc. destruct (mem c assigned) eqn:Ea; [apply Ha1; assumption|].
    rewrite (Ha2 c m Ea). rewrite (Hm c Hc). apply Hch.
    destruct (mem c changed) eqn:Ec; [|reflexivity].
    destruct (stale_cells g prot assigned changed) eqn:E; [|discriminate].
    unfold stale_cells in E. pose proof (filter_nil_all _ _ _ E c (proj1 (mem_In c changed) Ec)) as Q.
    simpl in Q. rewrite Ea in Q. rewrite (tracked_table g c0 prot c R0 Hc) in Q. discriminate.
Qed.

End Checkers.

(* ------------------------------------------------------------------ the free instance realises its table *)
Lemma sym_realises : forall g, realises sym (sym_cls g) g sym_init.
Proof.
  intros g. split; [reflexivity|]. split; [reflexivity|]. split; [|split; [reflexivity|]].
  - intros r. simpl. rewrite map_map. simpl. apply map_id.
  - intros r. simpl. induction (g_writes (gnth g r)) as [|w l IH]; simpl; constructor; [|assumption].
    split; [reflexivity|]. intros E. simpl. rewrite E. reflexivity.
Qed.

Lemma sym_realises_new : forall g changed, realises sym (sym_cls g) g (sym_init_new changed).
Proof.
  intros g changed. split; [reflexivity|]. split; [reflexivity|]. split; [|split; [reflexivity|]].
  - intros r. simpl. rewrite map_map. simpl. apply map_id.
  - intros r. simpl. induction (g_writes (gnth g r)) as [|w l IH]; simpl; constructor; [|assumption].
    split; [reflexivity|]. intros E. simpl. rewrite E. reflexivity.
Qed.

(* hence: a table that passes the checker generates a machine on which EVERY history of reads returns
   the fresh values — this is what the per-class G lemma `wf_check actual_graph = true` buys *)
Theorem table_order_independent : forall g prot, wf_check g prot = true ->
  forall F h r, (forall x, In x (r :: h) -> x < F) ->
  exists s, run (sym_cls g) F (construct sym_init) h = Some s /\
  exists s', read (sym_cls g) F s r = Some (val (sym_cls g) sym_init F r, s') /\
             (exists sf, read (sym_cls g) F (construct sym_init) r = Some (val (sym_cls g) sym_init F r, sf)) /\
             (forall x, calls s' x <= 1) /\
             read (sym_cls g) F s' r = Some (val (sym_cls g) sym_init F r, s') /\
             (forall c, mem c prot = true -> cells s' c = sym_init c) /\
             (forall x v, inst s x = Some v -> inst s' x = Some v).
Proof.
  intros g prot H. destruct (wf_check_sound sym (sym_cls g) g prot sym_init (sym_realises g) H) as [W A].
  intros F h r HF. apply (order_independent sym (sym_cls g) (fun x => x) A sym_init (fun c => mem c prot) W F h r HF).
Qed.

Lemma assign_sym : forall assigned changed c m,
  (mem c assigned = true -> assign (sym_assign assigned changed) m c = sym_init_new changed c) /\
  (mem c assigned = false -> assign (sym_assign assigned changed) m c = m c).
Proof.
  intros assigned changed c. unfold sym_assign.
  induction assigned as [|a l IH]; intros m; simpl.
  - split; [discriminate|reflexivity].
  - destruct (IH (upd m a (sym_init_new changed a))) as [I1 I2].
    change (mem c (a :: l)) with (Nat.eqb c a || mem c l).
    destruct (mem c l) eqn:El.
    + rewrite orb_true_r. split; [intros _; apply I1; reflexivity|discriminate].
    + rewrite orb_false_r. destruct (Nat.eqb c a) eqn:E.
      * split; [intros _|discriminate]. rewrite (I2 eq_refl). unfold upd. rewrite E.
        apply Nat.eqb_eq in E. subst. reflexivity.
      * split; [discriminate|intros _]. rewrite (I2 eq_refl). unfold upd. rewrite E. reflexivity.
Qed.

Theorem table_retarget_equiv_fresh : forall g prot assigned changed,
  c14_check g prot assigned changed = true ->
  forall F h1 h2 r, (forall x, In x (r :: h1 ++ h2) -> x < F) ->
  let K := sym_cls g in let c1 := sym_init_new changed in
  exists s1, run K F (construct sym_init) h1 = Some s1 /\
  exists s2, run K F (retarget K (sym_assign assigned changed) s1) h2 = Some s2 /\
  exists s3, read K F s2 r = Some (val K c1 F r, s3) /\
             (exists sf, read K F (construct c1) r = Some (val K c1 F r, sf)) /\
             (forall x, calls s3 x <= 1) /\
             (forall x v, inst (retarget K (sym_assign assigned changed) s1) x = Some v -> x < F -> v = val K c1 F x).
Proof.
  intros g prot assigned changed H F h1 h2 r HF K c1.
  destruct (checker_sound sym K g prot assigned changed sym_init c1 (sym_assign assigned changed)
              (sym_realises g) (sym_realises_new g changed)) as (W0 & W1 & A & Sv & Nid); auto.
  - intros c E. unfold c1, sym_init_new, sym_init. rewrite E. reflexivity.
  - intros c m E. apply (proj1 (assign_sym assigned changed c m) E).
  - intros c m E. apply (proj2 (assign_sym assigned changed c m) E).
  - apply (retarget_equiv_fresh sym K (fun x => x) A sym_init c1 (fun c => mem c prot)
             (sym_assign assigned changed) W0 W1 Sv Nid F h1 h2 r HF).
Qed.

(* ------------------------------------------------------------------ concrete tables: witnesses *)
(* CoherenceAnalyzer (default): 0 spectrum, 1 coherence, 2 phase, 3 frequencies, 4 delay;
   cells 0 = input, 1 = method.Fs, 2 = _unwrap_phases *)
Definition nd (d r : list nat) (w : list (nat * bool)) (c : list nat) : gnode :=
  {| g_deps := d; g_creads := r; g_writes := w; g_clob := c; g_resets := true |}.
Definition coh_graph : graph :=
  [nd [] [0; 1] [] []; nd [0] [0] [] []; nd [0] [0] [] []; nd [] [0; 1] [] []; nd [2; 3] [2] [] []].
Lemma coh_graph_ok : wf_check coh_graph [0] = true. Proof. vm_compute. reflexivity. Qed.

(* the same class before commit b8ea455: delay (4) unwrapped the stored phase (2) in place *)
Definition coh_unwrap_old : graph :=
  [nd [] [0; 1] [] []; nd [0] [0] [] []; nd [0] [0] [] []; nd [] [0; 1] [] []; nd [2; 3] [2] [] [2]].

(* SeedCoherenceAnalyzer: 0 frequencies, 1 target_cache, 2 coherency (inserts the seed under key -1 into
   the stored target_cache), 3 coherence; cells 0 = seed, 1 = target, 2 = method.Fs *)
Definition seed_graph : graph :=
  [nd [] [0; 2] [(2, true)] []; nd [] [1; 2] [] []; nd [0; 1] [0; 1; 2] [] [1]; nd [2] [] [] []].
(* before commit 291fcce: frequencies assigned method.Fs (absent -> the seed's rate), target_cache read it *)
Definition seed_old : graph :=
  [nd [] [0; 2] [(2, false)] []; nd [] [1; 2] [] []; nd [0; 1] [0; 1; 2] [] []; nd [2] [] [] []].

Definition value_after (g : graph) (h : list nat) (r : nat) : option sym :=
  match run (sym_cls g) (S (length g)) (construct sym_init) h with
  | Some s => match read (sym_cls g) (S (length g)) s r with Some (v, _) => Some v | None => None end
  | None => None end.
Definition differs_from_fresh (g : graph) (h : list nat) (r : nat) : bool :=
  match value_after g h r, value_after g [] r with
  | Some v, Some w => negb (sym_eqb v w) | _, _ => false end.
(* the value handed out for r after h1 is no longer what is stored after reading h2 as well *)
Definition handed_out_altered (g : graph) (h1 : list nat) (r : nat) (h2 : list nat) : bool :=
  match value_after g h1 r, value_after g (h1 ++ r :: h2) r with
  | Some v, Some w => negb (sym_eqb v w) | _, _ => false end.

Lemma seed_graph_bad : wf_check seed_graph [0; 1] = false. Proof. vm_compute. reflexivity. Qed.
Lemma seed_cache_differs : differs_from_fresh seed_graph [2] 1 = true. Proof. vm_compute. reflexivity. Qed.
Lemma seed_cache_altered : handed_out_altered seed_graph [] 1 [2] = true. Proof. vm_compute. reflexivity. Qed.
Lemma coh_old_differs : differs_from_fresh coh_unwrap_old [4] 2 = true. Proof. vm_compute. reflexivity. Qed.
Lemma coh_old_altered : handed_out_altered coh_unwrap_old [] 2 [4] = true. Proof. vm_compute. reflexivity. Qed.
Lemma seed_old_differs : differs_from_fresh seed_old [1] 2 = true. Proof. vm_compute. reflexivity. Qed.
Lemma coh_same : differs_from_fresh coh_graph [4; 1; 3] 2 = false. Proof. vm_compute. reflexivity. Qed.

(* C14 witnesses.  GrangerAnalyzer: 0 _model reads cell 1 (= self.data, copied from the input in __init__),
   1 frequencies reads cell 2 (= self.sampling_rate, copied), 2 causality_xy; cell 0 = input *)
Definition granger_graph : graph := [nd [] [1] [] []; nd [] [2] [] []; nd [1; 0] [] [] []].
(* a class whose reset misses an inherited result (type(self).__dict__ only, before commit 1fea8ad):
   0 duration reads cell 0 (= data), reset does not delete it *)
Definition subclass_old : graph :=
  [{| g_deps := []; g_creads := [0]; g_writes := []; g_clob := []; g_resets := false |}].
Definition epochs_graph : graph := [nd [] [0] [] []].

Definition value_after_switch (g : graph) (assigned changed h1 h2 : list nat) (r : nat) : option sym :=
  match run (sym_cls g) (S (length g)) (construct sym_init) h1 with
  | Some s1 =>
      match run (sym_cls g) (S (length g)) (retarget (sym_cls g) (sym_assign assigned changed) s1) h2 with
      | Some s2 => match read (sym_cls g) (S (length g)) s2 r with Some (v, _) => Some v | None => None end
      | None => None end
  | None => None end.
Definition fresh_new (g : graph) (changed : list nat) (r : nat) : option sym :=
  match read (sym_cls g) (S (length g)) (construct (sym_init_new changed)) r with
  | Some (v, _) => Some v | None => None end.
Definition stale_after_switch (g : graph) (assigned changed h1 h2 : list nat) (r : nat) : bool :=
  match value_after_switch g assigned changed h1 h2 r, fresh_new g changed r with
  | Some v, Some w => negb (sym_eqb v w) | _, _ => false end.

Lemma granger_check_fails : c14_check granger_graph [] [0] [0; 1; 2] = false. Proof. vm_compute. reflexivity. Qed.
Lemma granger_stale : stale_after_switch granger_graph [0] [0; 1; 2] [] [] 2 = true. Proof. vm_compute. reflexivity. Qed.
Lemma subclass_old_check_fails : c14_check subclass_old [] [0] [0] = false. Proof. vm_compute. reflexivity. Qed.
Lemma subclass_old_stale : stale_after_switch subclass_old [0] [0] [0] [] 0 = true. Proof. vm_compute. reflexivity. Qed.
Lemma epochs_check_ok : c14_check epochs_graph [] [0] [0] = true. Proof. vm_compute. reflexivity. Qed.
Lemma epochs_fresh : stale_after_switch epochs_graph [0] [0] [0] [] 0 = false. Proof. vm_compute. reflexivity. Qed.
Lemma coh_c14_same_rate : c14_check coh_graph [] [0] [0] = true. Proof. vm_compute. reflexivity. Qed.
Lemma coh_c14_other_rate_fails : c14_check coh_graph [] [0] [0; 1] = false. Proof. vm_compute. reflexivity. Qed.
Lemma coh_c14_other_rate_stale : stale_after_switch coh_graph [0] [0; 1] [3] [] 3 = true. Proof. vm_compute. reflexivity. Qed.

(* a getter that keeps a private cache in a plain attribute: 0 reads cell 1 and assigns it (changed); cell 0 =
   input.  Harmless between resets (C13), stale across a reset (C14) *)
Definition selfcache_graph : graph := [nd [] [0; 1] [(1, false)] []].
Lemma selfcache_c13_ok : wf_check selfcache_graph [0] = true. Proof. vm_compute. reflexivity. Qed.
Lemma selfcache_c14_bad : c14_check selfcache_graph [0] [0] [0] = false. Proof. vm_compute. reflexivity. Qed.
Lemma selfcache_stale : stale_after_switch selfcache_graph [0] [0] [0] [] 0 = true. Proof. vm_compute. reflexivity. Qed.

(* the hypotheses of retarget_equiv_fresh are met by the machine of any table that passes the checker *)
Lemma table_hypotheses : forall g prot assigned changed, c14_check g prot assigned changed = true ->
  let K := sym_cls g in let c1 := sym_init_new changed in
  wf_strict K sym_init (fun c => mem c prot) /\ wf_strict K c1 (fun c => mem c prot) /\ acyclic K (fun x => x) /\
  survivors_stable K (fun x => x) sym_init c1 /\
  no_init_derived_state K (fun c => mem c prot) (sym_assign assigned changed) sym_init c1.
Proof.
  intros g prot assigned changed H K c1.
  apply (checker_sound sym K g prot assigned changed sym_init c1 (sym_assign assigned changed)
           (sym_realises g) (sym_realises_new g changed)); auto.
  - intros c E. unfold c1, sym_init_new, sym_init. rewrite E. reflexivity.
  - intros c m E. apply (proj1 (assign_sym assigned changed c m) E).
  - intros c m E. apply (proj2 (assign_sym assigned changed c m) E).
Qed.
