(* Proofs/CacheP.v — lemmas about Model/Cache.v (property C09). *)
From Coq Require Import QArith List Arith ZArith Bool Lia Psatz Setoid Morphisms.
From NT Require Import QC Sums Cache.
Import ListNotations.
Open Scope Q_scope.

(* ------------------------------------------------------------------ normalisation is the identity *)
Lemma pstrip_eq d : forall n, let (n', d') := pstrip n d in Qmake n' d' == Qmake n d.
Proof.
  induction d as [d IH|d IH|]; intros n; simpl; try reflexivity.
  destruct (Z.even n) eqn:E; [|reflexivity].
  specialize (IH (Z.div2 n)). destruct (pstrip (Z.div2 n) d) as [n' d'].
  rewrite IH. unfold Qeq; simpl.
  pose proof (Z.div2_odd n) as H. rewrite <- Z.negb_even, E in H. change (Z.b2z (negb true)) with 0%Z in H.
  rewrite Pos2Z.inj_xO. lia.
Qed.
Lemma dred_eq q : dred q == q.
Proof. unfold dred. pose proof (pstrip_eq (Qden q) (Qnum q)) as H.
  destruct (pstrip (Qnum q) (Qden q)). rewrite H. destruct q; reflexivity. Qed.
Lemma cred_eq z : cred z =c= z.
Proof. split; unfold cred, re, im; simpl; apply dred_eq. Qed.
Lemma plog2_spec d : forall k, plog2 d = Some k -> Zpos d = (2 ^ Z.of_nat k)%Z.
Proof.
  induction d as [d IH|d IH|]; intros k H; simpl in H; try discriminate.
  - destruct (plog2 d) as [k'|] eqn:E; simpl in H; [|discriminate]. inversion H; subst k.
    rewrite Pos2Z.inj_xO, (IH k' eq_refl), Nat2Z.inj_succ, Z.pow_succ_r by lia. reflexivity.
  - inversion H. reflexivity.
Qed.
Lemma dadd_eq x y : dadd x y == x + y.
Proof.
  unfold dadd. destruct (plog2 (Qden x)) as [a|] eqn:Ea; [|reflexivity].
  destruct (plog2 (Qden y)) as [b|] eqn:Eb; [|reflexivity].
  apply plog2_spec in Ea. apply plog2_spec in Eb.
  destruct x as [nx dx], y as [ny dy]; simpl in *.
  destruct (a <=? b)%nat eqn:E; unfold Qeq, Qplus; simpl; rewrite Z.shiftl_mul_pow2 by lia.
  - apply Nat.leb_le in E. rewrite !Pos2Z.inj_mul, Ea, Eb.
    assert (Hb : (2 ^ Z.of_nat b = 2 ^ Z.of_nat a * 2 ^ Z.of_nat (b - a))%Z)
      by (rewrite <- Z.pow_add_r by lia; f_equal; lia).
    rewrite Hb. ring.
  - apply Nat.leb_gt in E. rewrite !Pos2Z.inj_mul, Ea, Eb.
    assert (Hb : (2 ^ Z.of_nat a = 2 ^ Z.of_nat b * 2 ^ Z.of_nat (a - b))%Z)
      by (rewrite <- Z.pow_add_r by lia; f_equal; lia).
    rewrite Hb. ring.
Qed.
Lemma caddd_eq a b : caddd a b =c= cadd a b.
Proof. split; unfold caddd, cadd, re, im; simpl; apply dadd_eq. Qed.
Lemma cmuld_eq a b : cmuld a b =c= cmul a b.
Proof. split; unfold cmuld, cmul, re, im; simpl; rewrite dadd_eq; ring. Qed.
Lemma csumr_eq f n : csumr f n =c= csumn f n.
Proof. induction n; simpl; [reflexivity|]. rewrite cred_eq, caddd_eq, IHn. reflexivity. Qed.

Lemma nq_pos n : (0 < n)%nat -> 0 < nq n.
Proof. intros H. unfold nq, Qlt; simpl. lia. Qed.
Lemma cmean_eq f n : cmean f n =c= cscale (/ nq n) (csumn f n).
Proof. unfold cmean. rewrite csumr_eq. reflexivity. Qed.
Lemma cmean_one f : cmean f 1 =c= f 0%nat.
Proof. rewrite cmean_eq. simpl. split; unfold cscale, cadd, c0, re, im, nq; simpl; field. Qed.

(* the reduction used by all branches: np.mean over the windows, or the single window itself *)
Definition wmean (nw : nat) (g : nat -> C) : C := if (1 <? nw)%nat then cmean g nw else g 0%nat.
Lemma wmean_eq nw g : (1 <= nw)%nat -> wmean nw g =c= cscale (/ nq nw) (csumn g nw).
Proof.
  intros H. unfold wmean. destruct (1 <? nw)%nat eqn:E.
  - apply cmean_eq.
  - apply Nat.ltb_ge in E. assert (nw = 1%nat) by lia. subst. rewrite <- cmean_eq. symmetry. apply cmean_one.
Qed.

Global Instance csumn_proper_n n : Proper (pointwise_relation nat ceq ==> ceq) (fun f => csumn f n).
Proof. intros f g H. apply csumn_ext. intros; apply H. Qed.

(* ------------------------------------------------------------------ zero_pad *)
Lemma zero_pad_length x nfft : length (zero_pad x nfft) = Nat.max (length x) nfft.
Proof.
  unfold zero_pad. destruct (length x <? nfft)%nat eqn:E.
  - apply Nat.ltb_lt in E. rewrite app_length, repeat_length. lia.
  - apply Nat.ltb_ge in E. lia.
Qed.
Lemma zero_pad_nth_data x nfft t : (t < length x)%nat -> nth t (zero_pad x nfft) 0 = nth t x 0.
Proof. intros H. unfold zero_pad. destruct (length x <? nfft)%nat; [rewrite app_nth1|]; auto. Qed.
Lemma zero_pad_nth_tail x nfft t : (length x <= t)%nat -> nth t (zero_pad x nfft) 0 = 0.
Proof.
  intros H. unfold zero_pad. destruct (length x <? nfft)%nat.
  - rewrite app_nth2 by lia. destruct (Nat.lt_ge_cases (t - length x) (nfft - length x)).
    + apply nth_repeat.
    + apply nth_overflow. rewrite repeat_length. lia.
  - apply nth_overflow. lia.
Qed.
Lemma zero_pad_long x nfft : (nfft <= length x)%nat -> zero_pad x nfft = x.
Proof. intros H. unfold zero_pad. destruct (length x <? nfft)%nat eqn:E; auto. apply Nat.ltb_lt in E. lia. Qed.

(* ------------------------------------------------------------------ get_bounds *)
Lemma filter_length_le {A} (p : A -> bool) l : (length (filter p l) <= length l)%nat.
Proof. induction l; simpl; [lia|]. destruct (p a); simpl; lia. Qed.
(* on a sorted vector the first count(< v) elements are exactly those below v *)
Fixpoint sortedQ (l : list Q) : Prop :=
  match l with [] => True | a :: l' => (forall b, In b l' -> a <= b) /\ sortedQ l' end.
Lemma filter_all_false {A} (p : A -> bool) l : (forall a, In a l -> p a = false) -> filter p l = [].
Proof. induction l; simpl; intros H; auto. rewrite (H a) by auto. apply IHl; auto. Qed.
Lemma ss_left_spec f v : sortedQ f -> forall k, (k < length f)%nat ->
  ((k < ss_left f v)%nat <-> nth k f 0 < v).
Proof.
  unfold ss_left. induction f as [|a f IH]; simpl; intros Hs k Hk; [lia|].
  destruct Hs as [Ha Hs]. destruct (Qle_bool v a) eqn:E; simpl.
  - apply Qle_bool_iff in E.
    rewrite filter_all_false.
    2:{ intros b Hb. apply negb_false_iff. apply Qle_bool_iff. apply Qle_trans with a; auto. }
    simpl. split; [lia|]. intros H. exfalso. destruct k.
    + apply (Qlt_irrefl v). apply Qle_lt_trans with a; auto.
    + assert (a <= nth k f 0) by (apply Ha, nth_In; lia).
      apply (Qlt_irrefl v). apply Qle_lt_trans with (nth k f 0); auto. apply Qle_trans with a; auto.
  - assert (a < v). { apply Qnot_le_lt. intro H. apply Qle_bool_iff in H. congruence. }
    destruct k; [split; [auto|lia]|].
    rewrite <- (IH Hs k) by lia. lia.
Qed.
Lemma ss_right_spec f v : sortedQ f -> forall k, (k < length f)%nat ->
  ((k < ss_right f v)%nat <-> nth k f 0 <= v).
Proof.
  unfold ss_right. induction f as [|a f IH]; simpl; intros Hs k Hk; [lia|].
  destruct Hs as [Ha Hs]. destruct (Qle_bool a v) eqn:E; simpl.
  - apply Qle_bool_iff in E. destruct k; [split; [auto|lia]|].
    rewrite <- (IH Hs k) by lia. lia.
  - assert (v < a). { apply Qnot_le_lt. intro H. apply Qle_bool_iff in H. congruence. }
    rewrite filter_all_false.
    2:{ intros b Hb. destruct (Qle_bool b v) eqn:E2; auto. apply Qle_bool_iff in E2.
        exfalso. apply (Qlt_irrefl v). apply Qlt_le_trans with a; auto. apply Qle_trans with b; auto. }
    simpl. split; [lia|]. intros H0. exfalso. destruct k.
    + apply (Qlt_irrefl v). apply Qlt_le_trans with a; auto.
    + assert (a <= nth k f 0) by (apply Ha, nth_In; lia).
      apply (Qlt_irrefl v). apply Qlt_le_trans with a; auto. apply Qle_trans with (nth k f 0); auto.
Qed.

(* ------------------------------------------------------------------ segmentation *)
Definition cdiv (a b : nat) : nat := ((a + b - 1) / b)%nat.
Lemma cdiv_0 b : (0 < b)%nat -> cdiv 0 b = 0%nat.
Proof. intros H. unfold cdiv. apply Nat.div_small. lia. Qed.
Lemma cdiv_step a b : (0 < b)%nat -> (0 < a)%nat -> cdiv a b = S (cdiv (a - b) b).
Proof.
  intros Hb Ha. unfold cdiv. destruct (Nat.le_gt_cases a b) as [H|H].
  - replace (a - b)%nat with 0%nat by lia. rewrite (Nat.div_small (0 + b - 1)) by lia.
    replace (a + b - 1)%nat with (1 * b + (a - 1))%nat by lia.
    rewrite Nat.div_add_l by lia. rewrite Nat.div_small by lia. lia.
  - replace (a + b - 1)%nat with (1 * b + (a - b + b - 1))%nat by lia.
    rewrite Nat.div_add_l by lia. lia.
Qed.
Lemma pyrange_aux_spec step : (0 < step)%nat -> forall fuel cur stop, (stop - cur <= fuel)%nat ->
  pyrange_aux fuel cur stop step = map (fun q => (cur + q * step)%nat) (seq 0 (cdiv (stop - cur) step)).
Proof.
  intros Hs. induction fuel as [|fuel IH]; intros cur stop Hf; simpl.
  - replace (stop - cur)%nat with 0%nat by lia. rewrite cdiv_0 by lia. reflexivity.
  - destruct (cur <? stop)%nat eqn:E.
    + apply Nat.ltb_lt in E. rewrite (cdiv_step (stop - cur) step) by lia. simpl.
      f_equal; [lia|]. rewrite IH by lia. rewrite <- seq_shift, map_map.
      replace (stop - (cur + step))%nat with (stop - cur - step)%nat by lia.
      apply map_ext. intros q. lia.
    + apply Nat.ltb_ge in E. replace (stop - cur)%nat with 0%nat by lia. rewrite cdiv_0 by lia. reflexivity.
Qed.
Lemma pyrange_spec stop step : (0 < step)%nat ->
  pyrange stop step = map (fun q => (q * step)%nat) (seq 0 (cdiv stop step)).
Proof. intros H. unfold pyrange. rewrite pyrange_aux_spec by lia. rewrite Nat.sub_0_r. reflexivity. Qed.

(* the cache cuts the same segments as mlab *)
Lemma segments_agree n nfft ovl : (ovl < nfft)%nat -> cache_starts n nfft ovl = dense_starts n nfft ovl.
Proof. intros H. unfold cache_starts, dense_starts. rewrite pyrange_spec by lia. reflexivity. Qed.
Lemma starts_in_range n nfft ovl t : (ovl < nfft)%nat -> (nfft <= n)%nat ->
  In t (cache_starts n nfft ovl) -> (t + nfft <= n)%nat /\ exists q, t = (q * (nfft - ovl))%nat.
Proof.
  intros H Hn. unfold cache_starts. rewrite pyrange_spec by lia. rewrite in_map_iff.
  intros [q [E Hq]]. apply in_seq in Hq. split; [|exists q; auto]. subst t.
  unfold cdiv in Hq. destruct Hq as [_ Hq]. simpl in Hq.
  set (s := (nfft - ovl)%nat) in *. assert (0 < s)%nat by (unfold s; lia).
  assert (q * s <= n - nfft)%nat; [|lia].
  assert (S q <= (n - nfft + 1 + s - 1) / s)%nat by lia.
  assert (S q * s <= n - nfft + 1 + s - 1)%nat.
  { apply Nat.le_trans with (s * ((n - nfft + 1 + s - 1) / s))%nat.
    - rewrite Nat.mul_comm. apply Nat.mul_le_mono_l. lia.
    - apply Nat.mul_div_le. lia. }
  lia.
Qed.
Lemma starts_nonempty n nfft ovl : (ovl < nfft)%nat -> (nfft <= n)%nat -> (1 <= length (cache_starts n nfft ovl))%nat.
Proof.
  intros H Hn. unfold cache_starts, pyrange. destruct (n - nfft + 1)%nat eqn:E; [lia|]. simpl. lia.
Qed.
Lemma starts_count n nfft ovl : (ovl < nfft)%nat -> (nfft <= n)%nat ->
  length (cache_starts n nfft ovl) = ((n - nfft) / (nfft - ovl) + 1)%nat.
Proof.
  intros H Hn. unfold cache_starts. rewrite pyrange_spec by lia. rewrite map_length, seq_length.
  unfold cdiv. replace (n - nfft + 1 + (nfft - ovl) - 1)%nat with (1 * (nfft - ovl) + (n - nfft))%nat by lia.
  rewrite Nat.div_add_l by lia. lia.
Qed.
Lemma default_overlap_agree nfft : cache_default_overlap nfft = dense_default_overlap nfft.
Proof. reflexivity. Qed.
Lemma default_overlap_lt nfft : (0 < nfft)%nat -> (cache_default_overlap nfft < nfft)%nat.
Proof. intros H. unfold cache_default_overlap. apply Nat.div_lt; lia. Qed.

(* ------------------------------------------------------------------ list plumbing *)
Lemma nth_map_lt {A B} (f : A -> B) l s d d' : (s < length l)%nat -> nth s (map f l) d = f (nth s l d').
Proof. revert s; induction l; simpl; intros s H; [lia|]. destruct s; auto. apply IHl. lia. Qed.
Lemma at2_conj_rows B s k : at2 (conj_rows B) s k = cconj (at2 B s k).
Proof.
  unfold at2, conj_rows.
  change (@nil C) with (map cconj []) at 1. rewrite map_nth.
  change c0 with (cconj c0) at 1. rewrite map_nth. reflexivity.
Qed.
Lemma lookup_map {A} (F : Z -> A) chans c d : In c chans -> lookup c (map (fun c => (c, F c)) chans) d = F c.
Proof.
  induction chans as [|a l IH]; simpl; intros H; [tauto|].
  destruct (c =? a)%Z eqn:E; [apply Z.eqb_eq in E; subst; auto|].
  apply IH. destruct H; auto. subst. rewrite Z.eqb_refl in E. discriminate.
Qed.
Lemma lookup_conj (tbl : list (Z * list (list C))) c :
  lookup c (map (fun e => (fst e, conj_rows (snd e))) tbl) [] = conj_rows (lookup c tbl []).
Proof. induction tbl as [|[k v] t IH]; simpl; auto. destruct (c =? k)%Z; auto. Qed.
Lemma chans_of_in ij i j : In (i, j) ij -> In i (chans_of ij) /\ In j (chans_of ij).
Proof.
  intros H. unfold chans_of. rewrite !nodup_In, !in_flat_map.
  split; exists (i, j); simpl; auto.
Qed.

(* ------------------------------------------------------------------ the uniform form of both paths *)
Section Uniform.
Variable dft : list Q -> nat -> C.
Variables (wv : list Q) (nfft o : nat).
Hypothesis Ho : (o < nfft)%nat.

Local Notation Xs := (Cache.Xs dft wv nfft o).
Local Notation nwin := (Cache.nwin nfft o).
Local Notation U := (Cache.U dft wv nfft o).

Lemma windows_length x : length (windows_of wv x nfft o) = nwin (length x).
Proof. unfold windows_of, windows_at, Cache.nwin. rewrite map_length, zero_pad_length. reflexivity. Qed.
Lemma nwin_pos n : (1 <= nwin n)%nat.
Proof. unfold Cache.nwin. apply starts_nonempty; lia. Qed.
Lemma windows_dense x : windows_at dense_starts wv x nfft o = windows_of wv x nfft o.
Proof. unfold windows_of, windows_at. rewrite segments_agree by lia. reflexivity. Qed.

Lemma slices_length x lbi ubi : length (slices_of dft wv x nfft o lbi ubi) = nwin (length x).
Proof. unfold slices_of. rewrite map_length. apply windows_length. Qed.
Lemma at2_slices x lbi ubi s k : (s < nwin (length x))%nat -> (k < ubi - lbi)%nat ->
  at2 (slices_of dft wv x nfft o lbi ubi) s k = Xs x s (lbi + k).
Proof.
  intros Hs Hk. unfold at2, slices_of, Cache.Xs.
  rewrite (nth_map_lt _ _ _ _ []) by (rewrite windows_length; auto).
  rewrite (nth_map_lt _ _ _ _ 0%nat) by (rewrite seq_length; auto).
  rewrite seq_nth by auto. reflexivity.
Qed.
Lemma at2_mlab x s K : (s < nwin (length x))%nat -> (K < mlab_numfreqs nfft)%nat ->
  at2 (mlab_spectrum dft wv x nfft o) s K = Xs x s K.
Proof.
  intros Hs Hk. unfold at2, mlab_spectrum, Cache.Xs. rewrite windows_dense.
  rewrite (nth_map_lt _ _ _ _ []) by (rewrite windows_length; auto).
  rewrite (nth_map_lt _ _ _ _ 0%nat) by (rewrite seq_length; auto).
  rewrite seq_nth by auto. reflexivity.
Qed.
Lemma mlab_length x : length (mlab_spectrum dft wv x nfft o) = nwin (length x).
Proof. unfold mlab_spectrum. rewrite map_length, windows_dense. apply windows_length. Qed.

Lemma U_conj x y nw K : cconj (U x y nw K) =c= U y x nw K.
Proof.
  unfold Cache.U. transitivity (cscale (/ nq nw) (cconj (csumn (fun s => cmul (Xs x s K) (cconj (Xs y s K))) nw))).
  - cring.
  - rewrite csumn_conj. apply cscale_proper; [reflexivity|]. apply csumn_ext. intros; cring.
Qed.
Lemma im_cadd a b : im (cadd a b) = im a + im b. Proof. reflexivity. Qed.
Lemma im_cscale q a : im (cscale q a) = q * im a. Proof. reflexivity. Qed.
Lemma U_self_im x nw K : im (U x x nw K) == 0.
Proof.
  unfold Cache.U. assert (H : im (csumn (fun s => cmul (Xs x s K) (cconj (Xs x s K))) nw) == 0).
  { induction nw; cbn [csumn]; [reflexivity|]. rewrite im_cadd, IHnw.
    unfold cmul, cconj, re, im; simpl. ring. }
  rewrite im_cscale, H. ring.
Qed.

(* --- cache side: any cache whose tables for i, j and the first key hold these slices *)
Section CacheSide.
Variables (lbi ubi : nat) (n : nat).
Variable ch : cache.
Variables (i j : Z) (xi xj x0 : list Q).
Hypothesis Hli : length xi = n.
Hypothesis Hlj : length xj = n.
Hypothesis Hl0 : length x0 = n.
Hypothesis Hi : c_sl ch i = slices_of dft wv xi nfft o lbi ubi.
Hypothesis Hj : c_sl ch j = slices_of dft wv xj nfft o lbi ubi.
Hypothesis H0 : c_sl ch (c_first ch) = slices_of dft wv x0 nfft o lbi ubi.
Hypothesis Hc : match c_conj ch with
                | Some f => f i = conj_rows (c_sl ch i) /\ f j = conj_rows (c_sl ch j)
                | None => True end.

Lemma conj_sl_i : conj_sl ch i = conj_rows (c_sl ch i).
Proof. unfold conj_sl. destruct (c_conj ch); [apply Hc|reflexivity]. Qed.

Lemma prod_uniform (a b : list Q) k s : length a = n -> length b = n -> (s < nwin n)%nat -> (k < ubi - lbi)%nat ->
  prod_sl (slices_of dft wv a nfft o lbi ubi) (conj_rows (slices_of dft wv b nfft o lbi ubi)) s k
  = cmuld (Xs a s (lbi + k)) (cconj (Xs b s (lbi + k))).
Proof.
  intros Ha Hb Hs Hk. unfold prod_sl. rewrite at2_conj_rows, !at2_slices; auto; congruence.
Qed.
Lemma wmean_uniform (a b : list Q) k : length a = n -> length b = n -> (k < ubi - lbi)%nat ->
  wmean (nwin n) (fun s => prod_sl (slices_of dft wv a nfft o lbi ubi)
                                   (conj_rows (slices_of dft wv b nfft o lbi ubi)) s k)
  =c= U a b (nwin n) (lbi + k).
Proof.
  intros Ha Hb Hk. rewrite wmean_eq by apply nwin_pos. unfold Cache.U.
  apply cscale_proper; [reflexivity|]. apply csumn_ext. intros s Hs.
  rewrite prod_uniform; auto. apply cmuld_eq.
Qed.

(* all four branches of cache_to_coherency compute the same three numbers *)
Lemma coh_entry_uniform k : (k < ubi - lbi)%nat ->
  exists pxy pxx pyy, coh_entry ch i j k = CDivSqrt pxy pxx pyy /\
    pxy =c= cscale (/ c_nv ch) (U xi xj (nwin n) (lbi + k)) /\
    pxx =c= cscale (/ c_nv ch) (U xi xi (nwin n) (lbi + k)) /\
    pyy =c= cscale (/ c_nv ch) (U xj xj (nwin n) (lbi + k)).
Proof.
  intros Hk. unfold coh_entry. rewrite H0, slices_length, Hl0.
  assert (Ei : match c_conj ch with Some cj => cj i | None => conj_rows (c_sl ch i) end = conj_rows (c_sl ch i))
    by (destruct (c_conj ch); [apply Hc|reflexivity]).
  assert (Ej : match c_conj ch with Some cj => cj j | None => conj_rows (c_sl ch j) end = conj_rows (c_sl ch j))
    by (destruct (c_conj ch); [apply Hc|reflexivity]).
  pose proof (wmean_uniform xi xj k Hli Hlj Hk) as Wxy.
  pose proof (wmean_uniform xi xi k Hli Hli Hk) as Wxx.
  pose proof (wmean_uniform xj xj k Hlj Hlj Hk) as Wyy.
  unfold wmean in Wxy, Wxx, Wyy.
  destruct (1 <? nwin n)%nat.
  - assert (E : forall cj, match c_conj ch with Some f => f | None => cj end = match c_conj ch with Some f => f | None => cj end) by reflexivity.
    destruct (c_conj ch) as [f|]; unfold trip_mean;
      [destruct Hc as [Hci Hcj]; rewrite Hci, Hcj|]; rewrite Hi, Hj, !slices_length, Hli, Hlj;
      do 3 eexists; (split; [reflexivity|]); repeat split; apply cscale_proper; try reflexivity; assumption.
  - destruct (c_conj ch) as [f|]; unfold trip_one;
      [destruct Hc as [Hci Hcj]; rewrite Hci, Hcj|]; rewrite Hi, Hj;
      do 3 eexists; (split; [reflexivity|]); repeat split; apply cscale_proper; try reflexivity; assumption.
Qed.

Lemma psd_uniform k : (k < ubi - lbi)%nat ->
  cache_to_psd ch i k =c=
  cscale ((if existsb (Nat.eqb k) (c_unpaired ch) then 1 # 2 else 1) * / c_nv ch) (U xi xi (nwin n) (lbi + k)).
Proof.
  intros Hk. unfold cache_to_psd. rewrite conj_sl_i, Hi, slices_length, Hli.
  pose proof (wmean_uniform xi xi k Hli Hli Hk) as W. unfold wmean in W.
  destruct (existsb (Nat.eqb k) (c_unpaired ch));
    destruct (1 <? nwin n)%nat; rewrite W; cring.
Qed.

Lemma relphase_uniform k : (k < ubi - lbi)%nat ->
  match relphase_entry ch i j k with
  | PAngle z => nwin n = 1%nat /\ z = cmuld (Xs xi 0 (lbi + k)) (cconj (Xs xj 0 (lbi + k)))
  | PMeanAngle zs => (1 < nwin n)%nat /\
      zs = map (fun s => cmuld (Xs xi s (lbi + k)) (cconj (Xs xj s (lbi + k)))) (seq 0 (nwin n))
  | PZero => False
  end.
Proof.
  intros Hk. unfold relphase_entry. rewrite H0, slices_length, Hl0.
  assert (Ej : conj_sl ch j = conj_rows (c_sl ch j)).
  { unfold conj_sl. destruct (c_conj ch); [apply Hc|reflexivity]. }
  rewrite Ej, Hi, Hj, slices_length, Hli.
  pose proof (nwin_pos n). destruct (1 <? nwin n)%nat eqn:E.
  - apply Nat.ltb_lt in E. split; auto. apply map_ext_in. intros s Hs. apply in_seq in Hs.
    apply prod_uniform; auto; lia.
  - apply Nat.ltb_ge in E. split; [lia|]. apply prod_uniform; auto; lia.
Qed.
End CacheSide.

(* --- dense side *)
Lemma csd_uniform (x y : list Q) n fs sbf K : length x = n -> length y = n -> (K < mlab_numfreqs nfft)%nat ->
  mlab_csd_from (mlab_spectrum dft wv x nfft o) (mlab_spectrum dft wv y nfft o) (mlab_scale wv fs sbf) nfft K
  =c= cscale ((if mlab_doubled nfft K then 2 else 1) / mlab_scale wv fs sbf) (U y x (nwin n) K).
Proof.
  intros Hx Hy HK. unfold mlab_csd_from. rewrite mlab_length, Hx.
  apply cscale_proper; [reflexivity|].
  change (wmean (nwin n) (fun s => cmuld (cconj (at2 (mlab_spectrum dft wv x nfft o) s K))
                                        (at2 (mlab_spectrum dft wv y nfft o) s K)) =c= U y x (nwin n) K).
  rewrite wmean_eq by apply nwin_pos. unfold Cache.U. apply cscale_proper; [reflexivity|].
  apply csumn_ext. intros s Hs. rewrite !at2_mlab by (auto; congruence). rewrite cmuld_eq. cring.
Qed.
End Uniform.

(* ------------------------------------------------------------------ algebra of the symbolic values *)
Global Instance re_proper : Proper (ceq ==> Qeq) re.
Proof. intros a b [H _]; exact H. Qed.
Global Instance im_proper : Proper (ceq ==> Qeq) im.
Proof. intros a b [_ H]; exact H. Qed.

Global Instance coh_rel_proper : Proper (ceq ==> ceq ==> ceq ==> iff) coh_rel.
Proof.
  intros c c' Hc a a' Ha d d' Hd. unfold coh_rel. rewrite Hc, Ha, Hd. reflexivity.
Qed.

Lemma Qmul_pos_iff l x : 0 < l -> (0 < l * x <-> 0 < x).
Proof.
  intros Hl. split; intros H.
  - apply (Qmult_lt_l 0 x l Hl). setoid_replace (l * 0) with 0 by ring. exact H.
  - apply Qmult_lt_0_compat; auto.
Qed.
Lemma Qmul_nonneg_iff l x : 0 < l -> (0 <= l * x <-> 0 <= x).
Proof.
  intros Hl. split; intros H.
  - apply (Qmult_le_l 0 x l Hl). setoid_replace (l * 0) with 0 by ring. exact H.
  - apply Qmult_le_0_compat; auto. apply Qlt_le_weak; auto.
Qed.
Lemma Qmul_zero_iff l x : 0 < l -> (l * x == 0 <-> x == 0).
Proof.
  intros Hl. split; intros H.
  - apply (Qmult_inj_l x 0 l); [intro E; rewrite E in Hl; apply (Qlt_irrefl 0 Hl)|]. rewrite H. ring.
  - rewrite H. ring.
Qed.
Lemma Qmul_eq_iff l x y : 0 < l -> (l * x == l * y <-> x == y).
Proof. intros Hl. apply Qmult_inj_l. intro E; rewrite E in Hl; apply (Qlt_irrefl 0 Hl). Qed.

(* scaling numerator by l > 0 and radicand by l^2 does not change which numbers satisfy the relation *)
Lemma coh_rel_scale c a d l : 0 < l -> (coh_rel c (cscale l a) (cscale (l * l) d) <-> coh_rel c a d).
Proof.
  intros Hl. assert (Hll : 0 < l * l) by (apply Qmult_lt_0_compat; auto).
  destruct c as [x y], a as [ar ai], d as [dr di].
  unfold coh_rel, ceq, cmul, cconj, cscale, re, im; simpl.
  rewrite (Qmul_zero_iff (l * l) di Hll), (Qmul_pos_iff (l * l) dr Hll).
  setoid_replace ((x * x - y * y) * (l * l * dr) - (x * y + y * x) * (l * l * di))
    with ((l * l) * ((x * x - y * y) * dr - (x * y + y * x) * di)) by ring.
  setoid_replace (l * ar * (l * ar) - l * ai * (l * ai)) with ((l * l) * (ar * ar - ai * ai)) by ring.
  setoid_replace ((x * x - y * y) * (l * l * di) + (x * y + y * x) * (l * l * dr))
    with ((l * l) * ((x * x - y * y) * di + (x * y + y * x) * dr)) by ring.
  setoid_replace (l * ar * (l * ai) + l * ai * (l * ar)) with ((l * l) * (ar * ai + ai * ar)) by ring.
  rewrite !(Qmul_eq_iff (l * l)) by auto.
  setoid_replace (x * - (l * ai) + y * (l * ar)) with (l * (x * - ai + y * ar)) by ring.
  setoid_replace (x * (l * ar) - y * - (l * ai)) with (l * (x * ar - y * - ai)) by ring.
  rewrite (Qmul_zero_iff l _ Hl), (Qmul_nonneg_iff l _ Hl).
  reflexivity.
Qed.

Lemma scaled_is_coherency c v v' : cval_scaled v v' -> (is_coherency c v <-> is_coherency c v').
Proof.
  destruct v as [|a b d], v' as [|a' b' d']; cbn [cval_scaled is_coherency]; try tauto.
  intros [l [Hl [Ha Hd]]]. rewrite Ha, Hd. apply coh_rel_scale; auto.
Qed.
Lemma scaled_coherence v v' : cval_scaled v v' ->
  match v' with CDivSqrt _ b' c' => ~ re (cmul b' c') == 0 | CZero => True end ->
  coherence_of v == coherence_of v'.
Proof.
  destruct v as [|a b d], v' as [|a' b' d']; cbn [cval_scaled coherence_of]; try tauto; try reflexivity.
  intros [l [Hl [Ha Hd]]] Hn. rewrite Ha, Hd, cnorm2_scale.
  change (re (cscale (l * l) (cmul b' d'))) with ((l * l) * re (cmul b' d')).
  field. split; auto. intro E. rewrite E in Hl. apply (Qlt_irrefl 0 Hl).
Qed.

(* building a scaled pair from the uniform forms *)
Lemma scaled_build a b c a' b' c' u p q s r :
  0 < s -> 0 < r ->
  a =c= cscale s u -> b =c= cscale s p -> c =c= cscale s q ->
  a' =c= cscale r u -> cmul b' c' =c= cmul (cscale r p) (cscale r q) ->
  cval_scaled (CDivSqrt a b c) (CDivSqrt a' b' c').
Proof.
  intros Hs Hr Ha Hb Hc Ha' Hbc. cbn [cval_scaled]. exists (s / r).
  assert (Hr0 : ~ r == 0) by (intro E; rewrite E in Hr; apply (Qlt_irrefl 0 Hr)).
  split; [apply Qlt_shift_div_l; auto; ring_simplify; auto|].
  split.
  - rewrite Ha, Ha'. split; unfold cscale, re, im; simpl; field; auto.
  - rewrite Hb, Hc, Hbc. split; unfold cscale, cmul, re, im; simpl; field; auto.
Qed.


(* ------------------------------------------------------------------ which bins are halved / doubled *)
Ltac bools :=
  repeat match goal with
  | H : (_ <=? _)%nat = true |- _ => apply Nat.leb_le in H
  | H : (_ <=? _)%nat = false |- _ => apply Nat.leb_gt in H
  | H : (_ <? _)%nat = true |- _ => apply Nat.ltb_lt in H
  | H : (_ <? _)%nat = false |- _ => apply Nat.ltb_ge in H
  | H : (_ =? _)%nat = true |- _ => apply Nat.eqb_eq in H
  | H : (_ =? _)%nat = false |- _ => apply Nat.eqb_neq in H
  end.
Lemma unpaired_doubled nfft lbi ubi k : (0 < nfft)%nat -> (k < ubi - lbi)%nat -> (ubi <= mlab_numfreqs nfft)%nat ->
  existsb (Nat.eqb k) (unpaired_idx nfft lbi ubi) = negb (mlab_doubled nfft (lbi + k)).
Proof.
  intros Hn Hk Hu. unfold unpaired_idx, unpaired, mlab_doubled, mlab_numfreqs in *.
  rewrite <- Nat.negb_odd. destruct (Nat.odd nfft) eqn:Eo; cbn [negb filter].
  - destruct (lbi <=? 0)%nat eqn:E1; destruct (0 <? ubi)%nat eqn:E2; cbn [andb map existsb orb];
      destruct (1 <=? lbi + k)%nat eqn:E3; try destruct (k =? 0 - lbi)%nat eqn:E4; bools; simpl; try reflexivity; lia.
  - assert (Hh : (1 <= nfft / 2)%nat).
    { destruct nfft as [|[|m]]; [lia|discriminate|]. apply (Nat.div_le_lower_bound); lia. }
    set (h := (nfft / 2)%nat) in *.
    destruct (lbi <=? 0)%nat eqn:E1; destruct (0 <? ubi)%nat eqn:E2;
      destruct (lbi <=? h)%nat eqn:E5; destruct (h <? ubi)%nat eqn:E6; cbn [andb map existsb orb filter];
      destruct (1 <=? lbi + k)%nat eqn:E3; destruct (lbi + k <? h + 1 - 1)%nat eqn:E7;
      try destruct (k =? 0 - lbi)%nat eqn:E4; try destruct (k =? h - lbi)%nat eqn:E8;
      bools; simpl; try reflexivity; lia.
Qed.

Lemma norm_val_pos wv fs sbf : 0 < fs -> 0 < sumsq wv -> 0 < norm_val wv fs sbf.
Proof.
  intros Hfs Hw. unfold norm_val. destruct sbf.
  - apply Qmult_lt_0_compat; auto. apply Qlt_shift_div_l; [reflexivity|]. ring_simplify. auto.
  - apply Qlt_shift_div_l; [reflexivity|]. ring_simplify. auto.
Qed.

(* ------------------------------------------------------------------ cache_fft builds the tables *)
Section Top.
Variable dft : list Q -> nat -> C.
Variables (ts : list (list Q)) (n : nat) (wv : list Q) (nfft : nat) (ovl : option nat) (fs : Q).
Variables (sbf psm : bool) (lbi ubi : nat) (ij : list (Z * Z)).
Local Notation tsz := (Cache.tsz ts).
Local Notation oeff := (Cache.oeff nfft ovl).
Hypothesis Ho : (oeff < nfft)%nat.
Hypothesis Hlen : forall x, In x ts -> length x = n.
Hypothesis Hij : forall p, In p ij -> (0 <= fst p < Z.of_nat (length ts))%Z /\ (0 <= snd p < Z.of_nat (length ts))%Z.
Hypothesis Hfs : 0 < fs.
Hypothesis Hw : 0 < sumsq wv.
Hypothesis Hub : (ubi <= mlab_numfreqs nfft)%nat.

Let ch := cache_fft dft tsz ij wv nfft ovl fs sbf psm lbi ubi.

Lemma tsz_len c : In c (chans_of ij) -> length (tsz c) = n.
Proof.
  unfold chans_of. rewrite nodup_In, in_flat_map. intros [p [Hp Hc]].
  destruct (Hij p Hp) as [H1 H2]. apply Hlen. unfold Cache.tsz. apply nth_In.
  simpl in Hc. destruct Hc as [E|[E|[]]]; subst c; lia.
Qed.
Lemma ch_sl c : In c (chans_of ij) -> c_sl ch c = slices_of dft wv (tsz c) nfft oeff lbi ubi.
Proof. intros H. unfold ch, cache_fft; simpl. fold oeff. apply (lookup_map (fun c => slices_of dft wv (tsz c) nfft oeff lbi ubi)); auto. Qed.
Lemma ch_conj : match c_conj ch with
                | Some f => psm = true /\ forall c, f c = conj_rows (c_sl ch c)
                | None => psm = false end.
Proof. unfold ch, cache_fft; simpl. destruct psm; auto. split; auto. intros c. apply lookup_conj. Qed.
Lemma ch_first : ij <> [] -> In (c_first ch) (chans_of ij).
Proof.
  intros H. unfold ch, cache_fft; simpl. destruct ij as [|[i j] l] eqn:E; [congruence|].
  destruct (chans_of ((i, j) :: l)) eqn:E2.
  - exfalso. assert (In i (chans_of ((i, j) :: l))) by (apply (chans_of_in _ i j); left; auto). rewrite E2 in H0. auto.
  - simpl. auto.
Qed.
Lemma ch_nv : c_nv ch = norm_val wv fs sbf. Proof. reflexivity. Qed.
Lemma ch_unpaired : c_unpaired ch = unpaired_idx nfft lbi ubi. Proof. reflexivity. Qed.
Lemma nv_pos : 0 < norm_val wv fs sbf.
Proof.
  unfold norm_val. pose proof Hfs. pose proof Hw. destruct sbf.
  - apply Qmult_lt_0_compat; auto. apply Qlt_shift_div_l; [reflexivity|]. ring_simplify. auto.
  - apply Qlt_shift_div_l; [reflexivity|]. ring_simplify. auto.
Qed.

Variables (i j : nat).
Hypothesis Hin : In (Z.of_nat i, Z.of_nat j) ij.
Let xi := nth i ts [].
Let xj := nth j ts [].

Lemma idx_ok : (i < length ts)%nat /\ (j < length ts)%nat.
Proof. destruct (Hij _ Hin) as [H1 H2]; simpl in *. lia. Qed.
Lemma tsz_i : tsz (Z.of_nat i) = xi. Proof. unfold Cache.tsz. rewrite Nat2Z.id. reflexivity. Qed.
Lemma tsz_j : tsz (Z.of_nat j) = xj. Proof. unfold Cache.tsz. rewrite Nat2Z.id. reflexivity. Qed.
Lemma len_i : length xi = n. Proof. apply Hlen, nth_In, idx_ok. Qed.
Lemma len_j : length xj = n. Proof. apply Hlen, nth_In, idx_ok. Qed.

(* the cache entry in uniform form, for either memory setting and any number of windows *)
Lemma cache_entry_uniform k : (k < ubi - lbi)%nat ->
  exists pxy pxx pyy, coh_entry ch (Z.of_nat i) (Z.of_nat j) k = CDivSqrt pxy pxx pyy /\
    pxy =c= cscale (/ norm_val wv fs sbf) (U dft wv nfft oeff xi xj (nwin nfft oeff n) (lbi + k)) /\
    pxx =c= cscale (/ norm_val wv fs sbf) (U dft wv nfft oeff xi xi (nwin nfft oeff n) (lbi + k)) /\
    pyy =c= cscale (/ norm_val wv fs sbf) (U dft wv nfft oeff xj xj (nwin nfft oeff n) (lbi + k)).
Proof.
  intros Hk. destruct (chans_of_in _ _ _ Hin) as [Ci Cj].
  assert (Hne : ij <> []) by (intro E; rewrite E in Hin; inversion Hin).
  pose proof (ch_first Hne) as Cf.
  apply (coh_entry_uniform dft wv nfft oeff Ho lbi ubi n ch (Z.of_nat i) (Z.of_nat j) xi xj (tsz (c_first ch)));
    auto using len_i, len_j, tsz_len.
  - rewrite ch_sl, tsz_i; auto.
  - rewrite ch_sl, tsz_j; auto.
  - apply ch_sl; auto.
  - pose proof ch_conj as H. destruct (c_conj ch); auto. destruct H as [_ H]. split; apply H.
Qed.

(* dense side in uniform form *)
Definition rdense (K : nat) : Q := (if mlab_doubled nfft K then 2 else 1) / mlab_scale wv fs true.
Lemma rdense_pos K : 0 < rdense K.
Proof.
  unfold rdense, mlab_scale. apply Qlt_shift_div_l; [apply Qmult_lt_0_compat; auto|].
  ring_simplify. destruct (mlab_doubled nfft K); reflexivity.
Qed.
Lemma dense_fxy_uniform a b K : (a <= b)%nat -> (b < length ts)%nat -> (K < mlab_numfreqs nfft)%nat ->
  dense_fxy dft ts wv nfft ovl fs a b K =c=
  cscale (rdense K) (U dft wv nfft oeff (nth a ts []) (nth b ts []) (nwin nfft oeff n) K).
Proof.
  intros Hab Hb HK. unfold dense_fxy, dense_fxy_tbl, dense_tbl.
  change (match ovl with Some o => o | None => dense_default_overlap nfft end) with oeff.
  apply Nat.leb_le in Hab. rewrite Hab. apply Nat.leb_le in Hab.
  rewrite !(nth_map_lt _ _ _ _ []) by lia.
  apply (csd_uniform dft wv nfft oeff Ho (nth b ts []) (nth a ts []) n fs true K); auto;
    apply Hlen, nth_In; lia.
Qed.

Lemma cconj_cscale q a : cconj (cscale q a) =c= cscale q (cconj a).
Proof. cring. Qed.

(* MAIN: the cached coherency entry and the dense one are the same number (common positive factor) *)
Theorem cache_coherency_scaled k : (k < ubi - lbi)%nat ->
  cval_scaled (coh_entry ch (Z.of_nat i) (Z.of_nat j) k) (dense_coh dft ts wv nfft ovl fs i j (lbi + k)).
Proof.
  intros Hk. destruct (cache_entry_uniform k Hk) as (pxy & pxx & pyy & E & Hxy & Hxx & Hyy). rewrite E.
  assert (HK : (lbi + k < mlab_numfreqs nfft)%nat) by lia.
  destruct idx_ok as [Hi Hj].
  assert (Hs : 0 < / norm_val wv fs sbf) by (apply Qinv_lt_0_compat, nv_pos).
  pose proof (rdense_pos (lbi + k)) as Hr.
  unfold dense_coh, dense_coh_of. destruct (i <=? j)%nat eqn:Eij.
  - apply Nat.leb_le in Eij.
    apply (scaled_build _ _ _ _ _ _ _ _ _ _ _ Hs Hr Hxy Hxx Hyy).
    + apply dense_fxy_uniform; auto.
    + rewrite (dense_fxy_uniform i i), (dense_fxy_uniform j j) by auto. reflexivity.
  - apply Nat.leb_gt in Eij. cbn [cval_conj].
    apply (scaled_build _ _ _ _ _ _ _ _ _ _ _ Hs Hr Hxy Hxx Hyy).
    + rewrite (dense_fxy_uniform j i) by (auto; lia). rewrite cconj_cscale, U_conj. reflexivity.
    + rewrite (dense_fxy_uniform i i), (dense_fxy_uniform j j) by auto.
      rewrite !cconj_cscale, !U_conj. apply cmul_comm.
Qed.

Theorem cache_coherency_eq_dense k c : (k < ubi - lbi)%nat ->
  (is_coherency c (coh_entry ch (Z.of_nat i) (Z.of_nat j) k) <->
   is_coherency c (dense_coh dft ts wv nfft ovl fs i j (lbi + k))).
Proof. intros Hk. apply scaled_is_coherency, cache_coherency_scaled; auto. Qed.

Theorem cache_coherence_eq_dense k : (k < ubi - lbi)%nat ->
  ~ radicand (dense_coh dft ts wv nfft ovl fs i j (lbi + k)) == 0 ->
  coherence_of (coh_entry ch (Z.of_nat i) (Z.of_nat j) k) ==
  coherence_of (dense_coh dft ts wv nfft ovl fs i j (lbi + k)).
Proof.
  intros Hk Hn. apply scaled_coherence; [apply cache_coherency_scaled; auto|].
  destruct (dense_coh dft ts wv nfft ovl fs i j (lbi + k)); auto.
Qed.

(* power spectrum: equal to the dense one exactly when the cache was built with scale_by_freq *)
Theorem cache_psd_eq_dense k : sbf = true -> (0 < nfft)%nat -> (k < ubi - lbi)%nat ->
  cache_to_psd ch (Z.of_nat i) k =c= dense_fxy dft ts wv nfft ovl fs i i (lbi + k).
Proof.
  intros Hsbf Hn Hk. destruct (chans_of_in _ _ _ Hin) as [Ci Cj].
  assert (Hne : ij <> []) by (intro E; rewrite E in Hin; inversion Hin).
  pose proof (ch_first Hne) as Cf. destruct idx_ok as [Hi Hj].
  assert (Hc : match c_conj ch with
               | Some f => f (Z.of_nat i) = conj_rows (c_sl ch (Z.of_nat i)) /\ f (Z.of_nat i) = conj_rows (c_sl ch (Z.of_nat i))
               | None => True end).
  { pose proof ch_conj as H. destruct (c_conj ch); auto. destruct H as [_ H]. split; apply H. }
  assert (Hsl : c_sl ch (Z.of_nat i) = slices_of dft wv xi nfft oeff lbi ubi) by (rewrite ch_sl, tsz_i; auto).
  rewrite (psd_uniform dft wv nfft oeff Ho lbi ubi n ch (Z.of_nat i) (Z.of_nat i) xi len_i Hsl Hc k Hk).
  rewrite dense_fxy_uniform by (auto; lia). fold xi.
  apply cscale_proper; [|reflexivity].
  rewrite ch_unpaired, ch_nv, unpaired_doubled by auto.
  unfold rdense, mlab_scale, norm_val. rewrite Hsbf.
  assert (~ fs == 0) by (intro E; rewrite E in Hfs; apply (Qlt_irrefl 0 Hfs)).
  assert (~ sumsq wv == 0) by (intro E; rewrite E in Hw; apply (Qlt_irrefl 0 Hw)).
  destruct (mlab_doubled nfft (lbi + k)); simpl negb; cbv iota; field; auto.
Qed.

(* relative phase, single window: the number whose angle the cache takes is a positive multiple of the
   dense cross-spectrum *)
Theorem relphase_single_window k : (k < ubi - lbi)%nat -> (i <= j)%nat -> nwin nfft oeff n = 1%nat ->
  exists z l, relphase_entry ch (Z.of_nat i) (Z.of_nat j) k = PAngle z /\ 0 < l /\
    z =c= cscale l (dense_fxy dft ts wv nfft ovl fs i j (lbi + k)).
Proof.
  intros Hk Hle H1. destruct (chans_of_in _ _ _ Hin) as [Ci Cj].
  assert (Hne : ij <> []) by (intro E; rewrite E in Hin; inversion Hin).
  pose proof (ch_first Hne) as Cf. destruct idx_ok as [Hi Hj].
  assert (Hc : match c_conj ch with
               | Some f => f (Z.of_nat i) = conj_rows (c_sl ch (Z.of_nat i)) /\ f (Z.of_nat j) = conj_rows (c_sl ch (Z.of_nat j))
               | None => True end).
  { pose proof ch_conj as H. destruct (c_conj ch); auto. destruct H as [_ H]. split; apply H. }
  assert (Hsi : c_sl ch (Z.of_nat i) = slices_of dft wv xi nfft oeff lbi ubi) by (rewrite ch_sl, tsz_i; auto).
  assert (Hsj : c_sl ch (Z.of_nat j) = slices_of dft wv xj nfft oeff lbi ubi) by (rewrite ch_sl, tsz_j; auto).
  pose proof (relphase_uniform dft wv nfft oeff Ho lbi ubi n ch (Z.of_nat i) (Z.of_nat j) xi xj (tsz (c_first ch))
                len_i len_j (tsz_len _ Cf) Hsi Hsj (ch_sl _ Cf) Hc k Hk) as R.
  destruct (relphase_entry ch (Z.of_nat i) (Z.of_nat j) k) as [|z|zs]; [tauto| |lia].
  destruct R as [_ Ez]. pose proof (rdense_pos (lbi + k)) as Hr.
  exists z, (/ rdense (lbi + k)). split; [reflexivity|]. split; [apply Qinv_lt_0_compat; auto|].
  rewrite dense_fxy_uniform by (auto; lia). fold xi xj. rewrite H1. subst z. rewrite cmuld_eq. unfold Cache.U. cbn [csumn].
  assert (~ rdense (lbi + k) == 0) by (intro E; rewrite E in Hr; apply (Qlt_irrefl 0 Hr)).
  split; unfold cscale, cadd, c0, cmul, cconj, nq, re, im; simpl; field; auto.
Qed.
End Top.

(* ------------------------------------------------------------------ cache_to_coherency: the array *)
Lemma wrap_nonneg n t : wrap n (Z.of_nat t) = t.
Proof. unfold wrap. destruct (Z.of_nat t <? 0)%Z eqn:E; [apply Z.ltb_lt in E; lia|apply Nat2Z.id]. Qed.

(* a cell of the result is CZero unless some listed pair addresses it; then it is that pair's entry
   (all pairs addressing one cell are the same pair when indices are non-negative) *)
Lemma fold_cells ch (ij : list (Z * Z)) ci cj r c k acc :
  (forall p, In p ij -> (0 <= fst p)%Z /\ (0 <= snd p)%Z) ->
  fold_left (fun acc p => if ((wrap ci (fst p) =? r) && (wrap cj (snd p) =? c))%nat
                          then coh_entry ch (fst p) (snd p) k else acc) ij acc =
  if existsb (fun p => (Z.eqb (fst p) (Z.of_nat r) && Z.eqb (snd p) (Z.of_nat c))%bool) ij
  then coh_entry ch (Z.of_nat r) (Z.of_nat c) k else acc.
Proof.
  revert acc. induction ij as [|[a b] l IH]; intros acc H; simpl; [reflexivity|].
  destruct (H (a, b) (or_introl eq_refl)) as [Ha Hb]. simpl in Ha, Hb.
  rewrite IH by (intros p Hp; apply H; right; auto).
  assert (Ea : wrap ci a = Z.to_nat a) by (unfold wrap; destruct (a <? 0)%Z eqn:E; [apply Z.ltb_lt in E; lia|reflexivity]).
  assert (Eb : wrap cj b = Z.to_nat b) by (unfold wrap; destruct (b <? 0)%Z eqn:E; [apply Z.ltb_lt in E; lia|reflexivity]).
  rewrite Ea, Eb.
  assert (Q1 : (Z.to_nat a =? r)%nat = (a =? Z.of_nat r)%Z).
  { destruct (Z.to_nat a =? r)%nat eqn:E1; destruct (a =? Z.of_nat r)%Z eqn:E3; auto.
    - apply Nat.eqb_eq in E1. apply Z.eqb_neq in E3. lia.
    - apply Nat.eqb_neq in E1. apply Z.eqb_eq in E3. lia. }
  assert (Q2 : (Z.to_nat b =? c)%nat = (b =? Z.of_nat c)%Z).
  { destruct (Z.to_nat b =? c)%nat eqn:E1; destruct (b =? Z.of_nat c)%Z eqn:E3; auto.
    - apply Nat.eqb_eq in E1. apply Z.eqb_neq in E3. lia.
    - apply Nat.eqb_neq in E1. apply Z.eqb_eq in E3. lia. }
  rewrite Q1, Q2.
  destruct ((a =? Z.of_nat r)%Z && (b =? Z.of_nat c)%Z) eqn:E; simpl; [|reflexivity].
  apply andb_prop in E. destruct E as [E1 E2]. apply Z.eqb_eq in E1, E2. subst a b.
  destruct (existsb _ l); reflexivity.
Qed.
Lemma cache_to_coherency_cell ch ij r c k :
  (forall p, In p ij -> (0 <= fst p)%Z /\ (0 <= snd p)%Z) ->
  cache_to_coherency ch ij r c k =
  if existsb (fun p => (Z.eqb (fst p) (Z.of_nat r) && Z.eqb (snd p) (Z.of_nat c))%bool) ij
  then coh_entry ch (Z.of_nat r) (Z.of_nat c) k else CZero.
Proof.
  intros H. unfold cache_to_coherency. destruct (coh_shape ch ij) as [[ci cj] nf]. apply fold_cells; auto.
Qed.
Lemma cache_to_coherency_listed ch ij i j k :
  (forall p, In p ij -> (0 <= fst p)%Z /\ (0 <= snd p)%Z) -> In (Z.of_nat i, Z.of_nat j) ij ->
  cache_to_coherency ch ij i j k = coh_entry ch (Z.of_nat i) (Z.of_nat j) k.
Proof.
  intros H Hin. rewrite cache_to_coherency_cell by auto.
  replace (existsb _ ij) with true; auto. symmetry. apply existsb_exists.
  exists (Z.of_nat i, Z.of_nat j). split; auto. simpl. rewrite !Z.eqb_refl. reflexivity.
Qed.
Lemma cache_to_coherency_unlisted ch ij i j k :
  (forall p, In p ij -> (0 <= fst p)%Z /\ (0 <= snd p)%Z) -> ~ In (Z.of_nat i, Z.of_nat j) ij ->
  cache_to_coherency ch ij i j k = CZero.
Proof.
  intros H Hin. rewrite cache_to_coherency_cell by auto.
  replace (existsb _ ij) with false; auto. symmetry. apply not_true_is_false. intro E.
  apply existsb_exists in E. destruct E as [[a b] [Hp E]]. simpl in E.
  apply andb_prop in E. destruct E as [E1 E2]. apply Z.eqb_eq in E1, E2. subst. auto.
Qed.

(* ------------------------------------------------------------------ the seed analyzer *)
Section SeedP.
Variable dft : list Q -> nat -> C.
Variables (seeds targets : list (list Q)) (n : nat) (wv : list Q) (nfft : nat) (ovl : option nat) (fs : Q).
Variables (sbf psm : bool) (lbi ubi : nat).
Let o := Cache.oeff nfft ovl.
Hypothesis Ho : (o < nfft)%nat.
Hypothesis Hlen : forall x, In x (seeds ++ targets) -> length x = n.
Hypothesis Hfs : 0 < fs.
Hypothesis Hw : 0 < sumsq wv.
Hypothesis Hub : (ubi <= mlab_numfreqs nfft)%nat.
Let tz (c : Z) : list Q := nth (Z.to_nat c) targets [].
Let nt := length targets.

Lemma seed_pairs_fold ch t k : (t < nt)%nat ->
  cache_to_coherency ch (seed_pairs nt) 0 t k = coh_entry ch (-1) (Z.of_nat t) k.
Proof.
  intros Ht. unfold cache_to_coherency. destruct (coh_shape ch (seed_pairs nt)) as [[ci cj] nf] eqn:Es.
  assert (Eci : ci = 1%nat).
  { unfold coh_shape in Es. inversion Es. unfold seed_pairs. rewrite map_map. simpl.
    assert (Z : forall l, l <> [] -> zmax_list (map (fun _ : nat => (-1)%Z) l) = (-1)%Z).
    { intros l Hl. unfold zmax_list. destruct l; [congruence|]. simpl. clear.
      induction l; simpl; lia. }
    rewrite Z; [reflexivity|]. intro E. apply (f_equal (@length nat)) in E. rewrite seq_length in E. simpl in E. lia. }
  subst ci. unfold seed_pairs.
  assert (G : forall l acc, NoDup l ->
     fold_left (fun acc p => if ((wrap 1 (fst p) =? 0) && (wrap cj (snd p) =? t))%nat
                             then coh_entry ch (fst p) (snd p) k else acc)
               (map (fun t0 => ((-1)%Z, Z.of_nat t0)) l) acc =
     if existsb (Nat.eqb t) l then coh_entry ch (-1) (Z.of_nat t) k else acc).
  { induction l as [|a l IH]; intros acc Hn; simpl; [reflexivity|]. inversion Hn; subst.
    rewrite IH by auto. rewrite wrap_nonneg. change (wrap 1 (-1)) with 0%nat. simpl.
    destruct (a =? t)%nat eqn:E; destruct (t =? a)%nat eqn:E'; bools; try lia; simpl.
    - subst a. destruct (existsb (Nat.eqb t) l); reflexivity.
    - reflexivity. }
  rewrite G by apply seq_NoDup.
  replace (existsb (Nat.eqb t) (seq 0 nt)) with true; auto.
  symmetry. apply existsb_exists. exists t. split; [apply in_seq; lia|apply Nat.eqb_refl].
Qed.

Lemma diag_chans c : In c (chans_of (diag_pairs nt)) -> exists t, (t < nt)%nat /\ c = Z.of_nat t.
Proof.
  unfold chans_of, diag_pairs. rewrite nodup_In, in_flat_map. intros [p [Hp Hc]].
  apply in_map_iff in Hp. destruct Hp as [t [E Ht]]. apply in_seq in Ht. subst p. simpl in Hc.
  exists t. split; [lia|]. destruct Hc as [E|[E|[]]]; auto.
Qed.
Lemma diag_in t : (t < nt)%nat -> In (Z.of_nat t) (chans_of (diag_pairs nt)).
Proof.
  intros Ht. apply (chans_of_in _ (Z.of_nat t) (Z.of_nat t)). unfold diag_pairs. apply in_map_iff.
  exists t. split; auto. apply in_seq. lia.
Qed.

Theorem seed_rows_scaled s t k : (s < length seeds)%nat -> (t < nt)%nat -> (k < ubi - lbi)%nat ->
  cval_scaled (seed_coherency dft tz nt (nth s seeds []) wv nfft ovl fs sbf psm lbi ubi t k)
              (dense_coh dft (seeds ++ targets) wv nfft ovl fs s (length seeds + t) (lbi + k)).
Proof.
  intros Hs Ht Hk. unfold seed_coherency, seed_row, target_cache. rewrite seed_pairs_fold by auto.
  set (tc := cache_fft dft tz (diag_pairs nt) wv nfft ovl fs sbf psm lbi ubi).
  set (sd := nth s seeds []).
  set (sc := cache_fft dft (fun _ => sd) [(0%Z, 0%Z)] wv nfft ovl fs sbf psm lbi ubi).
  set (ch := seed_inject tc sc).
  assert (Lsd : length sd = n) by (apply Hlen, in_or_app; left; apply nth_In; auto).
  assert (Ltg : forall t', (t' < nt)%nat -> length (nth t' targets []) = n)
    by (intros; apply Hlen, in_or_app; right; apply nth_In; auto).
  (* tables of the injected cache *)
  assert (Ssd : c_sl ch (-1) = slices_of dft wv sd nfft o lbi ubi).
  { unfold ch, seed_inject; simpl. unfold o, Cache.oeff. reflexivity. }
  assert (Stg : forall t', (t' < nt)%nat -> c_sl ch (Z.of_nat t') = slices_of dft wv (nth t' targets []) nfft o lbi ubi).
  { intros t' Ht'. unfold ch, seed_inject; simpl. destruct (Z.of_nat t' =? -1)%Z eqn:E; [apply Z.eqb_eq in E; lia|].
    unfold o, Cache.oeff. rewrite (lookup_map (fun c => slices_of dft wv (tz c) nfft _ lbi ubi)) by (apply diag_in; auto).
    unfold tz. rewrite Nat2Z.id. reflexivity. }
  assert (Cf : exists t0, (t0 < nt)%nat /\ c_first ch = Z.of_nat t0).
  { apply diag_chans. unfold ch, seed_inject, tc, cache_fft; simpl.
    destruct (chans_of (diag_pairs nt)) eqn:E; simpl; auto.
    exfalso. pose proof (diag_in t Ht) as H. rewrite E in H. auto. }
  destruct Cf as [t0 [Ht0 Ef]].
  assert (Hc : match c_conj ch with
               | Some f => f (-1)%Z = conj_rows (c_sl ch (-1)) /\ f (Z.of_nat t) = conj_rows (c_sl ch (Z.of_nat t))
               | None => True end).
  { unfold ch, seed_inject, tc, sc, cache_fft; simpl. destruct psm; simpl; auto. split.
    - first [reflexivity | apply lookup_conj].
    - destruct (Z.of_nat t =? -1)%Z eqn:E; [apply Z.eqb_eq in E; lia|]. first [reflexivity | apply lookup_conj]. }
  destruct (coh_entry_uniform dft wv nfft o Ho lbi ubi n ch (-1) (Z.of_nat t) sd (nth t targets []) (nth t0 targets [])
              Lsd (Ltg t Ht) (Ltg t0 Ht0) Ssd (Stg t Ht) ltac:(rewrite Ef; apply Stg; auto) Hc k Hk)
    as (pxy & pxx & pyy & E & Hxy & Hxx & Hyy).
  rewrite E.
  assert (Hnv : c_nv ch = norm_val wv fs sbf) by reflexivity. rewrite Hnv in *.
  assert (HK : (lbi + k < mlab_numfreqs nfft)%nat) by lia.
  assert (Hsp : 0 < / norm_val wv fs sbf) by (apply Qinv_lt_0_compat; apply norm_val_pos; assumption).
  pose proof (rdense_pos wv nfft fs Hfs Hw (lbi + k)) as Hr.
  unfold dense_coh, dense_coh_of. replace (s <=? length seeds + t)%nat with true by (symmetry; apply Nat.leb_le; lia).
  assert (Es : nth s (seeds ++ targets) [] = sd) by (apply app_nth1; auto).
  assert (Et : nth (length seeds + t) (seeds ++ targets) [] = nth t targets [])
    by (rewrite app_nth2 by lia; f_equal; lia).
  assert (Ll : (length seeds + t < length (seeds ++ targets))%nat) by (rewrite app_length; fold nt; lia).
  apply (scaled_build _ _ _ _ _ _ _ _ _ _ _ Hsp Hr Hxy Hxx Hyy).
  - rewrite (dense_fxy_uniform dft (seeds ++ targets) n wv nfft ovl fs ubi Ho Hlen Hub) by (auto; lia).
    rewrite Es, Et. reflexivity.
  - rewrite !(dense_fxy_uniform dft (seeds ++ targets) n wv nfft ovl fs ubi Ho Hlen Hub) by (auto; lia).
    rewrite Es, Et. reflexivity.
Qed.
End SeedP.

(* ------------------------------------------------------------------ band, restated on indices *)
Lemma band_indices_spec f lb ub k : sortedQ f -> (k < length f)%nat ->
  let (lbi, ubi) := get_bounds f lb (Some ub) in
  ((lbi <= k < ubi)%nat <-> lb <= nth k f 0 /\ nth k f 0 <= ub).
Proof.
  intros Hs Hk. unfold get_bounds.
  pose proof (ss_left_spec f lb Hs k Hk) as L. pose proof (ss_right_spec f ub Hs k Hk) as R.
  split.
  - intros [H1 H2]. split; [|apply R; auto].
    apply Qnot_lt_le. intro H. apply L in H. lia.
  - intros [H1 H2]. split; [|apply R; auto].
    destruct (Nat.le_gt_cases (ss_left f lb) k); auto. apply L in H.
    exfalso. apply (Qlt_irrefl lb). apply Qle_lt_trans with (nth k f 0); auto.
Qed.
Lemma band_indices_open f lb k : sortedQ f -> (k < length f)%nat ->
  let (lbi, ubi) := get_bounds f lb None in
  ((lbi <= k < ubi)%nat <-> lb <= nth k f 0).
Proof.
  intros Hs Hk. unfold get_bounds. pose proof (ss_left_spec f lb Hs k Hk) as L.
  split.
  - intros [H1 H2]. apply Qnot_lt_le. intro H. apply L in H. lia.
  - intros H1. split; auto. destruct (Nat.le_gt_cases (ss_left f lb) k); auto. apply L in H.
    exfalso. apply (Qlt_irrefl lb). apply Qle_lt_trans with (nth k f 0); auto.
Qed.

(* ------------------------------------------------------------------ witnesses of what does NOT hold *)
Lemma ceqb_false a b : ceqb a b = false -> ~ a =c= b.
Proof.
  unfold ceqb. intros H [H1 H2]. apply Qeq_bool_iff in H1. apply Qeq_bool_iff in H2. rewrite H1, H2 in H. discriminate.
Qed.
(* any function may stand for the DFT in the model; this one makes the numbers easy to read *)
Definition toy_dft (v : list Q) (k : nat) : C := (nth 0 v 0, nth 1 v 0).

Definition w_psd_cache : C :=
  cache_to_psd (cache_fft toy_dft (tsz [[1; 1]]) [(0%Z, 0%Z)] [1; 1] 2 (Some 0%nat) 2 false false 0 2) 0%Z 0.
Definition w_psd_dense : C := dense_fxy toy_dft [[1; 1]] [1; 1] 2 (Some 0%nat) 2 0 0 0.
Lemma w_psd_differ : ceqb w_psd_cache w_psd_dense = false.
Proof. vm_compute. reflexivity. Qed.
Lemma w_psd_values : ceqb w_psd_cache (1, 0) = true /\ ceqb w_psd_dense (1 # 2, 0) = true.
Proof. split; vm_compute; reflexivity. Qed.

Definition w_rp_ts : list (list Q) := [[1; 0; 0; 10]; [1; 0; 10; 0]].
Definition w_rp_cache : cache :=
  cache_fft toy_dft (tsz w_rp_ts) [(0%Z, 1%Z)] [1; 1] 2 (Some 0%nat) 1 true false 0 2.
Lemma w_rp_entry : relphase_entry w_rp_cache 0%Z 1%Z 0 = PMeanAngle [cmul (1, 0) (cconj (1, 0)); cmul (0, 10) (cconj (10, 0))].
Proof. vm_compute. reflexivity. Qed.
Lemma w_rp_dense : ceqb (dense_fxy toy_dft w_rp_ts [1; 1] 2 (Some 0%nat) 1 0 1 0) (1 # 4, 25) = true.
Proof. vm_compute. reflexivity. Qed.

Lemma w_sumsq11 : 0 < sumsq [1; 1]. Proof. vm_compute. reflexivity. Qed.
Lemma w_numfreqs2 : (2 <= mlab_numfreqs 2)%nat. Proof. apply Nat.leb_le. reflexivity. Qed.
Lemma psd_noscale_refuted :
  exists dft (ts : list (list Q)) wv nfft ovl fs psm lbi ubi (ij : list (Z * Z)) i k,
    (oeff nfft ovl < nfft)%nat /\ 0 < fs /\ 0 < sumsq wv /\ (ubi <= mlab_numfreqs nfft)%nat /\
    In (Z.of_nat i, Z.of_nat i) ij /\ (k < ubi - lbi)%nat /\
    ~ cache_to_psd (cache_fft dft (tsz ts) ij wv nfft ovl fs false psm lbi ubi) (Z.of_nat i) k
      =c= dense_fxy dft ts wv nfft ovl fs i i (lbi + k).
Proof.
  exists toy_dft, [[1; 1]], [1; 1], 2%nat, (Some 0%nat), 2, false, 0%nat, 2%nat, [(0%Z, 0%Z)], 0%nat, 0%nat.
  split; [apply Nat.ltb_lt; reflexivity|]. split; [reflexivity|]. split; [exact w_sumsq11|].
  split; [exact w_numfreqs2|]. split; [left; reflexivity|]. split; [apply Nat.ltb_lt; reflexivity|].
  exact (ceqb_false _ _ w_psd_differ).
Qed.

Lemma Qeq_bool_false x y : Qeq_bool x y = false -> ~ x == y.
Proof. intros H E. apply Qeq_bool_iff in E. congruence. Qed.
Lemma w_rp_dense_dir : Qeq_bool (re (1 # 4, 25)) (im ((1 # 4, 25) : C)) = false.
Proof. reflexivity. Qed.
Lemma relphase_multiwindow_refuted :
  exists dft (ts : list (list Q)) wv nfft ovl fs sbf psm lbi ubi (ij : list (Z * Z)) i j k z0 z1 d,
    relphase_entry (cache_fft dft (tsz ts) ij wv nfft ovl fs sbf psm lbi ubi) (Z.of_nat i) (Z.of_nat j) k
      = PMeanAngle [z0; z1] /\
    (im z0 == 0 /\ 0 < re z0) /\ (re z1 == 0 /\ 0 < im z1) /\
    d =c= dense_fxy dft ts wv nfft ovl fs i j (lbi + k) /\ ~ re d == im d.
Proof.
  exists toy_dft, w_rp_ts, [1; 1], 2%nat, (Some 0%nat), 1, true, false, 0%nat, 2%nat, [(0%Z, 1%Z)], 0%nat, 1%nat, 0%nat,
         (cmul (1, 0) (cconj (1, 0))), (cmul (0, 10) (cconj (10, 0))), ((1 # 4, 25) : C).
  split; [exact w_rp_entry|].
  split; [split; reflexivity|]. split; [split; reflexivity|].
  split.
  - symmetry. pose proof w_rp_dense as H. unfold ceqb in H. apply andb_prop in H. destruct H as [H1 H2].
    split; apply Qeq_bool_iff; assumption.
  - exact (Qeq_bool_false _ _ w_rp_dense_dir).
Qed.

(* ------------------------------------------------------------------ a decidable version of is_coherency *)
Definition coh_relb (c a d : C) : bool :=
  Qeq_bool (im d) 0 && negb (Qle_bool (re d) 0) && ceqb (cmul (cmul c c) d) (cmul a a) &&
  Qeq_bool (im (cmul c (cconj a))) 0 && Qle_bool 0 (re (cmul c (cconj a))).
Lemma ceqb_true a b : ceqb a b = true -> a =c= b.
Proof. unfold ceqb. intros H. apply andb_prop in H. destruct H. split; apply Qeq_bool_iff; auto. Qed.
Lemma coh_relb_sound c a d : coh_relb c a d = true -> coh_rel c a d.
Proof.
  unfold coh_relb, coh_rel. intros H.
  repeat (apply andb_prop in H; destruct H as [H ?]).
  split; [apply Qeq_bool_iff; assumption|].
  split; [apply Qnot_le_lt; intro L; apply Qle_bool_iff in L; rewrite L in *; discriminate|].
  split; [apply ceqb_true; assumption|].
  split; [apply Qeq_bool_iff; assumption|apply Qle_bool_iff; assumption].
Qed.
Definition is_coherencyb (c : C) (v : cval) : bool :=
  match v with CZero => ceqb c c0 | CDivSqrt a b d => coh_relb c a (cmul b d) end.
Lemma is_coherencyb_sound c v : is_coherencyb c v = true -> is_coherency c v.
Proof. destruct v; simpl; [apply ceqb_true|apply coh_relb_sound]. Qed.

(* ------------------------------------------------------------------ non-vacuity witness *)
Definition nv_ts : list (list Q) := [[1; 2; 0; -(1); 3; 1; 2]; [0; 1; 1; 2; -(1); 0; 1]; [2; 0; 1; 1; 0; 3; -(2)]].
Definition nv_ij : list (Z * Z) := [(0, 1); (1, 0); (2, 2); (0, 1)]%Z.
Definition nv_wv : list Q := [1 # 2; 1; 1; 1 # 2].
Definition nv_cache (psm : bool) : cache := cache_fft toy_dft (tsz nv_ts) nv_ij nv_wv 4 None 2 true psm 1 3.
Definition nonvac_self_entry : cval := coh_entry (nv_cache true) 2%Z 2%Z 0.
Definition nonvac_statement : Prop :=
  (oeff 4 None < 4)%nat /\ (forall x, In x nv_ts -> length x = 7%nat) /\
  (forall p, In p nv_ij -> (0 <= fst p < Z.of_nat (length nv_ts))%Z /\ (0 <= snd p < Z.of_nat (length nv_ts))%Z) /\
  0 < (2 : Q) /\ 0 < sumsq nv_wv /\ (3 <= mlab_numfreqs 4)%nat /\
  In (Z.of_nat 0, Z.of_nat 1) nv_ij /\ In (Z.of_nat 1, Z.of_nat 0) nv_ij /\ (0 < 3 - 1)%nat /\
  nwin 4 (oeff 4 None) 7 = 2%nat /\ nwin 4 (oeff 4 None) 3 = 1%nat /\
  ~ radicand (dense_coh toy_dft nv_ts nv_wv 4 None 2 0 1 (1 + 0)) == 0 /\
  sortedQ [0; 1 # 2; 1] /\ get_bounds [0; 1 # 2; 1] (1 # 2) (Some 1) = (1%nat, 3%nat).
Lemma nv_sumsq : 0 < sumsq nv_wv. Proof. vm_compute. reflexivity. Qed.
Lemma nv_rad : Qeq_bool (radicand (dense_coh toy_dft nv_ts nv_wv 4 None 2 0 1 (1 + 0))) 0 = false.
Proof. vm_compute. reflexivity. Qed.
Lemma nv_nwin : nwin 4 (oeff 4 None) 7 = 2%nat /\ nwin 4 (oeff 4 None) 3 = 1%nat.
Proof. split; vm_compute; reflexivity. Qed.
Lemma nv_bounds : get_bounds [0; 1 # 2; 1] (1 # 2) (Some 1) = (1%nat, 3%nat).
Proof. vm_compute. reflexivity. Qed.
Lemma nv_sorted : sortedQ [0; 1 # 2; 1].
Proof.
  simpl. repeat split; try tauto; intros b Hb; simpl in Hb;
    repeat (destruct Hb as [Hb|Hb]; [subst b; apply Qle_bool_iff; reflexivity|]); tauto.
Qed.
Lemma nonvac_proof : nonvac_statement.
Proof.
  unfold nonvac_statement.
  split; [apply Nat.ltb_lt; reflexivity|].
  split; [intros x Hx; simpl in Hx; repeat (destruct Hx as [Hx|Hx]; [subst x; reflexivity|]); tauto|].
  split; [intros p Hp; simpl in Hp; repeat (destruct Hp as [Hp|Hp]; [subst p; simpl; lia|]); tauto|].
  split; [reflexivity|]. split; [exact nv_sumsq|]. split; [apply Nat.leb_le; reflexivity|].
  split; [left; reflexivity|]. split; [right; left; reflexivity|]. split; [apply Nat.ltb_lt; reflexivity|].
  split; [exact (proj1 nv_nwin)|]. split; [exact (proj2 nv_nwin)|].
  split; [exact (Qeq_bool_false _ _ nv_rad)|]. split; [exact nv_sorted|exact nv_bounds].
Qed.
Lemma nv_self_b : is_coherencyb c1 nonvac_self_entry = true.
Proof. vm_compute. reflexivity. Qed.
Lemma nonvac_self_is_one : is_coherency c1 nonvac_self_entry.
Proof. exact (is_coherencyb_sound _ _ nv_self_b). Qed.

(* ------------------------------------------------------------------ the characterisation is functional *)
Lemma Qsq_zero a : a * a == 0 -> a == 0.
Proof. intros H. destruct (Qeq_dec a 0) as [E|E]; auto. exfalso.
  assert (0 < a * a). { destruct (Qlt_le_dec a 0). setoid_replace (a*a) with ((-a)*(-a)) by ring. apply Qmult_lt_0_compat; lra.
    apply Qmult_lt_0_compat; destruct (Qlt_le_dec 0 a); auto; exfalso; apply E; lra. }
  lra. Qed.
Lemma Qsq_inj a b : 0 <= a -> 0 <= b -> a * a == b * b -> a == b.
Proof. intros Ha Hb H. nra. Qed.
Lemma Qsumsq_zero a b : a * a + b * b == 0 -> a == 0 /\ b == 0.
Proof. intros H. pose proof (sq_nonneg a). pose proof (sq_nonneg b). split; apply Qsq_zero; lra. Qed.

Lemma coh_rel_unique c c' a d : coh_rel c a d -> coh_rel c' a d -> c =c= c'.
Proof.
  destruct c as [x y], c' as [u v], a as [p q], d as [dr di].
  unfold coh_rel, ceq, cmul, cconj, re, im; simpl.
  intros (D1 & D2 & (A1 & A2) & B1 & B2) (_ & _ & (A1' & A2') & B1' & B2').
  assert (E1 : (x*x - y*y) * dr == p*p - q*q) by (rewrite <- A1, D1; ring).
  assert (E2 : (x*y + y*x) * dr == p*q + q*p) by (rewrite <- A2, D1; ring).
  assert (E1' : (u*u - v*v) * dr == p*p - q*q) by (rewrite <- A1', D1; ring).
  assert (E2' : (u*v + v*u) * dr == p*q + q*p) by (rewrite <- A2', D1; ring).
  assert (Hd : ~ dr == 0) by lra.
  assert (S1 : x*x - y*y == u*u - v*v) by (apply (Qmult_inj_r _ _ dr Hd); rewrite E1, E1'; reflexivity).
  assert (S2 : x*y + y*x == u*v + v*u) by (apply (Qmult_inj_r _ _ dr Hd); rewrite E2, E2'; reflexivity).
  set (T := x*x + y*y). set (T' := u*u + v*v).
  assert (TT : T * T == T' * T').
  { unfold T, T'. setoid_replace ((x*x+y*y)*(x*x+y*y)) with ((x*x-y*y)*(x*x-y*y) + (x*y+y*x)*(x*y+y*x)) by ring.
    rewrite S1, S2. ring. }
  assert (T0 : 0 <= T) by (unfold T; pose proof (sq_nonneg x); pose proof (sq_nonneg y); lra).
  assert (T0' : 0 <= T') by (unfold T'; pose proof (sq_nonneg u); pose proof (sq_nonneg v); lra).
  assert (ET : T == T') by (apply Qsq_inj; auto).
  set (N := p*p + q*q).
  set (r := x*p + y*q). set (r' := u*p + v*q).
  assert (R0 : 0 <= r) by (unfold r; lra). assert (R0' : 0 <= r') by (unfold r'; lra).
  assert (RR : r * r == T * N).
  { unfold r, T, N. setoid_replace ((x*x+y*y)*(p*p+q*q)) with ((x*p+y*q)*(x*p+y*q) + (x * - q + y * p)*(x * - q + y * p)) by ring.
    rewrite B1. ring. }
  assert (RR' : r' * r' == T' * N).
  { unfold r', T', N. setoid_replace ((u*u+v*v)*(p*p+q*q)) with ((u*p+v*q)*(u*p+v*q) + (u * - q + v * p)*(u * - q + v * p)) by ring.
    rewrite B1'. ring. }
  assert (ER : r == r') by (apply Qsq_inj; auto; rewrite RR, RR', ET; reflexivity).
  assert (XN : x * N == p * r) by (unfold N, r; setoid_replace (p*(x*p+y*q)) with (x*(p*p) + q*(y*p)) by ring;
     setoid_replace (y*p) with (x*q) by lra; ring).
  assert (YN : y * N == q * r) by (unfold N, r; setoid_replace (q*(x*p+y*q)) with (y*(q*q) + p*(x*q)) by ring;
     setoid_replace (x*q) with (y*p) by lra; ring).
  assert (UN : u * N == p * r') by (unfold N, r'; setoid_replace (p*(u*p+v*q)) with (u*(p*p) + q*(v*p)) by ring;
     setoid_replace (v*p) with (u*q) by lra; ring).
  assert (VN : v * N == q * r') by (unfold N, r'; setoid_replace (q*(u*p+v*q)) with (v*(q*q) + p*(u*q)) by ring;
     setoid_replace (u*q) with (v*p) by lra; ring).
  destruct (Qeq_dec N 0) as [N0|N0].
  - destruct (Qsumsq_zero p q N0) as [P0 Q0].
    assert (TZ : T * T == 0).
    { unfold T. setoid_replace ((x*x+y*y)*(x*x+y*y)) with ((x*x-y*y)*(x*x-y*y) + (x*y+y*x)*(x*y+y*x)) by ring.
      assert (x*x - y*y == 0) by (apply (Qmult_inj_r _ _ dr Hd); rewrite E1, P0, Q0; ring).
      assert (x*y + y*x == 0) by (apply (Qmult_inj_r _ _ dr Hd); rewrite E2, P0, Q0; ring).
      rewrite H, H0. ring. }
    apply Qsq_zero in TZ. assert (TZ' : T' == 0) by (rewrite <- ET; auto).
    destruct (Qsumsq_zero x y TZ) as [X0 Y0]. destruct (Qsumsq_zero u v TZ') as [U0 V0].
    rewrite X0, Y0, U0, V0. split; reflexivity.
  - split; apply (Qmult_inj_r _ _ N N0); [rewrite XN, UN, ER|rewrite YN, VN, ER]; reflexivity.
Qed.

Lemma is_coherency_unique c c' v : is_coherency c v -> is_coherency c' v -> c =c= c'.
Proof.
  destruct v as [|a b d]; cbn [is_coherency].
  - intros H H'. rewrite H, H'. reflexivity.
  - apply coh_rel_unique.
Qed.
