(* Proofs/ARStab.v — stability of the fitted AR model (property C10), for roots in ANY ordered extension
   of Q.

   Everything lives in one Section over an abstract ordered commutative ring F (carrier, operations, a
   strict order, ring laws and order laws as Section hypotheses, an order-preserving ring embedding
   phi : Q -> F).  Every ordered field — the real algebraic numbers, any real closed field, Coq's R —
   is an instance, and F[i] = F * F then contains all roots of the fitted polynomial.  The Section is
   closed at the end, so nothing is assumed globally; an instance with F := Qc is given at the end.

   Argument (no Rouche / Schur-Cohn): with T the Hermitian Toeplitz matrix of R, c = (1, -a_1, .., -a_p)
   the prediction error filter (T c = sigma e_0, Proofs/ARP.v) and positive prediction errors of all
   orders, T is positive definite over F[i] (induction on the size: v = v_0 c + (0, w) gives
   v^H T v = |v_0|^2 sigma + w^H T' w).  If the coefficient vector factors as c_k = alpha b_k + gamma b_{k-1}
   (division of the polynomial by a linear factor) then, by shift invariance and (T c)_i = 0 for i > 0,
   sigma = (|alpha|^2 - |gamma|^2) beta with beta = b^H T' b > 0.  alpha = 1, gamma = -z0 (z0 a root of
   z^p - sum a_k z^(p-k)) gives |z0|^2 < 1; alpha = -z0, gamma = 1 (z0 a root of 1 - sum a_k z^k, the
   denominator AR_psd evaluates) gives |z0|^2 > 1. *)
From Coq Require Import QArith Qcanon List Bool Arith Lia Ring Setoid Morphisms.
From NT Require Import QC AR ARP ARGram.
Import ListNotations.

Lemma errfilt_rows R a b p :
  normal_eqs R a p -> sigma_eq R a b p ->
  forall i, (i <= p)%nat ->
    csumn (fun j => cmul (Rlag R i j) (errfilt a j)) (S p) =c= match i with O => ofQ b | S _ => c0 end.
Proof.
  intros N Sg i Hi. destruct i as [|i].
  - rewrite csumn_shift. unfold sigma_eq in Sg. rewrite Sg.
    transitivity (cadd (R 0%nat) (cneg (csumn (fun j => cmul (a j) (cconj (R (S j)))) p))); [|cring].
    apply cadd_proper; [unfold Rlag, errfilt; simpl; cring|].
    rewrite <- csumn_neg. apply csumn_ext; intros j Hj. unfold Rlag, errfilt. simpl. cring.
  - rewrite csumn_shift.
    transitivity (cadd (R (S i)) (cneg (csumn (fun j => cmul (a j) (Rlag R i j)) p))); [|rewrite (N i ltac:(lia)); cring].
    apply cadd_proper; [unfold Rlag, errfilt; simpl; cring|].
    rewrite <- csumn_neg. apply csumn_ext; intros j Hj. unfold errfilt.
    change (Rlag R (S i) (S j)) with (Rlag R i j). cring.
Qed.

Lemma Rlag_herm R i j : (im (R 0%nat) == 0)%Q -> Rlag R j i =c= cconj (Rlag R i j).
Proof.
  intros H0. unfold Rlag. destruct (Nat.lt_trichotomy i j) as [L|[E|L]].
  - replace (i <=? j)%nat with true by (symmetry; apply Nat.leb_le; lia).
    replace (j <=? i)%nat with false by (symmetry; apply Nat.leb_gt; lia). rewrite cconj_invol. reflexivity.
  - subst. rewrite Nat.leb_refl, Nat.sub_diag. symmetry. apply real_conj; exact H0.
  - replace (i <=? j)%nat with false by (symmetry; apply Nat.leb_gt; lia).
    replace (j <=? i)%nat with true by (symmetry; apply Nat.leb_le; lia). reflexivity.
Qed.

Section Stab.
  Variable F : Type.
  Variables (F0 F1 : F) (Fadd Fmul Fsub : F -> F -> F) (Fopp : F -> F).
  Variable Flt : F -> F -> Prop.
  Hypothesis Frt : ring_theory F0 F1 Fadd Fmul Fsub Fopp (@eq F).
  Hypothesis Flt_trans : forall x y z, Flt x y -> Flt y z -> Flt x z.
  Hypothesis Flt_irrefl : forall x, ~ Flt x x.
  Hypothesis Flt_total : forall x y, Flt x y \/ x = y \/ Flt y x.
  Hypothesis Flt_add : forall x y z, Flt x y -> Flt (Fadd x z) (Fadd y z).
  Hypothesis Flt_mul : forall x y, Flt F0 x -> Flt F0 y -> Flt F0 (Fmul x y).
  (* the rationals inside F *)
  Variable phi : Q -> F.
  Hypothesis phi_eq : forall x y, (x == y)%Q -> phi x = phi y.
  Hypothesis phi_0 : phi 0%Q = F0.
  Hypothesis phi_1 : phi 1%Q = F1.
  Hypothesis phi_add : forall x y, phi (x + y)%Q = Fadd (phi x) (phi y).
  Hypothesis phi_mul : forall x y, phi (x * y)%Q = Fmul (phi x) (phi y).
  Hypothesis phi_pos : forall x, (0 < x)%Q -> Flt F0 (phi x).

  Add Ring FRing : Frt.

  Declare Scope FS.
  Delimit Scope FS with FS.
  Local Infix "+" := Fadd : FS.
  Local Infix "*" := Fmul : FS.
  Local Infix "-" := Fsub : FS.
  Local Notation "- x" := (Fopp x) : FS.
  Local Infix "<" := Flt : FS.
  Local Open Scope FS.

  (* ---------------------------------------------------------------- order facts *)
  Lemma F_pos_add a b : F0 < a -> F0 < b -> F0 < a + b.
  Proof. intros Ha Hb. apply (Flt_trans _ b); [exact Hb|].
    replace b with (F0 + b) at 1 by ring. apply Flt_add; exact Ha. Qed.
  Lemma F_neg_pos x : x < F0 -> F0 < - x.
  Proof. intros H. replace F0 with (x + - x) by ring. replace (- x) with (F0 + - x) at 2 by ring.
    apply Flt_add; exact H. Qed.
  Lemma F_sq_pos x : x <> F0 -> F0 < x * x.
  Proof. intros H. destruct (Flt_total x F0) as [L|[E|L]]; [|contradiction|apply Flt_mul; exact L].
    replace (x * x) with ((- x) * (- x)) by ring. apply Flt_mul; apply F_neg_pos; exact L. Qed.
  Lemma F_eq_dec (x y : F) : x = y \/ x <> y.
  Proof. destruct (Flt_total x y) as [L|[E|L]]; [right|left; exact E|right]; intros E; subst; exact (Flt_irrefl _ L). Qed.
  Lemma F01 : F0 < F1.
  Proof. rewrite <- phi_1. apply phi_pos. reflexivity. Qed.
  Lemma phi_opp x : phi (- x)%Q = - phi x.
  Proof. assert (E : phi (- x)%Q + phi x = F0) by (rewrite <- phi_add, <- phi_0; apply phi_eq; ring).
    replace (phi (- x)%Q) with (phi (- x)%Q + phi x + - phi x) by ring. rewrite E. ring. Qed.
  Lemma phi_sub x y : phi (x - y)%Q = phi x - phi y.
  Proof. unfold Qminus. rewrite phi_add, phi_opp. ring. Qed.

  (* ---------------------------------------------------------------- F[i] *)
  Definition K := (F * F)%type.
  Definition K0 : K := (F0, F0).
  Definition K1 : K := (F1, F0).
  Definition Kadd (a b : K) : K := (fst a + fst b, snd a + snd b).
  Definition Ksub (a b : K) : K := (fst a - fst b, snd a - snd b).
  Definition Kopp (a : K) : K := (- fst a, - snd a).
  Definition Kmul (a b : K) : K := (fst a * fst b - snd a * snd b, fst a * snd b + snd a * fst b).
  Definition Kconj (a : K) : K := (fst a, - snd a).
  Definition Kn2 (a : K) : F := fst a * fst a + snd a * snd a.
  Definition KofF (r : F) : K := (r, F0).

  Ltac kring := unfold Kadd, Ksub, Kopp, Kmul, Kconj, Kn2, KofF, K0, K1; apply injective_projections; simpl; ring.
  Ltac kdestr := repeat match goal with z : K |- _ => destruct z end.

  Lemma K_eq_dec (z : K) : z = K0 \/ z <> K0.
  Proof. destruct z as [a b]. destruct (F_eq_dec a F0) as [->|Ha]; [|right; intros E; inversion E; contradiction].
    destruct (F_eq_dec b F0) as [->|Hb]; [left; reflexivity|right; intros E; inversion E; contradiction]. Qed.
  Lemma Kn2_pos z : z <> K0 -> F0 < Kn2 z.
  Proof.
    destruct z as [a b]. intros H. unfold Kn2; simpl.
    destruct (F_eq_dec a F0) as [->|Ha].
    - assert (b <> F0) by (intros ->; apply H; reflexivity).
      replace (F0 * F0 + b * b) with (b * b) by ring. apply F_sq_pos; assumption.
    - destruct (F_eq_dec b F0) as [->|Hb].
      + replace (a * a + F0 * F0) with (a * a) by ring. apply F_sq_pos; assumption.
      + apply F_pos_add; apply F_sq_pos; assumption.
  Qed.
  Lemma K10 : K1 <> K0.
  Proof. intros E. inversion E as [E1]. pose proof F01 as L. rewrite E1 in L. exact (Flt_irrefl _ L). Qed.

  (* the embedding of Q[i] *)
  Definition Phi (z : C) : K := (phi (re z), phi (im z)).
  Lemma Phi_eq z z' : z =c= z' -> Phi z = Phi z'.
  Proof. intros [E1 E2]. unfold Phi. f_equal; apply phi_eq; assumption. Qed.
  Lemma Phi_add a b : Phi (cadd a b) = Kadd (Phi a) (Phi b).
  Proof. unfold Phi, cadd, Kadd; simpl. rewrite !phi_add. reflexivity. Qed.
  Lemma Phi_mul a b : Phi (cmul a b) = Kmul (Phi a) (Phi b).
  Proof. unfold Phi, cmul, Kmul; simpl. rewrite phi_sub, phi_add, !phi_mul. reflexivity. Qed.
  Lemma Phi_conj a : Phi (cconj a) = Kconj (Phi a).
  Proof. unfold Phi, cconj, Kconj; simpl. rewrite phi_opp. reflexivity. Qed.
  Lemma Phi_neg a : Phi (cneg a) = Kopp (Phi a).
  Proof. unfold Phi, cneg, Kopp; simpl. rewrite !phi_opp. reflexivity. Qed.
  Lemma Phi_c0 : Phi c0 = K0. Proof. unfold Phi, c0, K0; simpl. rewrite phi_0. reflexivity. Qed.
  Lemma Phi_c1 : Phi c1 = K1. Proof. unfold Phi, c1, K1; simpl. rewrite phi_0, phi_1. reflexivity. Qed.
  Lemma Phi_ofQ q : Phi (ofQ q) = KofF (phi q). Proof. unfold Phi, ofQ, KofF; simpl. rewrite phi_0. reflexivity. Qed.

  (* ---------------------------------------------------------------- finite sums in F[i] *)
  Fixpoint sumK (f : nat -> K) (n : nat) : K :=
    match n with O => K0 | S n' => Kadd (sumK f n') (f n') end.
  Lemma sumK_ext f g n : (forall k, (k < n)%nat -> f k = g k) -> sumK f n = sumK g n.
  Proof. induction n; simpl; intros H; [reflexivity|]. rewrite IHn, H; auto. Qed.
  Lemma sumK_zero n : sumK (fun _ => K0) n = K0.
  Proof. induction n; simpl; [reflexivity|]. rewrite IHn. kring. Qed.
  Lemma sumK_add f g n : sumK (fun k => Kadd (f k) (g k)) n = Kadd (sumK f n) (sumK g n).
  Proof. induction n; simpl; [kring|]. rewrite IHn. kring. Qed.
  Lemma sumK_mul_l c f n : sumK (fun k => Kmul c (f k)) n = Kmul c (sumK f n).
  Proof. induction n; simpl; [kring|]. rewrite IHn. destruct c, (sumK f n), (f n). kring. Qed.
  Lemma sumK_mul_r c f n : sumK (fun k => Kmul (f k) c) n = Kmul (sumK f n) c.
  Proof. induction n; simpl; [kring|]. rewrite IHn. destruct c, (sumK f n), (f n). kring. Qed.
  Lemma sumK_conj f n : Kconj (sumK f n) = sumK (fun k => Kconj (f k)) n.
  Proof. induction n; simpl; [kring|]. rewrite <- IHn. destruct (sumK f n), (f n). kring. Qed.
  Lemma sumK_shift f n : sumK f (S n) = Kadd (f 0%nat) (sumK (fun k => f (S k)) n).
  Proof. induction n; [simpl; destruct (f 0%nat); kring|].
    change (sumK f (S (S n))) with (Kadd (sumK f (S n)) (f (S n))). rewrite IHn. simpl.
    destruct (f 0%nat), (sumK (fun k => f (S k)) n), (f (S n)). kring. Qed.
  Lemma sumK_exchange (f : nat -> nat -> K) m n :
    sumK (fun t => sumK (fun i => f t i) n) m = sumK (fun i => sumK (fun t => f t i) m) n.
  Proof. induction m; simpl; [symmetry; apply sumK_zero|]. rewrite IHm, <- sumK_add. reflexivity. Qed.
  Lemma Phi_sum f n : Phi (csumn f n) = sumK (fun k => Phi (f k)) n.
  Proof. induction n; simpl; [apply Phi_c0|]. rewrite Phi_add, IHn. reflexivity. Qed.

  Lemma Kconj_mul a b : Kconj (Kmul a b) = Kmul (Kconj a) (Kconj b). Proof. kring. Qed.
  Lemma Kconj_invol a : Kconj (Kconj a) = a. Proof. kring. Qed.

  (* ---------------------------------------------------------------- the Hermitian Toeplitz form over F[i] *)
  Section Form.
    Variable T : nat -> nat -> K.
    Hypothesis T_shift : forall i j, T (S i) (S j) = T i j.
    Hypothesis T_herm : forall i j, T j i = Kconj (T i j).

    Definition row n (y : nat -> K) (i : nat) : K := sumK (fun j => Kmul (T i j) (y j)) n.
    (* x^H T y *)
    Definition H n (x y : nat -> K) : K := sumK (fun i => Kmul (Kconj (x i)) (row n y i)) n.

    Lemma row_ext n y y' i : (forall j, (j < n)%nat -> y j = y' j) -> row n y i = row n y' i.
    Proof. intros E. unfold row. apply sumK_ext; intros j Hj. rewrite (E j Hj). reflexivity. Qed.
    Lemma H_ext n x x' y y' : (forall i, (i < n)%nat -> x i = x' i) -> (forall j, (j < n)%nat -> y j = y' j) ->
      H n x y = H n x' y'.
    Proof. intros Ex Ey. unfold H. apply sumK_ext; intros i Hi. rewrite (Ex i Hi), (row_ext n y y' i Ey). reflexivity. Qed.
    Lemma row_add n y z i : row n (fun j => Kadd (y j) (z j)) i = Kadd (row n y i) (row n z i).
    Proof. unfold row. rewrite <- sumK_add. apply sumK_ext; intros j Hj. kring. Qed.
    Lemma row_scale n a y i : row n (fun j => Kmul a (y j)) i = Kmul a (row n y i).
    Proof. unfold row. rewrite <- sumK_mul_l. apply sumK_ext; intros j Hj. kring. Qed.
    Lemma H_add_r n x y z : H n x (fun j => Kadd (y j) (z j)) = Kadd (H n x y) (H n x z).
    Proof. unfold H. rewrite <- sumK_add. apply sumK_ext; intros i Hi. rewrite row_add. kring. Qed.
    Lemma H_add_l n x y z : H n (fun j => Kadd (x j) (y j)) z = Kadd (H n x z) (H n y z).
    Proof. unfold H. rewrite <- sumK_add. apply sumK_ext; intros i Hi. kring. Qed.
    Lemma H_scale_r n a x y : H n x (fun j => Kmul a (y j)) = Kmul a (H n x y).
    Proof. unfold H. rewrite <- sumK_mul_l. apply sumK_ext; intros i Hi. rewrite row_scale. kring. Qed.
    Lemma H_scale_l n a x y : H n (fun j => Kmul a (x j)) y = Kmul (Kconj a) (H n x y).
    Proof. unfold H. rewrite <- sumK_mul_l. apply sumK_ext; intros i Hi. kring. Qed.

    Lemma H_herm n x y : H n y x = Kconj (H n x y).
    Proof.
      unfold H at 2. rewrite sumK_conj.
      transitivity (sumK (fun i => sumK (fun j => Kmul (Kconj (y j)) (Kmul (T j i) (x i))) n) n).
      - unfold H. rewrite sumK_exchange. apply sumK_ext; intros j Hj.
        unfold row. rewrite <- sumK_mul_l. reflexivity.
      - apply sumK_ext; intros i Hi. unfold row. rewrite Kconj_mul, sumK_conj, <- sumK_mul_l.
        apply sumK_ext; intros j Hj. rewrite (T_herm i j). kring.
    Qed.

    Lemma H_shift n x y : x 0%nat = K0 -> y 0%nat = K0 ->
      H (S n) x y = H n (fun i => x (S i)) (fun j => y (S j)).
    Proof.
      intros Hx Hy. unfold H. rewrite sumK_shift, Hx.
      transitivity (sumK (fun k => Kmul (Kconj (x (S k))) (row (S n) y (S k))) n); [kring|].
      apply sumK_ext; intros i Hi. f_equal. unfold row. rewrite sumK_shift, Hy.
      transitivity (sumK (fun k => Kmul (T (S i) (S k)) (y (S k))) n); [kring|].
      apply sumK_ext; intros j Hj. rewrite T_shift. reflexivity.
    Qed.

    Lemma H_last n x y : x n = K0 -> y n = K0 -> H (S n) x y = H n x y.
    Proof.
      intros Hx Hy. unfold H. simpl sumK. rewrite Hx.
      transitivity (sumK (fun i => Kmul (Kconj (x i)) (row (S n) y i)) n); [kring|].
      apply sumK_ext; intros i Hi. f_equal. unfold row. simpl sumK. rewrite Hy. kring.
    Qed.

    Lemma H_zero n x y : (forall i, (i < n)%nat -> x i = K0) -> H n x y = K0.
    Proof. intros E. unfold H. rewrite <- (sumK_zero n). apply sumK_ext; intros i Hi. rewrite (E i Hi). kring. Qed.

    Lemma all_or_ex n (f : nat -> K) : (forall i, (i < n)%nat -> f i = K0) \/ (exists i, (i < n)%nat /\ f i <> K0).
    Proof.
      induction n as [|n [A|(i & Hi & Hf)]].
      - left; intros i Hi; lia.
      - destruct (K_eq_dec (f n)) as [Z|NZ].
        + left. intros i Hi. destruct (Nat.eq_dec i n) as [->|]; [exact Z|apply A; lia].
        + right. exists n. split; [lia|exact NZ].
      - right. exists i. split; [lia|exact Hf].
    Qed.

    (* the prediction error filters of all orders up to P and their (positive) error powers *)
    Variable P : nat.
    Variable cf : nat -> nat -> K.
    Variable sg : nat -> F.
    Hypothesis cf0 : forall q, (q <= P)%nat -> cf q 0%nat = K1.
    Hypothesis cf_rows : forall q i, (q <= P)%nat -> (i <= q)%nat ->
      row (S q) (cf q) i = match i with O => KofF (sg q) | S _ => K0 end.
    Hypothesis sg_pos : forall q, (q <= P)%nat -> F0 < sg q.

    Lemma H_filter q x : (q <= P)%nat -> H (S q) x (cf q) = Kmul (Kconj (x 0%nat)) (KofF (sg q)).
    Proof.
      intros Hq. unfold H. rewrite sumK_shift, (cf_rows q 0 Hq ltac:(lia)).
      rewrite (sumK_ext _ (fun _ => K0) q).
      - rewrite sumK_zero. kring.
      - intros i Hi. rewrite (cf_rows q (S i) Hq ltac:(lia)). kring.
    Qed.

    Definition posK (z : K) : Prop := F0 < fst z /\ snd z = F0.

    (* T is positive definite over F[i], every size up to P + 1 *)
    Theorem PD n : (n <= S P)%nat -> forall v, (exists i, (i < n)%nat /\ v i <> K0) -> posK (H n v v).
    Proof.
      induction n as [|q IH]; intros Hn v (i0 & Hi0 & Hv0); [lia|].
      assert (Hq : (q <= P)%nat) by lia.
      set (c := cf q). set (sigma := sg q). set (v0 := v 0%nat).
      set (w := fun j => Ksub (v j) (Kmul v0 (c j))).
      assert (Hw0 : w 0%nat = K0) by (unfold w, c; rewrite (cf0 q Hq); unfold v0; kring).
      assert (Hwc : H (S q) w c = K0) by (unfold c; rewrite (H_filter q w Hq), Hw0; kring).
      assert (Hcc : H (S q) c c = KofF sigma) by (unfold c; rewrite (H_filter q _ Hq), (cf0 q Hq); unfold sigma; kring).
      assert (E : H (S q) v v = Kadd (KofF (Kn2 v0 * sigma)) (H q (fun i => w (S i)) (fun j => w (S j)))).
      { rewrite <- (H_shift q w w Hw0 Hw0).
        rewrite (H_ext (S q) v (fun j => Kadd (Kmul v0 (c j)) (w j)) v (fun j => Kadd (Kmul v0 (c j)) (w j)))
          by (intros j Hj; unfold w; kring).
        rewrite H_add_l, !H_add_r, !H_scale_l, !H_scale_r, Hcc, Hwc.
        rewrite (H_herm (S q) w c), Hwc.
        generalize (H (S q) w w). intros X. kring. }
      rewrite E. clear E.
      set (w' := fun i => w (S i)).
      destruct (K_eq_dec v0) as [Z|NZ].
      - (* v_0 = 0: the non-zero entry is further down *)
        assert (Hx : exists i, (i < q)%nat /\ w' i <> K0).
        { destruct i0 as [|i1]; [exfalso; apply Hv0; exact Z|].
          exists i1. split; [lia|]. unfold w', w. rewrite Z. intros Ew. apply Hv0. rewrite <- Ew. kring. }
        destruct (IH ltac:(lia) w' Hx) as [P1 P2]. rewrite Z. split.
        + replace (fst (Kadd (KofF (Kn2 K0 * sigma)) (H q w' w'))) with (fst (H q w' w')); [exact P1|].
          unfold Kadd, KofF, Kn2, K0; simpl. ring.
        + unfold Kadd, KofF; simpl. rewrite P2. ring.
      - assert (R0 : F0 < Kn2 v0 * sigma) by (apply Flt_mul; [apply Kn2_pos; exact NZ|apply sg_pos; exact Hq]).
        destruct (all_or_ex q w') as [A|Hx].
        + rewrite (H_zero q w' w' A). split; unfold Kadd, KofF, K0; simpl.
          * replace (Kn2 v0 * sigma + F0) with (Kn2 v0 * sigma) by ring. exact R0.
          * ring.
        + destruct (IH ltac:(lia) w' Hx) as [P1 P2]. split; unfold Kadd, KofF; simpl.
          * apply F_pos_add; assumption.
          * rewrite P2. ring.
    Qed.

    (* division of the coefficient vector by a linear factor: c_k = alpha b_k + gamma b_{k-1} *)
    Definition shiftv (b : nat -> K) (k : nat) : K := match k with O => K0 | S k' => b k' end.

    Theorem split_form (b : nat -> K) (alpha gamma : K) :
      (1 <= P)%nat -> b P = K0 ->
      (forall k, (k <= P)%nat -> cf P k = Kadd (Kmul alpha (b k)) (Kmul gamma (shiftv b k))) ->
      Kn2 gamma < Kn2 alpha.
    Proof.
      intros HP HbP Hc.
      set (c := cf P). set (sigma := sg P). set (w := shiftv b).
      assert (Hb0 : b 0%nat <> K0).
      { intros Z. pose proof (Hc 0%nat ltac:(lia)) as E. rewrite (cf0 P (le_n P)), Z in E. simpl in E.
        apply K10. rewrite E. kring. }
      destruct (PD P ltac:(lia) b (ex_intro _ 0%nat (conj HP Hb0))) as [Bp Bi].
      set (beta := H P b b) in *.
      assert (Huu : H (S P) b b = beta) by (apply H_last; exact HbP).
      assert (Hww : H (S P) w w = beta) by (unfold w; rewrite H_shift by reflexivity; reflexivity).
      set (g := H (S P) w b).
      assert (Hcv : forall k, (k < S P)%nat -> c k = Kadd (Kmul alpha (b k)) (Kmul gamma (w k))).
      { intros k Hk. apply Hc. lia. }
      (* (1)  w^H T c = 0 *)
      assert (E1 : Kadd (Kmul alpha g) (Kmul gamma beta) = K0).
      { assert (Z : H (S P) w c = K0) by (unfold c; rewrite (H_filter P w (le_n P)); unfold w; simpl; kring).
        rewrite (H_ext (S P) w w c _ (fun _ _ => eq_refl) Hcv) in Z.
        rewrite H_add_r, !H_scale_r, Hww in Z. exact Z. }
      (* (2)  c^H T c = sigma *)
      assert (E2 : KofF sigma = Kmul (Kconj alpha) (Kadd (Kmul alpha beta) (Kmul gamma (Kconj g)))).
      { assert (Z : H (S P) c c = KofF sigma)
          by (unfold c; rewrite (H_filter P _ (le_n P)), (cf0 P (le_n P)); unfold sigma; kring).
        rewrite (H_ext (S P) c _ c c Hcv (fun _ _ => eq_refl)) in Z.
        rewrite H_add_l, !H_scale_l in Z.
        assert (Zw : H (S P) w c = K0) by (unfold c; rewrite (H_filter P w (le_n P)); unfold w; simpl; kring).
        rewrite Zw in Z.
        rewrite (H_ext (S P) b b c _ (fun _ _ => eq_refl) Hcv) in Z.
        rewrite H_add_r, !H_scale_r, Huu, (H_herm (S P) w b) in Z. fold g in Z.
        rewrite <- Z. kring. }
      (* components *)
      destruct alpha as [a1 a2], gamma as [c1 c2], g as [g1 g2]. destruct beta as [r bi]. simpl in Bp, Bi. subst bi.
      unfold Kadd, Kmul, Kconj, KofF, K0 in E1, E2. simpl in E1, E2.
      injection E1 as X1 X2. injection E2 as S1 _.
      assert (Sg : sigma = (a1 * a1 + a2 * a2 - (c1 * c1 + c2 * c2)) * r).
      { rewrite S1.
        transitivity ((a1 * a1 + a2 * a2 - (c1 * c1 + c2 * c2)) * r
                      + c1 * (a1 * g1 - a2 * g2 + (c1 * r - c2 * F0))
                      + c2 * (a1 * g2 + a2 * g1 + (c1 * F0 + c2 * r))); [ring|].
        rewrite X1, X2. ring. }
      unfold Kn2; simpl.
      set (A := a1 * a1 + a2 * a2) in *. set (G := c1 * c1 + c2 * c2) in *.
      assert (Sp : F0 < sigma) by (apply sg_pos; lia).
      destruct (Flt_total G A) as [L|[E|L]]; [exact L|exfalso|exfalso].
      - rewrite E in Sg. replace ((A - A) * r) with F0 in Sg by ring. rewrite Sg in Sp. exact (Flt_irrefl _ Sp).
      - assert (D : F0 < G - A).
        { replace F0 with (A + - A) by ring. replace (G - A) with (G + - A) by ring. apply Flt_add; exact L. }
        pose proof (F_pos_add _ _ Sp (Flt_mul _ _ D Bp)) as Z.
        replace (sigma + (G - A) * r) with F0 in Z by (rewrite Sg; ring). exact (Flt_irrefl _ Z).
    Qed.
  End Form.

  (* ---------------------------------------------------------------- polynomials over F[i]: coefficient lists *)
  Definition nthK (l : list K) (k : nat) : K := nth k l K0.
  Fixpoint pevalK (l : list K) (z : K) : K :=
    match l with [] => K0 | a :: l' => Kadd a (Kmul z (pevalK l' z)) end.
  Lemma nthK_nil k : nthK [] k = K0. Proof. unfold nthK. destruct k; reflexivity. Qed.

  (* synthetic division by (x - z0): l(x) = (x - z0) q(x) + l(z0), coefficient by coefficient *)
  Lemma synth_div l z0 : exists q : list K,
    (forall k, (length l <= S k)%nat -> nthK q k = K0) /\
    forall k, nthK l k = Kadd (Ksub (shiftv (nthK q) k) (Kmul z0 (nthK q k)))
                              (match k with O => pevalK l z0 | S _ => K0 end).
  Proof.
    induction l as [|d0 l (q' & Sup & Co)].
    - exists []. split; [intros; apply nthK_nil|].
      intros k. rewrite nthK_nil. destruct k as [|k]; cbn [shiftv pevalK]; rewrite ?nthK_nil; kring.
    - exists (pevalK l z0 :: q'). split.
      + intros k Hk. destruct k as [|k]; simpl in *.
        * destruct l; [reflexivity|simpl in Hk; lia].
        * apply Sup. lia.
      + intros k. destruct k as [|k].
        * unfold nthK. cbn [nth shiftv pevalK]. kring.
        * change (nthK (d0 :: l) (S k)) with (nthK l k). rewrite (Co k).
          change (nthK (pevalK l z0 :: q') (S k)) with (nthK q' k).
          change (shiftv (nthK (pevalK l z0 :: q')) (S k)) with (nthK (pevalK l z0 :: q') k).
          destruct k as [|k]; unfold nthK; cbn [nth shiftv]; kring.
  Qed.

  (* ---------------------------------------------------------------- the fitted model *)
  Section Fit.
    Variable R : list C.
    Variable order : nat.
    Hypothesis Ho : (1 <= order < length R)%nat.
    Hypothesis H0 : (im (nthC R 0) == 0)%Q.
    Hypothesis Hpos : forall q, (q <= order)%nat -> (0 < ld_err R q)%Q.

    Definition TF (i j : nat) : K := Phi (Rlag (Rf R) i j).
    Definition cfF (q j : nat) : K := Phi (errfilt (sa (Rf R) q) j).
    Definition sgF (q : nat) : F := phi (sb (Rf R) q).

    Lemma TF_shift i j : TF (S i) (S j) = TF i j. Proof. reflexivity. Qed.
    Lemma TF_herm i j : TF j i = Kconj (TF i j).
    Proof. unfold TF. rewrite <- Phi_conj. apply Phi_eq. apply Rlag_herm. exact H0. Qed.
    Lemma cfF0 q : (q <= order)%nat -> cfF q 0%nat = K1.
    Proof. intros _. unfold cfF. simpl. apply Phi_c1. Qed.
    Lemma sb_pos_q q : (q <= order)%nat -> (0 < sb (Rf R) q)%Q.
    Proof. intros Hq. rewrite <- ld_err_sb. apply Hpos; exact Hq. Qed.
    Lemma sgF_pos q : (q <= order)%nat -> F0 < sgF q.
    Proof. intros Hq. apply phi_pos. apply sb_pos_q; exact Hq. Qed.
    Lemma cfF_rows q i : (q <= order)%nat -> (i <= q)%nat ->
      row TF (S q) (cfF q) i = match i with O => KofF (sgF q) | S _ => K0 end.
    Proof.
      intros Hq Hi.
      destruct (ld_invariants (Rf R) q H0) as [N Sg].
      { intros q' Hq' Z. pose proof (sb_pos_q q' ltac:(lia)) as L. rewrite Z in L. discriminate. }
      pose proof (errfilt_rows (Rf R) (sa (Rf R) q) (sb (Rf R) q) q N Sg i Hi) as E.
      apply Phi_eq in E. rewrite Phi_sum in E.
      unfold row, TF, cfF.
      rewrite (sumK_ext _ (fun k => Phi (cmul (Rlag (Rf R) i k) (errfilt (sa (Rf R) q) k))) (S q))
        by (intros; rewrite Phi_mul; reflexivity).
      rewrite E. destruct i; [apply Phi_ofQ|apply Phi_c0].
    Qed.

    (* coefficients 1, -a_1, ..., -a_p (lowest power first: the polynomial 1 - sum a_k z^k of AR_psd) *)
    Definition coefs : list C := c1 :: map cneg (fst (AR_est_LD R order)).
    Definition LK : list K := map Phi coefs.
    Lemma LK_length : length LK = S order.
    Proof. destruct (AR_est_LD_spec R order ltac:(lia)) as (L & _).
      unfold LK, coefs. rewrite map_length. cbn [length]. rewrite map_length, L. reflexivity. Qed.
    Lemma LK_nth k : (k <= order)%nat -> nthK LK k = cfF order k.
    Proof.
      intros Hk. destruct (AR_est_LD_spec R order ltac:(lia)) as (L & A & _).
      destruct k as [|k]; [reflexivity|].
      unfold LK, coefs, nthK, cfF. cbn [map nth errfilt].
      rewrite (nth_indep _ K0 (Phi (cneg c0))) by (rewrite !map_length; lia).
      rewrite map_map, (map_nth (fun x => Phi (cneg x))).
      apply Phi_eq. apply cneg_proper. apply (A k). lia.
    Qed.

    Lemma Kn2_K1 : Kn2 K1 = F1. Proof. unfold Kn2, K1; simpl. ring. Qed.
    Lemma Kn2_opp z : Kn2 (Kopp z) = Kn2 z. Proof. unfold Kn2, Kopp; simpl. ring. Qed.

    (* every root, in F[i], of 1 - sum a_k z^k lies strictly outside the unit circle *)
    Theorem den_roots_outside z0 : pevalK LK z0 = K0 -> F1 < Kn2 z0.
    Proof.
      intros Hr. destruct (synth_div LK z0) as (q & Sup & Co).
      rewrite <- Kn2_K1, <- (Kn2_opp z0).
      apply (split_form TF TF_shift TF_herm order cfF sgF cfF0 cfF_rows sgF_pos (nthK q) (Kopp z0) K1).
      - lia.
      - apply Sup. rewrite LK_length. lia.
      - intros k Hk. rewrite <- (LK_nth k Hk), (Co k).
        destruct k; [rewrite Hr|]; kring.
    Qed.

    (* every root, in F[i], of z^p - sum a_k z^(p-k) (np.roots(r_[1, -ak])) lies strictly inside it *)
    Theorem poly_roots_inside z0 : pevalK (rev LK) z0 = K0 -> Kn2 z0 < F1.
    Proof.
      intros Hr. destruct (synth_div (rev LK) z0) as (q & Sup & Co).
      rewrite rev_length, LK_length in Sup.
      set (b := fun j => if (j <? order)%nat then nthK q (order - 1 - j) else K0).
      rewrite <- Kn2_K1, <- (Kn2_opp z0).
      apply (split_form TF TF_shift TF_herm order cfF sgF cfF0 cfF_rows sgF_pos b K1 (Kopp z0)).
      - lia.
      - unfold b. rewrite Nat.ltb_irrefl. reflexivity.
      - intros j Hj. rewrite <- (LK_nth j Hj).
        assert (E : nthK LK j = nthK (rev LK) (order - j)).
        { unfold nthK. rewrite rev_nth by (rewrite LK_length; lia). rewrite LK_length.
          f_equal. lia. }
        rewrite E, (Co (order - j)%nat).
        destruct (Nat.eq_dec j order) as [->|Hne].
        + rewrite Nat.sub_diag. simpl shiftv at 1. rewrite Hr.
          destruct order as [|m]; [lia|]. simpl shiftv. unfold b.
          replace (m <? S m)%nat with true by (symmetry; apply Nat.ltb_lt; lia).
          rewrite Nat.ltb_irrefl. replace (S m - 1 - m)%nat with 0%nat by lia. kring.
        + assert (Hlt : (j < order)%nat) by lia.
          destruct (order - j)%nat as [|m] eqn:Em; [lia|]. simpl shiftv at 1.
          assert (B1 : b j = nthK q m).
          { unfold b. replace (j <? order)%nat with true by (symmetry; apply Nat.ltb_lt; lia). f_equal. lia. }
          assert (B2 : shiftv b j = nthK q (S m)).
          { destruct j as [|j']; simpl.
            - symmetry. apply Sup. lia.
            - unfold b. replace (j' <? order)%nat with true by (symmetry; apply Nat.ltb_lt; lia). f_equal. lia. }
          rewrite B1, B2. kring.
    Qed.
  End Fit.
End Stab.

(* ------------------------------------------------------------------ packaged statement *)
(* an ordered commutative ring containing Q (every ordered field extension of Q is one) *)
Record OrdExt : Type := mkOrdExt {
  oF : Type;
  o0 : oF; o1 : oF;
  oadd : oF -> oF -> oF; omul : oF -> oF -> oF; osub : oF -> oF -> oF; oopp : oF -> oF;
  olt : oF -> oF -> Prop;
  ophi : Q -> oF;
  o_ring : ring_theory o0 o1 oadd omul osub oopp (@eq oF);
  o_trans : forall x y z, olt x y -> olt y z -> olt x z;
  o_irrefl : forall x, ~ olt x x;
  o_total : forall x y, olt x y \/ x = y \/ olt y x;
  o_add : forall x y z, olt x y -> olt (oadd x z) (oadd y z);
  o_mul : forall x y, olt o0 x -> olt o0 y -> olt o0 (omul x y);
  o_phi_eq : forall x y, (x == y)%Q -> ophi x = ophi y;
  o_phi_0 : ophi 0%Q = o0;
  o_phi_1 : ophi 1%Q = o1;
  o_phi_add : forall x y, ophi (x + y)%Q = oadd (ophi x) (ophi y);
  o_phi_mul : forall x y, ophi (x * y)%Q = omul (ophi x) (ophi y);
  o_phi_pos : forall x, (0 < x)%Q -> olt o0 (ophi x) }.

(* E[i], |z|^2, polynomial evaluation (lowest power first) and the image of a Q[i] coefficient list *)
Definition ext_C (E : OrdExt) : Type := (oF E * oF E)%type.
Definition ext_norm2 (E : OrdExt) (z : ext_C E) : oF E := Kn2 (oF E) (oadd E) (omul E) z.
Definition ext_peval (E : OrdExt) (l : list (ext_C E)) (z : ext_C E) : ext_C E :=
  pevalK (oF E) (o0 E) (oadd E) (omul E) (osub E) l z.
Definition ext_zero (E : OrdExt) : ext_C E := (o0 E, o0 E).
Definition ext_embed (E : OrdExt) (z : C) : ext_C E := (ophi E (re z), ophi E (im z)).
(* 1, -a_1, ..., -a_p *)
Definition den_coefs (ak : list C) : list C := c1 :: map cneg ak.

(* Stability of the Levinson-Durbin fit.  For EVERY ordered extension E of Q and every z0 in E[i]:
   a root of z^p - sum a_k z^(p-k) has |z0|^2 < 1 and a root of 1 - sum a_k z^k has |z0|^2 > 1,
   whenever R_0 is real and the prediction errors of all orders up to p are positive
   (equivalently R_0 > 0 and |k_q| < 1 for q <= p). *)
Theorem AR_stable (E : OrdExt) (R : list C) (order : nat) :
  (1 <= order < length R)%nat -> (im (nthC R 0) == 0)%Q ->
  (forall q, (q <= order)%nat -> (0 < ld_err R q)%Q) ->
  forall z0 : ext_C E,
    (ext_peval E (rev (map (ext_embed E) (den_coefs (fst (AR_est_LD R order))))) z0 = ext_zero E ->
       olt E (ext_norm2 E z0) (o1 E)) /\
    (ext_peval E (map (ext_embed E) (den_coefs (fst (AR_est_LD R order)))) z0 = ext_zero E ->
       olt E (o1 E) (ext_norm2 E z0)).
Proof.
  intros Ho H0 Hpos z0.
  destruct E as [F F0 F1 Fadd Fmul Fsub Fopp Flt phi rt tr ir tot ad mu pe p0 p1 pa pm pp].
  unfold ext_peval, ext_norm2, ext_zero, ext_embed, den_coefs, ext_C in *.
  cbn [oF o0 o1 oadd omul osub oopp olt ophi] in *.
  split; intros Hr.
  - exact (poly_roots_inside F F0 F1 Fadd Fmul Fsub Fopp Flt rt tr ir tot ad mu phi pe p0 p1 pa pm pp R order Ho H0 Hpos z0 Hr).
  - exact (den_roots_outside F F0 F1 Fadd Fmul Fsub Fopp Flt rt tr ir tot ad mu phi pe p0 p1 pa pm pp R order Ho H0 Hpos z0 Hr).
Qed.

(* for data: every non-zero signal, every order < N, the biased autocorrelation the code computes *)
Theorem AR_stable_data (E : OrdExt) (x : list C) (order : nat) :
  (1 <= order < length x)%nat -> (exists t, (t < length x)%nat /\ ~ nthC x t =c= c0) ->
  let ak := fst (AR_est_LD (autocorr_seq x (S order)) order) in
  forall z0 : ext_C E,
    (ext_peval E (rev (map (ext_embed E) (den_coefs ak))) z0 = ext_zero E -> olt E (ext_norm2 E z0) (o1 E)) /\
    (ext_peval E (map (ext_embed E) (den_coefs ak)) z0 = ext_zero E -> olt E (o1 E) (ext_norm2 E z0)).
Proof.
  intros Ho Hx ak z0.
  destruct (sigma_pos_data x order Ho Hx) as (L & H0 & Hp & _).
  exact (AR_stable E (autocorr_seq x (S order)) order L H0 Hp z0).
Qed.

(* ------------------------------------------------------------------ an instance: F := Qc (canonical rationals) *)
Lemma Qc_this_Q2Qc q : (this (Q2Qc q) == q)%Q.
Proof. simpl. apply Qred_correct. Qed.

Definition Qc_ext : OrdExt.
Proof.
  refine (mkOrdExt Qc 0%Qc 1%Qc Qcplus Qcmult Qcminus Qcopp Qclt Q2Qc Qcrt Qclt_trans _ _ _ _ _ _ _ _ _ _).
  - intros x H. unfold Qclt in H. exact (Qlt_irrefl _ H).
  - intros x y. destruct (Q_dec (this x) (this y)) as [[L|L]|E].
    + left; exact L.
    + right; right; exact L.
    + right; left; apply Qc_is_canon; exact E.
  - intros x y z H. unfold Qclt, Qcplus in *.
    rewrite (Qc_this_Q2Qc (this x + this z)), (Qc_this_Q2Qc (this y + this z)). apply Qplus_lt_l. exact H.
  - intros x y Hx Hy. unfold Qclt, Qcmult in *. change (this 0%Qc) with 0%Q in *.
    rewrite (Qc_this_Q2Qc (this x * this y)). apply Qmult_lt_0_compat; assumption.
  - intros x y H. apply Qc_is_canon. rewrite !Qc_this_Q2Qc. exact H.
  - reflexivity.
  - reflexivity.
  - intros x y. apply Qc_is_canon. unfold Qcplus. rewrite !Qc_this_Q2Qc. reflexivity.
  - intros x y. apply Qc_is_canon. unfold Qcmult. rewrite !Qc_this_Q2Qc. reflexivity.
  - intros x H. unfold Qclt. change (this 0%Qc) with 0%Q. rewrite (Qc_this_Q2Qc x). exact H.
Defined.
