(* Proofs/DpssP.v — lemmas about the discrete / algebraic logic of dpss_windows (Model/Dpss.v):
   ordering after reversal, the sign convention, the concentration formula as a quadratic form
   of the sinc kernel, the low_bias selection, the rescaling of interpolated tapers, and the
   centro-symmetry of the tridiagonal set-up.  All over Q, for every length. *)
From Coq Require Import QArith List Arith Bool Lia Lqa Field.
From NT Require Import Sums Tridi Dpss.
Import ListNotations.
Open Scope Q_scope.

(* ---------------------------------------------------------------- sums *)
Lemma sumn_r_eq f n : sumn_r f n == sumn f n.
Proof. induction n; cbn [sumn_r sumn]; [reflexivity|]. setoid_rewrite Qred_correct. rewrite IHn. reflexivity. Qed.

Lemma lsum_cons a v : lsum (a :: v) == a + lsum v.
Proof. cbn [lsum]. apply Qred_correct. Qed.

Lemma sumsq_cons a v : sumsq (a :: v) == a * a + sumsq v.
Proof. unfold sumsq. cbn [map]. apply lsum_cons. Qed.

Lemma lsum_neg v : lsum (neg v) == - lsum v.
Proof.
  induction v as [|a v IH]; [reflexivity|].
  unfold neg in *. cbn [map]. rewrite !lsum_cons, IH. ring.
Qed.

Lemma sumsq_neg v : sumsq (neg v) == sumsq v.
Proof.
  induction v as [|a v IH]; [reflexivity|].
  unfold neg in *. cbn [map]. rewrite !sumsq_cons, IH. ring.
Qed.

Lemma sumsq_nonneg v : 0 <= sumsq v.
Proof.
  induction v as [|a v IH]; [apply Qle_refl|].
  rewrite sumsq_cons. pose proof (sq_nonneg a) as Ha. set (q := a * a) in *. set (t := sumsq v) in *. lra.
Qed.

Lemma neg_length v : length (neg v) = length v.
Proof. unfold neg. apply map_length. Qed.

Lemma get_neg v k : get (neg v) k == - get v k.
Proof.
  unfold get, neg. revert k; induction v as [|a v IH]; intros [|k]; simpl; try reflexivity.
  apply IH.
Qed.

Lemma firstn_neg n v : firstn n (neg v) = neg (firstn n v).
Proof. unfold neg. apply firstn_map. Qed.

(* ---------------------------------------------------------------- reversal of the ascending eigenvalue list *)
Theorem rev_asc_desc l : asc l -> desc (rev l).
Proof.
  unfold asc, desc, get. intros H i j Hij. rewrite rev_length in Hij.
  rewrite !rev_nth by lia. apply H. lia.
Qed.

(* ---------------------------------------------------------------- sign convention *)
Lemma is_neg_false x : is_neg x = false -> 0 <= x.
Proof. unfold is_neg. intros H. apply negb_false_iff in H. apply Qle_bool_iff. exact H. Qed.
Lemma is_neg_true x : is_neg x = true -> x < 0.
Proof.
  unfold is_neg. intros H. apply negb_true_iff in H.
  apply Qnot_le_lt. intros C. apply Qle_bool_iff in C. congruence.
Qed.

Lemma Qabsq_opp a : Qabsq (- a) == Qabsq a.
Proof.
  unfold Qabsq.
  destruct (Qle_bool 0 (- a)) eqn:E1; destruct (Qle_bool 0 a) eqn:E2.
  - apply Qle_bool_iff in E1. apply Qle_bool_iff in E2. lra.
  - reflexivity.
  - ring.
  - assert (~ 0 <= - a) by (intro C; apply Qle_bool_iff in C; congruence).
    assert (~ 0 <= a) by (intro C; apply Qle_bool_iff in C; congruence). lra.
Qed.

Lemma argmax_abs_from_neg l : forall i bi bv bv',
  bv == bv' -> argmax_abs_from (neg l) i bi bv = argmax_abs_from l i bi bv'.
Proof.
  induction l as [|a l IH]; intros i bi bv bv' Hb; [reflexivity|].
  unfold neg in *. cbn [map argmax_abs_from].
  assert (E : Qle_bool (Qabsq (- a)) bv = Qle_bool (Qabsq a) bv').
  { rewrite Qabsq_opp, Hb. reflexivity. }
  rewrite E. destruct (Qle_bool (Qabsq a) bv').
  - apply IH. exact Hb.
  - apply IH. apply Qabsq_opp.
Qed.

Lemma argmax_abs_neg l : argmax_abs (neg l) = argmax_abs l.
Proof.
  destruct l as [|a l]; [reflexivity|].
  unfold argmax_abs, neg. cbn [map]. apply (argmax_abs_from_neg l). apply Qabsq_opp.
Qed.

Lemma lobe_neg N v : lobe N (neg v) == - lobe N v.
Proof.
  unfold lobe. rewrite (firstn_neg (N / 2) v), argmax_abs_neg, firstn_neg. apply lsum_neg.
Qed.

(* ---- what np.argmax(np.abs(.)) returns *)
Lemma get_app1 (l1 l2 : list Q) i : (i < length l1)%nat -> get (l1 ++ l2) i = get l1 i.
Proof. unfold get. intros H. apply app_nth1. exact H. Qed.
Lemma get_app_mid (l1 l2 : list Q) a : get (l1 ++ a :: l2) (length l1) = a.
Proof. unfold get. rewrite app_nth2 by lia. rewrite Nat.sub_diag. reflexivity. Qed.

Lemma Qle_bool_false a b : Qle_bool a b = false -> b < a.
Proof. intros H. apply Qnot_le_lt. intros C. apply Qle_bool_iff in C. congruence. Qed.

Lemma argmax_abs_from_spec : forall l pre bi bv,
  (bi < length pre)%nat ->
  bv == Qabsq (get pre bi) ->
  (forall i, (i < length pre)%nat -> Qabsq (get pre i) <= bv) ->
  (forall i, (i < bi)%nat -> Qabsq (get pre i) < bv) ->
  let p := argmax_abs_from l (length pre) bi bv in
  (p < length (pre ++ l))%nat /\
  (forall i, (i < length (pre ++ l))%nat -> Qabsq (get (pre ++ l) i) <= Qabsq (get (pre ++ l) p)) /\
  (forall i, (i < p)%nat -> Qabsq (get (pre ++ l) i) < Qabsq (get (pre ++ l) p)).
Proof.
  induction l as [|a l IH]; intros pre bi bv Hbi Hbv Hle Hlt; cbn [argmax_abs_from].
  - rewrite app_nil_r. split; [exact Hbi|]. split.
    + intros i Hi. rewrite <- Hbv. apply Hle. exact Hi.
    + intros i Hi. rewrite <- Hbv. apply Hlt. exact Hi.
  - assert (Lp : length (pre ++ [a]) = S (length pre)) by (rewrite app_length; simpl; lia).
    assert (Eq : pre ++ a :: l = (pre ++ [a]) ++ l) by (rewrite <- app_assoc; reflexivity).
    destruct (Qle_bool (Qabsq a) bv) eqn:E.
    + apply Qle_bool_iff in E. rewrite Eq, <- Lp. apply IH.
      * rewrite Lp. lia.
      * rewrite get_app1 by exact Hbi. exact Hbv.
      * intros i Hi. rewrite Lp in Hi. destruct (Nat.eq_dec i (length pre)) as [->|Hne].
        -- rewrite get_app_mid. exact E.
        -- rewrite get_app1 by lia. apply Hle. lia.
      * intros i Hi. rewrite get_app1 by lia. apply Hlt. exact Hi.
    + apply Qle_bool_false in E. rewrite Eq, <- Lp. apply IH.
      * rewrite Lp. lia.
      * rewrite get_app_mid. reflexivity.
      * intros i Hi. rewrite Lp in Hi. destruct (Nat.eq_dec i (length pre)) as [->|Hne].
        -- rewrite get_app_mid. apply Qle_refl.
        -- rewrite get_app1 by lia. apply Qlt_le_weak. apply (Qle_lt_trans _ bv); [apply Hle; lia|exact E].
      * intros i Hi. rewrite get_app1 by lia. apply (Qle_lt_trans _ bv); [apply Hle; lia|exact E].
Qed.

(* np.argmax(np.abs(l)) : the FIRST index at which |l| is largest *)
Theorem argmax_abs_spec l :
  l <> [] ->
  (argmax_abs l < length l)%nat /\
  (forall i, (i < length l)%nat -> Qabsq (get l i) <= Qabsq (get l (argmax_abs l))) /\
  (forall i, (i < argmax_abs l)%nat -> Qabsq (get l i) < Qabsq (get l (argmax_abs l))).
Proof.
  destruct l as [|a l]; [congruence|]. intros _. unfold argmax_abs.
  apply (argmax_abs_from_spec l [a] 0%nat (Qabsq a)).
  - simpl; lia.
  - reflexivity.
  - intros i Hi. simpl in Hi. replace i with 0%nat by lia. apply Qle_refl.
  - intros i Hi. lia.
Qed.

Lemma fix_even_cases v : fix_even v = v \/ fix_even v = neg v.
Proof. unfold fix_even. destruct (is_neg (lsum v)); auto. Qed.
Lemma fix_odd_cases N v : fix_odd N v = v \/ fix_odd N v = neg v.
Proof. unfold fix_odd. destruct (is_neg (lobe N v)); auto. Qed.

Lemma fix_even_nonneg v : 0 <= lsum (fix_even v).
Proof.
  unfold fix_even. destruct (is_neg (lsum v)) eqn:E.
  - apply is_neg_true in E. rewrite lsum_neg. lra.
  - apply is_neg_false. exact E.
Qed.

Lemma fix_odd_nonneg N v : 0 <= lobe N (fix_odd N v).
Proof.
  unfold fix_odd. destruct (is_neg (lobe N v)) eqn:E.
  - apply is_neg_true in E. rewrite lobe_neg. lra.
  - apply is_neg_false. exact E.
Qed.

Lemma fix_signs_from_nth N rows : forall k0 i v',
  nth_error (fix_signs_from N k0 rows) i = Some v' ->
  exists v, nth_error rows i = Some v /\
            v' = (if Nat.even (k0 + i) then fix_even v else fix_odd N v).
Proof.
  induction rows as [|r rows IH]; intros k0 [|i] v' H; simpl in H; try discriminate.
  - injection H as <-. exists r. rewrite Nat.add_0_r. split; reflexivity.
  - destruct (IH (S k0) i v' H) as (v & Hv & E). exists v. split; [exact Hv|].
    rewrite Nat.add_succ_r. exact E.
Qed.

(* after the flips: row k is the original row or its negative; even rows have a non-negative sum,
   odd rows a non-negative partial sum up to the first largest peak of their own first half
   (the test the code applies, re-evaluated on the result); norm and length are kept *)
Theorem fix_sign_spec N rows k v' :
  nth_error (fix_signs N rows) k = Some v' ->
  exists v, nth_error rows k = Some v /\
    (v' = v \/ v' = neg v) /\
    (Nat.even k = true -> 0 <= lsum v') /\
    (Nat.even k = false -> 0 <= lobe N v') /\
    sumsq v' == sumsq v /\ length v' = length v.
Proof.
  unfold fix_signs. intros H.
  destruct (fix_signs_from_nth N rows 0 k v' H) as (v & Hv & E). simpl in E.
  exists v. split; [exact Hv|].
  assert (C : v' = v \/ v' = neg v).
  { subst v'. destruct (Nat.even k); [apply fix_even_cases|apply fix_odd_cases]. }
  split; [exact C|]. repeat split.
  - intros Ev. rewrite Ev in E. subst v'. apply fix_even_nonneg.
  - intros Ev. rewrite Ev in E. subst v'. apply fix_odd_nonneg.
  - destruct C as [-> | ->]; [reflexivity|apply sumsq_neg].
  - destruct C as [-> | ->]; [reflexivity|apply neg_length].
Qed.

Lemma fix_signs_length N rows : length (fix_signs N rows) = length rows.
Proof.
  unfold fix_signs. generalize 0%nat. induction rows as [|r rows IH]; intros k; simpl; auto.
Qed.

(* a flip keeps the eigen-relation (any matrix, any eigenvalue) and orthogonality *)
Theorem neg_eigen (S : nat -> nat -> Q) v lam N :
  (forall i, (i < N)%nat -> matvec S (get v) N i == lam * get v i) ->
  forall i, (i < N)%nat -> matvec S (get (neg v)) N i == lam * get (neg v) i.
Proof.
  intros H i Hi. unfold matvec in *.
  assert (E : sumn (fun j => S i j * get (neg v) j) N == (- (1)) * sumn (fun j => S i j * get v j) N).
  { rewrite <- sumn_scal. apply sumn_ext. intros j _. rewrite get_neg. ring. }
  rewrite E, (H i Hi), get_neg. ring.
Qed.

Lemma dot_neg_l u v : dot (neg u) v == - dot u v.
Proof.
  unfold dot. rewrite neg_length, !sumn_r_eq.
  assert (E : sumn (fun k => get (neg u) k * get v k) (length u)
              == (- (1)) * sumn (fun k => get u k * get v k) (length u)).
  { rewrite <- sumn_scal. apply sumn_ext. intros j _. rewrite get_neg. ring. }
  rewrite E. ring.
Qed.

(* ---------------------------------------------------------------- concentration = quadratic form *)
Definition A (v : nat -> Q) (N n : nat) : Q := sumn (fun t => v (t + n)%nat * v t) (N - n).

Lemma acorr_A v N n : acorr v N n == A v N n.
Proof. apply sumn_r_eq. Qed.

Lemma A_succ v N n : (n <= N)%nat -> A v (S N) n == A v N n + v N * v (N - n)%nat.
Proof.
  intros H. unfold A. rewrite Nat.sub_succ_l by exact H. cbn [sumn].
  replace (N - n + n)%nat with N by lia. reflexivity.
Qed.

Lemma A_top v N : A v (S N) N == v N * v 0%nat.
Proof.
  unfold A. replace (S N - N)%nat with 1%nat by lia. cbn [sumn]. simpl (0 + N)%nat. ring.
Qed.

Lemma dist_lt i N : (i < N)%nat -> dist i N = (N - i)%nat.
Proof. unfold dist. lia. Qed.
Lemma dist_gt j N : (j < N)%nat -> dist N j = (N - j)%nat.
Proof. unfold dist. lia. Qed.
Lemma dist_same N : dist N N = 0%nat.
Proof. unfold dist. lia. Qed.

(* general Toeplitz kernel s; weights r with r 0 = s 0 and r n = 2 s n (n > 0) *)
Lemma conc_quad_gen (s r v : nat -> Q) :
  r 0%nat == s 0%nat -> (forall n, r (S n) == 2 * s (S n)) ->
  forall N, sumn (fun n => A v N n * r n) N == quadform (fun i j => s (dist i j)) v N.
Proof.
  intros H0 Hn. induction N as [|N IH]; [reflexivity|].
  set (T := sumn (fun j => v N * s (N - j)%nat * v j) N).
  (* left side *)
  assert (L : sumn (fun n => A v (S N) n * r n) (S N)
              == sumn (fun n => A v N n * r n) N + (v N * v N * s 0%nat + 2 * T)).
  { cbn [sumn].
    assert (L1 : sumn (fun n => A v (S N) n * r n) N
                 == sumn (fun n => A v N n * r n) N + sumn (fun n => v N * v (N - n)%nat * r n) N).
    { rewrite <- sumn_plus. apply sumn_ext. intros n Hn'. rewrite A_succ by lia. ring. }
    rewrite L1, A_top.
    assert (L2 : sumn (fun n => v N * v (N - n)%nat * r n) N + v N * v 0%nat * r N
                 == sumn (fun n => v N * v (N - n)%nat * r n) (1 + N)).
    { change (1 + N)%nat with (S N). cbn [sumn]. replace (N - N)%nat with 0%nat by lia. reflexivity. }
    rewrite <- Qplus_assoc, L2.
    rewrite (sumn_split (fun n => v N * v (N - n)%nat * r n) 1 N). cbn [sumn].
    replace (N - 0)%nat with N by lia. rewrite H0.
    assert (L3 : sumn (fun k => v N * v (N - (1 + k))%nat * r (1 + k)%nat) N == 2 * T).
    { unfold T. rewrite (sumn_rev (fun j => v N * s (N - j)%nat * v j) N).
      rewrite <- sumn_scal. apply sumn_ext. intros k Hk.
      change (1 + k)%nat with (S k). rewrite Hn.
      replace (N - (N - 1 - k))%nat with (S k) by lia.
      replace (N - S k)%nat with (N - 1 - k)%nat by lia. ring. }
    rewrite L3. ring. }
  (* right side *)
  assert (R : quadform (fun i j => s (dist i j)) v (S N)
              == quadform (fun i j => s (dist i j)) v N + (T + T + v N * s 0%nat * v N)).
  { unfold quadform. cbn [sumn].
    assert (R1 : sumn (fun i => sumn (fun j => v i * s (dist i j) * v j) N + v i * s (dist i N) * v N) N
                 == sumn (fun i => sumn (fun j => v i * s (dist i j) * v j) N) N + T).
    { rewrite sumn_plus. apply Qplus_comp; [reflexivity|].
      unfold T. apply sumn_ext. intros i Hi. rewrite dist_lt by exact Hi. ring. }
    assert (R2 : sumn (fun j => v N * s (dist N j) * v j) N == T).
    { unfold T. apply sumn_ext. intros j Hj. rewrite dist_gt by exact Hj. reflexivity. }
    rewrite R1, R2, dist_same. ring. }
  rewrite L, R, IH. ring.
Qed.

Lemma conc_sumn W sinc v N :
  conc W sinc v N == sumn (fun n => A v N n * rvec W sinc n) N.
Proof.
  unfold conc. rewrite sumn_r_eq. apply sumn_ext. intros n _. rewrite acorr_A. reflexivity.
Qed.

(* the number computed through the autocorrelation sequence IS v^T S v for the sinc kernel — any v *)
Theorem concentration_is_quadratic_form W sinc v N :
  sinc 0%nat == 1 ->
  conc W sinc v N == quadform (sinc_kernel W sinc) v N.
Proof.
  intros H0. rewrite conc_sumn.
  rewrite (conc_quad_gen (fun n => 2 * W * sinc n) (rvec W sinc) v).
  - reflexivity.
  - cbn [rvec]. rewrite H0. ring.
  - intros n. cbn [rvec]. ring.
Qed.

(* ... hence for a unit-norm eigenvector it is the eigenvalue *)
Theorem quadform_eigen (S : nat -> nat -> Q) v lam N :
  (forall i, (i < N)%nat -> matvec S v N i == lam * v i) ->
  sumn (fun i => v i * v i) N == 1 ->
  quadform S v N == lam.
Proof.
  intros He Hn. unfold quadform.
  assert (E : sumn (fun i => sumn (fun j => v i * S i j * v j) N) N
              == lam * sumn (fun i => v i * v i) N).
  { rewrite <- sumn_scal. apply sumn_ext. intros i Hi.
    assert (E1 : sumn (fun j => v i * S i j * v j) N == v i * matvec S v N i).
    { unfold matvec. rewrite <- sumn_scal. apply sumn_ext. intros j _. ring. }
    rewrite E1, (He i Hi). ring. }
  rewrite E, Hn. ring.
Qed.

Theorem conc_of_unit_eigenvector W sinc v lam N :
  sinc 0%nat == 1 ->
  (forall i, (i < N)%nat -> matvec (sinc_kernel W sinc) v N i == lam * v i) ->
  sumn (fun i => v i * v i) N == 1 ->
  conc W sinc v N == lam.
Proof.
  intros H0 He Hn. rewrite (concentration_is_quadratic_form W sinc v N H0).
  apply quadform_eigen; assumption.
Qed.

(* the sinc kernel is symmetric (Toeplitz in |i-j|) *)
Lemma sinc_kernel_sym W sinc i j : sinc_kernel W sinc i j = sinc_kernel W sinc j i.
Proof. unfold sinc_kernel, dist. f_equal. f_equal. lia. Qed.

(* the pipeline after the inverse iterations, under the (unproved) hypothesis that they deliver
   unit eigenvectors of the sinc kernel *)
Theorem dpss_pipeline_partial N W sinc rows k v' lam :
  sinc 0%nat == 1 ->
  nth_error (fix_signs N rows) k = Some v' ->
  (forall v, nth_error rows k = Some v ->
     (forall i, (i < N)%nat -> matvec (sinc_kernel W sinc) (get v) N i == lam * get v i) /\
     sumn (fun i => get v i * get v i) N == 1) ->
  (forall i, (i < N)%nat -> matvec (sinc_kernel W sinc) (get v') N i == lam * get v' i) /\
  sumn (fun i => get v' i * get v' i) N == 1 /\
  conc W sinc (get v') N == lam /\
  (Nat.even k = true -> 0 <= lsum v') /\ (Nat.even k = false -> 0 <= lobe N v').
Proof.
  intros H0 Hn Hyp.
  destruct (fix_sign_spec N rows k v' Hn) as (v & Hv & C & He & Ho & _ & _).
  destruct (Hyp v Hv) as (Heig & Hnorm).
  assert (Heig' : forall i, (i < N)%nat -> matvec (sinc_kernel W sinc) (get v') N i == lam * get v' i).
  { destruct C as [-> | ->]; [exact Heig|]. apply neg_eigen. exact Heig. }
  assert (Hnorm' : sumn (fun i => get v' i * get v' i) N == 1).
  { destruct C as [-> | ->]; [exact Hnorm|]. rewrite <- Hnorm. apply sumn_ext.
    intros i _. rewrite get_neg. ring. }
  split; [exact Heig'|]. split; [exact Hnorm'|]. split; [|split; assumption].
  apply conc_of_unit_eigenvector; assumption.
Qed.

(* ---------------------------------------------------------------- low_bias selection *)
Lemma combine_nil_r {A B} (l : list A) : combine l (@nil B) = [].
Proof. destruct l; reflexivity. Qed.

Lemma select_combine {A B} (m : list bool) : forall (l1 : list A) (l2 : list B),
  combine (select m l1) (select m l2) = select m (combine l1 l2).
Proof.
  induction m as [|b m IH]; intros l1 l2; [reflexivity|].
  destruct l1 as [|a l1]; [reflexivity|].
  destruct l2 as [|c l2]; [cbn [select combine]; apply combine_nil_r|].
  cbn [select combine]. destruct b; cbn [combine]; rewrite IH; reflexivity.
Qed.

Lemma select_map_filter {A} (f : Q -> bool) (ev : list Q) : forall (l : list A),
  select (map f ev) (combine l ev) = filter (fun pr => f (snd pr)) (combine l ev).
Proof.
  induction ev as [|x ev IH]; intros l.
  - rewrite combine_nil_r. reflexivity.
  - destruct l as [|a l]; [reflexivity|].
    cbn [map combine select filter snd]. destruct (f x); rewrite IH; reflexivity.
Qed.

(* the (taper, eigenvalue) pairs kept are exactly those with eigenvalue > 0.9, in their order *)
Theorem low_bias_filter {A} (dpss : list A) ev :
  combine (fst (low_bias dpss ev)) (snd (low_bias dpss ev))
  = filter (fun pr => gtb thr09 (snd pr)) (combine dpss ev).
Proof.
  unfold low_bias, mask09. cbn [fst snd]. rewrite select_combine. apply select_map_filter.
Qed.

Lemma gtb_spec thr x : gtb thr x = true <-> thr < x.
Proof.
  unfold gtb. rewrite negb_true_iff. split; intros H.
  - apply Qnot_le_lt. intros C. apply Qle_bool_iff in C. congruence.
  - destruct (Qle_bool x thr) eqn:E; [|reflexivity].
    apply Qle_bool_iff in E. exfalso. apply (Qlt_not_le _ _ H). exact E.
Qed.

Theorem low_bias_exact {A} (dpss : list A) ev v lam :
  In (v, lam) (combine (fst (low_bias dpss ev)) (snd (low_bias dpss ev)))
  <-> In (v, lam) (combine dpss ev) /\ thr09 < lam.
Proof.
  rewrite low_bias_filter, filter_In. cbn [snd]. rewrite gtb_spec. tauto.
Qed.

Lemma select_all_false {A} thr (ev : list Q) : forall (l : list A),
  (forall x, In x ev -> gtb thr x = false) -> select (map (gtb thr) ev) l = [].
Proof.
  induction ev as [|x ev IH]; intros l H; [reflexivity|].
  destruct l as [|a l]; [reflexivity|].
  cbn [map select]. rewrite (H x (or_introl eq_refl)). apply IH. intros y Hy. apply H. right. exact Hy.
Qed.

Lemma desc_tail a l : desc (a :: l) -> desc l.
Proof.
  unfold desc, get. intros H i j Hij. apply (H (S i) (S j)). simpl. lia.
Qed.

Lemma desc_head a l x : desc (a :: l) -> In x l -> x <= a.
Proof.
  unfold desc, get. intros H Hx. destruct (In_nth l x 0 Hx) as (j & Hj & E).
  specialize (H 0%nat (S j)). simpl in H. rewrite E in H. apply H. lia.
Qed.

(* when the eigenvalues are non-increasing the kept tapers are a prefix: the first K' of them *)
Theorem low_bias_prefix {A} (ev : list Q) : forall (l : list A),
  desc ev ->
  select (mask09 ev) l = firstn (length (select (mask09 ev) l)) l.
Proof.
  unfold mask09. induction ev as [|x ev IH]; intros l Hd.
  - reflexivity.
  - destruct l as [|a l]; [reflexivity|].
    cbn [map select]. destruct (gtb thr09 x) eqn:E.
    + cbn [length firstn]. f_equal. apply IH. apply (desc_tail x). exact Hd.
    + rewrite select_all_false; [reflexivity|].
      intros y Hy. pose proof (desc_head x ev y Hd Hy) as Hle.
      destruct (gtb thr09 y) eqn:Ey; [|reflexivity].
      apply gtb_spec in Ey.
      assert (Hx : gtb thr09 x = true) by (apply gtb_spec; lra). congruence.
Qed.

(* ---------------------------------------------------------------- rescaling of interpolated tapers *)
Lemma rescale_sumsq v nrm : ~ nrm == 0 -> sumsq (rescale v nrm) * (nrm * nrm) == sumsq v.
Proof.
  intros Hn. induction v as [|a v IH]; [reflexivity|].
  unfold rescale in *. cbn [map]. rewrite !sumsq_cons.
  rewrite Qmult_plus_distr_l, IH. field. exact Hn.
Qed.

(* dividing by a value whose square is the sum of squares (what sqrt returns, exactly) gives unit norm *)
Theorem rescale_unit_norm v nrm :
  nrm * nrm == sumsq v -> ~ nrm == 0 -> sumsq (rescale v nrm) == 1.
Proof.
  intros Hs Hn. pose proof (rescale_sumsq v nrm Hn) as H. rewrite <- Hs in H.
  assert (Hnn : ~ nrm * nrm == 0).
  { intros C. apply Qmult_integral in C. destruct C; contradiction. }
  apply (Qmult_inj_r _ _ (nrm * nrm) Hnn). rewrite H. ring.
Qed.

(* ---------------------------------------------------------------- centro-symmetry of the set-up *)
Lemma qn_sub a b : (b <= a)%nat -> qn (a - b) == qn a - qn b.
Proof.
  intros H. unfold qn. rewrite Nat2Z.inj_sub by exact H.
  unfold Z.sub. rewrite inject_Z_plus, inject_Z_opp. ring.
Qed.
Lemma qn_S a : qn (S a) == qn a + 1.
Proof. unfold qn. rewrite Nat2Z.inj_succ. unfold Z.succ. rewrite inject_Z_plus. reflexivity. Qed.

Theorem setup_centrosymmetric N c k :
  (k < N)%nat ->
  diag_entry N c k == diag_entry N c (N - 1 - k) /\
  ((S k < N)%nat -> offdiag_entry N k == offdiag_entry N (N - 2 - k)).
Proof.
  intros Hk. split.
  - unfold diag_entry. rewrite (qn_sub (N - 1) k) by lia. rewrite (qn_sub N 1) by lia.
    change (qn 1) with 1. field.
  - intros Hk1. unfold offdiag_entry.
    replace (S k <? N)%nat with true by (symmetry; apply Nat.ltb_lt; lia).
    replace (S (N - 2 - k) <? N)%nat with true by (symmetry; apply Nat.ltb_lt; lia).
    replace (S (N - 2 - k)) with (N - S k)%nat by lia.
    rewrite (qn_sub N (S k)) by lia. field.
Qed.
