(* Proofs/ARP.v — lemmas about Model/AR.v (property C10). *)
From Coq Require Import QArith List Bool Arith Lia Psatz Setoid Morphisms.
From NT Require Import QC AR.
Import ListNotations.
Open Scope Q_scope.

(* ------------------------------------------------------------------ helpers on Q[i] and sums *)
Lemma cr_eq z : cr z =c= z.
Proof. split; unfold cr, re, im; simpl; apply Qred_correct. Qed.

Global Instance re_proper : Proper (ceq ==> Qeq) re.
Proof. intros a b [E _]. exact E. Qed.
Global Instance im_proper : Proper (ceq ==> Qeq) im.
Proof. intros a b [_ E]. exact E. Qed.
Global Instance ofQ_proper : Proper (Qeq ==> ceq) ofQ.
Proof. intros a b E. split; unfold ofQ, re, im; simpl; [exact E|reflexivity]. Qed.
Global Instance cdivq_proper : Proper (ceq ==> Qeq ==> ceq) cdivq.
Proof. intros a a' [E1 E2] b b' Eb. split; unfold cdivq, re, im in *; simpl; rewrite ?E1, ?E2, Eb; reflexivity. Qed.
Global Instance cinv_proper : Proper (ceq ==> ceq) cinv.
Proof. intros a b E. pose proof (cnorm2_proper _ _ E) as N. destruct E as [E1 E2].
  split; unfold cinv; cbn [re im fst snd]; unfold re, im in *; rewrite ?E1, ?E2, N; reflexivity. Qed.
Global Instance cdiv_proper : Proper (ceq ==> ceq ==> ceq) cdiv.
Proof. intros a a' Ea b b' Eb. unfold cdiv. rewrite Ea, Eb. reflexivity. Qed.

Lemma csumn_S f n : csumn f (S n) = cadd (csumn f n) (f n). Proof. reflexivity. Qed.
Lemma csumn_shift f n : csumn f (S n) =c= cadd (f 0%nat) (csumn (fun k => f (S k)) n).
Proof. induction n; [simpl; cring|]. rewrite csumn_S, IHn. rewrite (csumn_S (fun k => f (S k))). cring. Qed.
Lemma csumn_rev f n : csumn f n =c= csumn (fun k => f (n - 1 - k)%nat) n.
Proof.
  revert f; induction n; intros f; [reflexivity|].
  rewrite csumn_shift. rewrite (IHn (fun k => f (S k))). rewrite csumn_S.
  replace (S n - 1 - n)%nat with 0%nat by lia.
  rewrite cadd_comm. apply cadd_proper; [|reflexivity].
  apply csumn_ext; intros k Hk. replace (S (n - 1 - k)) with (S n - 1 - k)%nat by lia. reflexivity.
Qed.
Lemma csumn_sub f g n : csumn (fun k => csub (f k) (g k)) n =c= csub (csumn f n) (csumn g n).
Proof. induction n; simpl; [cring|]. rewrite IHn. cring. Qed.
Lemma csumn_mul_r c f n : csumn (fun k => cmul (f k) c) n =c= cmul (csumn f n) c.
Proof. induction n; simpl; [cring|]. rewrite IHn. cring. Qed.
Lemma csumn_zero n : csumn (fun _ => c0) n =c= c0.
Proof. induction n; simpl; [reflexivity|]. rewrite IHn. cring. Qed.

Lemma cconj_sub a b : cconj (csub a b) =c= csub (cconj a) (cconj b). Proof. cring. Qed.
Lemma cconj_ofQ q : cconj (ofQ q) =c= ofQ q. Proof. cring. Qed.
Lemma real_conj z : im z == 0 -> cconj z =c= z.
Proof. intros H. split; unfold cconj, re, im in *; simpl; [reflexivity|rewrite H; reflexivity]. Qed.

Lemma cdivq_scale z b : ~ b == 0 -> cscale b (cdivq z b) =c= z.
Proof. intros H. split; unfold cscale, cdivq, re, im; simpl; field; exact H. Qed.

(* ------------------------------------------------------------------ list helpers *)
Lemma nth_map_seq {A} (f : nat -> A) n j d : (j < n)%nat -> nth j (map f (seq 0 n)) d = f j.
Proof. intros H. rewrite (nth_indep _ d (f 0%nat)) by (rewrite map_length, seq_length; exact H).
  rewrite map_nth, seq_nth by exact H. reflexivity. Qed.
Lemma nth_firstn_lt {A} (l : list A) n k d : (k < n)%nat -> nth k (firstn n l) d = nth k l d.
Proof. revert n k; induction l as [|a l IH]; intros n k H; [rewrite firstn_nil; reflexivity|].
  destruct n; [lia|]. destruct k; simpl; [reflexivity|]. apply IH; lia. Qed.
Lemma nth_skipn_add {A} (l : list A) n k d : nth k (skipn n l) d = nth (n + k) l d.
Proof. revert l; induction n; intros l; [reflexivity|]. destruct l; simpl; [destruct k; reflexivity|]. apply IHn. Qed.
Lemma nth_tl {A} (l : list A) k d : nth k (tl l) d = nth (S k) l d.
Proof. destruct l; simpl; [destruct k; reflexivity|reflexivity]. Qed.

(* ------------------------------------------------------------------ the recursion as functions of the order *)
(* (a, b, k) of order p: a j = a_{j+1}^{(p)} for j < p, b = b_p, k = k_p (reflection coefficient) *)
Fixpoint ldspec (R : nat -> C) (p : nat) : (nat -> C) * Q * C :=
  match p with
  | O => (fun _ => c0, re (R 0%nat), c0)
  | S q =>
      let '(a, b, _) := ldspec R q in
      let k := cdivq (csub (R (S q)) (csumn (fun j => cmul (a j) (R (q - j)%nat)) q)) b in
      (fun j => if (j <? q)%nat then csub (a j) (cmul k (cconj (a (q - 1 - j)%nat)))
                else if (j =? q)%nat then k else c0,
       b * (1 - cnorm2 k), k)
  end.
Definition sa R p := fst (fst (ldspec R p)).
Definition sb R p := snd (fst (ldspec R p)).
Definition sk R p := snd (ldspec R p).

Lemma sk_S R q : sk R (S q) = cdivq (csub (R (S q)) (csumn (fun j => cmul (sa R q j) (R (q - j)%nat)) q)) (sb R q).
Proof. unfold sk, sa, sb. simpl. destruct (ldspec R q) as [[a b] k]. reflexivity. Qed.
Lemma sb_S R q : sb R (S q) = sb R q * (1 - cnorm2 (sk R (S q))).
Proof. unfold sk, sa, sb. simpl. destruct (ldspec R q) as [[a b] k]. reflexivity. Qed.
Lemma sa_S R q j : sa R (S q) j =
  if (j <? q)%nat then csub (sa R q j) (cmul (sk R (S q)) (cconj (sa R q (q - 1 - j)%nat)))
  else if (j =? q)%nat then sk R (S q) else c0.
Proof. unfold sk, sa, sb. simpl. destruct (ldspec R q) as [[a b] k]. reflexivity. Qed.
Lemma sa_S_lt R q j : (j < q)%nat -> sa R (S q) j = csub (sa R q j) (cmul (sk R (S q)) (cconj (sa R q (q - 1 - j)%nat))).
Proof. intros H. rewrite sa_S. replace (j <? q)%nat with true by (symmetry; apply Nat.ltb_lt; exact H). reflexivity. Qed.
Lemma sa_S_eq R q : sa R (S q) q = sk R (S q).
Proof. rewrite sa_S. rewrite Nat.ltb_irrefl, Nat.eqb_refl. reflexivity. Qed.
Lemma sb_0 R : sb R 0 = re (R 0%nat). Proof. reflexivity. Qed.

(* R_{i-j} with R_{-m} = conj R_m *)
Definition Rlag (R : nat -> C) (i j : nat) : C := if (j <=? i)%nat then R (i - j)%nat else cconj (R (j - i)%nat).

Lemma Rlag_flip R q i j : im (R 0%nat) == 0 -> (i < q)%nat -> (j < q)%nat ->
  Rlag R i (q - 1 - j) =c= cconj (Rlag R (q - 1 - i) j).
Proof.
  intros H0 Hi Hj. unfold Rlag.
  destruct (q - 1 - j <=? i)%nat eqn:E1; destruct (j <=? q - 1 - i)%nat eqn:E2;
    try apply Nat.leb_le in E1; try apply Nat.leb_le in E2;
    try apply Nat.leb_gt in E1; try apply Nat.leb_gt in E2.
  - assert (j = q - 1 - i)%nat by lia. subst j.
    replace (i - (q - 1 - (q - 1 - i)))%nat with 0%nat by lia.
    replace (q - 1 - i - (q - 1 - i))%nat with 0%nat by lia. symmetry. apply real_conj; exact H0.
  - rewrite cconj_invol. replace (i - (q - 1 - j))%nat with (j - (q - 1 - i))%nat by lia. reflexivity.
  - replace (q - 1 - j - i)%nat with (q - 1 - i - j)%nat by lia. reflexivity.
  - lia.
Qed.

(* the two invariants of the recursion *)
Definition normal_eqs (R : nat -> C) (a : nat -> C) (p : nat) : Prop :=
  forall i, (i < p)%nat -> csumn (fun j => cmul (a j) (Rlag R i j)) p =c= R (S i).
Definition sigma_eq (R : nat -> C) (a : nat -> C) (b : Q) (p : nat) : Prop :=
  ofQ b =c= csub (R 0%nat) (csumn (fun j => cmul (a j) (cconj (R (S j)))) p).

(* sum over the updated coefficients: sum_{j<q} a'_j f_j + k f_q *)
Lemma sum_sa_S R q (f : nat -> C) :
  csumn (fun j => cmul (sa R (S q) j) (f j)) (S q) =c=
  cadd (csub (csumn (fun j => cmul (sa R q j) (f j)) q)
             (cmul (sk R (S q)) (csumn (fun j => cmul (cconj (sa R q (q - 1 - j)%nat)) (f j)) q)))
       (cmul (sk R (S q)) (f q)).
Proof.
  rewrite csumn_S. rewrite sa_S_eq. apply cadd_proper; [|reflexivity].
  rewrite <- csumn_mul_l, <- csumn_sub. apply csumn_ext; intros j Hj.
  rewrite sa_S_lt by exact Hj. cring.
Qed.

Lemma ld_step_invariants R q :
  im (R 0%nat) == 0 -> ~ sb R q == 0 ->
  normal_eqs R (sa R q) q -> sigma_eq R (sa R q) (sb R q) q ->
  normal_eqs R (sa R (S q)) (S q) /\ sigma_eq R (sa R (S q)) (sb R (S q)) (S q).
Proof.
  intros H0 Hb HN HS.
  (* k * b = R_{q+1} - sum a_j R_{q-j} *)
  assert (K : cscale (sb R q) (sk R (S q)) =c= csub (R (S q)) (csumn (fun j => cmul (sa R q j) (R (q - j)%nat)) q)).
  { rewrite sk_S. apply cdivq_scale; exact Hb. }
  (* reversed sums *)
  assert (RevA : csumn (fun j => cmul (cconj (sa R q (q - 1 - j)%nat)) (R (q - j)%nat)) q =c=
                 csub (R 0%nat) (ofQ (sb R q))).
  { rewrite (csumn_rev _ q).
    transitivity (cconj (csumn (fun j => cmul (sa R q j) (cconj (R (S j)))) q)).
    - rewrite csumn_conj. apply csumn_ext; intros j Hj.
      replace (q - 1 - (q - 1 - j))%nat with j by lia. replace (q - (q - 1 - j))%nat with (S j) by lia.
      rewrite cconj_mul, cconj_invol. reflexivity.
    - unfold sigma_eq in HS.
      assert (E : csumn (fun j => cmul (sa R q j) (cconj (R (S j)))) q =c= csub (R 0%nat) (ofQ (sb R q))).
      { rewrite HS. cring. }
      rewrite E, cconj_sub, cconj_ofQ, (real_conj _ H0). reflexivity. }
  split.
  - intros i Hi. rewrite sum_sa_S.
    destruct (Nat.eq_dec i q) as [->|Hne].
    + (* last row *)
      assert (E1 : csumn (fun j => cmul (sa R q j) (Rlag R q j)) q =c= csumn (fun j => cmul (sa R q j) (R (q - j)%nat)) q).
      { apply csumn_ext; intros j Hj. unfold Rlag. replace (j <=? q)%nat with true by (symmetry; apply Nat.leb_le; lia). reflexivity. }
      assert (E2 : csumn (fun j => cmul (cconj (sa R q (q - 1 - j)%nat)) (Rlag R q j)) q =c= csub (R 0%nat) (ofQ (sb R q))).
      { rewrite <- RevA. apply csumn_ext; intros j Hj. unfold Rlag. replace (j <=? q)%nat with true by (symmetry; apply Nat.leb_le; lia). reflexivity. }
      assert (E3 : Rlag R q q =c= R 0%nat).
      { unfold Rlag. rewrite Nat.leb_refl, Nat.sub_diag. reflexivity. }
      rewrite E1, E2, E3.
      transitivity (cadd (csumn (fun j => cmul (sa R q j) (R (q - j)%nat)) q) (cscale (sb R q) (sk R (S q)))).
      * cring.
      * rewrite K. cring.
    + assert (Hlt : (i < q)%nat) by lia.
      rewrite (HN i Hlt).
      assert (E2 : csumn (fun j => cmul (cconj (sa R q (q - 1 - j)%nat)) (Rlag R i j)) q =c= cconj (R (q - i)%nat)).
      { rewrite (csumn_rev _ q).
        transitivity (cconj (csumn (fun j => cmul (sa R q j) (Rlag R (q - 1 - i) j)) q)).
        - rewrite csumn_conj. apply csumn_ext; intros j Hj.
          replace (q - 1 - (q - 1 - j))%nat with j by lia.
          rewrite (Rlag_flip R q i j H0 Hlt Hj). rewrite cconj_mul. reflexivity.
        - rewrite (HN (q - 1 - i)%nat) by lia. replace (S (q - 1 - i)) with (q - i)%nat by lia. reflexivity. }
      assert (E3 : Rlag R i q =c= cconj (R (q - i)%nat)).
      { unfold Rlag. replace (q <=? i)%nat with false by (symmetry; apply Nat.leb_gt; lia). reflexivity. }
      rewrite E2, E3. cring.
  - unfold sigma_eq. rewrite sum_sa_S, sb_S.
    assert (E2 : csumn (fun j => cmul (cconj (sa R q (q - 1 - j)%nat)) (cconj (R (S j)))) q =c=
                 cconj (csumn (fun j => cmul (sa R q j) (R (q - j)%nat)) q)).
    { rewrite csumn_conj. rewrite (csumn_rev _ q). apply csumn_ext; intros j Hj.
      replace (q - 1 - (q - 1 - j))%nat with j by lia. replace (S (q - 1 - j)) with (q - j)%nat by lia.
      rewrite cconj_mul. reflexivity. }
    rewrite E2. unfold sigma_eq in HS.
    assert (E1 : csumn (fun j => cmul (sa R q j) (cconj (R (S j)))) q =c= csub (R 0%nat) (ofQ (sb R q))).
    { rewrite HS. cring. }
    rewrite E1.
    assert (E3 : csumn (fun j => cmul (sa R q j) (R (q - j)%nat)) q =c= csub (R (S q)) (cscale (sb R q) (sk R (S q)))).
    { rewrite K. cring. }
    rewrite E3. generalize (sk R (S q)) (R (S q)) (R 0%nat) (sb R q). intros k r1 r0 b. cring.
Qed.

Lemma ld_invariants R p :
  im (R 0%nat) == 0 -> (forall q, (q < p)%nat -> ~ sb R q == 0) ->
  normal_eqs R (sa R p) p /\ sigma_eq R (sa R p) (sb R p) p.
Proof.
  intros H0. induction p as [|p IH]; intros Hb.
  - split; [intros i Hi; lia|]. unfold sigma_eq. simpl. unfold sb; simpl.
    split; unfold ofQ, csub, c0, re, im in *; simpl; [ring|rewrite H0; ring].
  - destruct IH as [HN HS]; [intros q Hq; apply Hb; lia|].
    apply ld_step_invariants; auto.
Qed.

(* b_p > 0 when R_0 > 0 and all reflection coefficients have modulus < 1 *)
Lemma sb_pos R p : 0 < re (R 0%nat) -> (forall q, (1 <= q <= p)%nat -> cnorm2 (sk R q) < 1) -> 0 < sb R p.
Proof.
  intros H0. induction p as [|p IH]; intros Hk; [exact H0|].
  rewrite sb_S. apply Qmult_lt_0_compat; [apply IH; intros q Hq; apply Hk; lia|].
  specialize (Hk (S p) ltac:(lia)). lra.
Qed.

(* ------------------------------------------------------------------ the list model computes the recursion *)
Definition Rf (R : list C) : nat -> C := nthC R.
(* state after the loop body has run for p = 2 .. n+1 *)
Definition ld_state (R : list C) (n : nat) : ldst := fold_left (ld_step R) (seq 2 n) (ld_init R).

Lemma re_mul_conj k : re (cmul k (cconj k)) == cnorm2 k.
Proof. unfold cmul, cconj, cnorm2, re, im; simpl. ring. Qed.

Lemma ld_state_S R n : ld_state R (S n) = ld_step R (ld_state R n) (2 + n).
Proof. unfold ld_state. rewrite seq_S, fold_left_app. reflexivity. Qed.

Lemma ld_state_spec R n :
  length (ld_a (ld_state R n)) = S n /\
  (forall j, (j < S n)%nat -> nthC (ld_a (ld_state R n)) j =c= sa (Rf R) (S n) j) /\
  ld_b (ld_state R n) == sb (Rf R) n /\ ld_k (ld_state R n) =c= sk (Rf R) (S n).
Proof.
  induction n as [|n IH].
  - assert (K : cr (cdivq (nthC R 1) (re (nthC R 0))) =c= sk (Rf R) 1).
    { rewrite cr_eq, sk_S. simpl csumn. rewrite sb_0. unfold Rf. apply cdivq_proper; [cring|reflexivity]. }
    unfold ld_state; simpl. split; [reflexivity|]. split; [|split].
    + intros j Hj. assert (j = 0%nat) by lia. subst j. unfold nthC; simpl. rewrite sa_S_eq. exact K.
    + reflexivity.
    + exact K.
  - destruct IH as (L & A & B & K). rewrite ld_state_S.
    set (s := ld_state R n) in *. set (q := S n) in *.
    unfold ld_step. cbn [ld_a ld_b ld_k].
    replace (2 + n - 1)%nat with q by (unfold q; lia).
    assert (B' : Qred (ld_b s * (1 - re (cmul (ld_k s) (cconj (ld_k s))))) == sb (Rf R) q).
    { rewrite Qred_correct, re_mul_conj, B, K. unfold q. rewrite sb_S. reflexivity. }
    assert (K' : cr (cdivq (csub (nthC R (2 + n)) (ld_dot (ld_a s) R (2 + n)))
                           (Qred (ld_b s * (1 - re (cmul (ld_k s) (cconj (ld_k s))))))) =c= sk (Rf R) (S q)).
    { rewrite cr_eq, sk_S. apply cdivq_proper; [|exact B'].
      apply csub_proper; [unfold Rf, q; reflexivity|].
      unfold ld_dot. replace (2 + n - 1)%nat with q by (unfold q; lia).
      apply csumn_ext; intros j Hj. rewrite (A j Hj). unfold Rf.
      replace (q - j)%nat with (q - j)%nat by reflexivity. reflexivity. }
    set (k' := cr (cdivq _ _)) in *.
    split; [|split; [|split]].
    + rewrite app_length, map_length, seq_length. simpl. lia.
    + intros j Hj. unfold nthC.
      destruct (Nat.eq_dec j q) as [->|Hne].
      * rewrite app_nth2 by (rewrite map_length, seq_length; lia).
        rewrite map_length, seq_length, Nat.sub_diag. simpl. rewrite sa_S_eq. exact K'.
      * assert (Hlt : (j < q)%nat) by lia.
        rewrite app_nth1 by (rewrite map_length, seq_length; exact Hlt).
        rewrite nth_map_seq by exact Hlt. rewrite cr_eq, sa_S_lt by exact Hlt.
        replace (2 + n - 2 - j)%nat with (q - 1 - j)%nat by (unfold q; lia).
        rewrite (A j Hlt), (A (q - 1 - j)%nat) by lia. rewrite K'. reflexivity.
    + exact B'.
    + exact K'.
Qed.

Lemma AR_est_LD_spec R order : (1 <= order)%nat ->
  length (fst (AR_est_LD R order)) = order /\
  (forall j, (j < order)%nat -> nthC (fst (AR_est_LD R order)) j =c= sa (Rf R) order j) /\
  snd (AR_est_LD R order) == sb (Rf R) order.
Proof.
  intros H. unfold AR_est_LD. fold (ld_state R (order - 1)). cbn [fst snd].
  destruct (ld_state_spec R (order - 1)) as (L & A & B & K).
  replace (S (order - 1)) with order in * by lia.
  split; [exact L|]. split; [exact A|].
  rewrite re_mul_conj, B, K. replace order with (S (order - 1)) at 3 by lia. rewrite sb_S.
  replace (S (order - 1)) with order by lia. reflexivity.
Qed.

(* prediction error power of the order-q model; order 0: R_0 *)
Definition ld_err (R : list C) (q : nat) : Q :=
  match q with O => re (nthC R 0) | _ => snd (AR_est_LD R q) end.
Lemma ld_err_sb R q : ld_err R q == sb (Rf R) q.
Proof. destruct q; [reflexivity|]. apply AR_est_LD_spec. lia. Qed.

Lemma toep_Rlag R order i j : (i < order)%nat -> (j < order)%nat ->
  toep (firstn order R) i j = Rlag (Rf R) i j.
Proof. intros Hi Hj. unfold toep, Rlag, Rf, nthC. destruct (j <=? i)%nat; rewrite nth_firstn_lt by lia; reflexivity. Qed.

(* Hermitian Toeplitz normal equations, every order *)
Theorem LD_solves_YW R order :
  (1 <= order < length R)%nat -> im (nthC R 0) == 0 ->
  (forall q, (q < order)%nat -> ~ ld_err R q == 0) ->
  length (fst (AR_est_LD R order)) = order /\
  forall i, (i < order)%nat ->
    matvec order (toep (firstn order R)) (fst (AR_est_LD R order)) i =c= nthC R (S i).
Proof.
  intros Ho H0 Hb. destruct (AR_est_LD_spec R order ltac:(lia)) as (L & A & B).
  split; [exact L|]. intros i Hi.
  destruct (ld_invariants (Rf R) order H0) as [N _].
  { intros q Hq. rewrite <- ld_err_sb. apply Hb; exact Hq. }
  rewrite <- (N i Hi). unfold matvec. apply csumn_ext; intros j Hj.
  rewrite toep_Rlag by assumption. rewrite (A j Hj). apply cmul_comm.
Qed.

Theorem LD_sigma R order :
  (1 <= order < length R)%nat -> im (nthC R 0) == 0 ->
  (forall q, (q < order)%nat -> ~ ld_err R q == 0) ->
  ofQ (snd (AR_est_LD R order)) =c=
  csub (nthC R 0) (csumn (fun j => cmul (nthC (fst (AR_est_LD R order)) j) (cconj (nthC R (S j)))) order).
Proof.
  intros Ho H0 Hb. destruct (AR_est_LD_spec R order ltac:(lia)) as (L & A & B).
  destruct (ld_invariants (Rf R) order H0) as [_ Sg].
  { intros q Hq. rewrite <- ld_err_sb. apply Hb; exact Hq. }
  unfold sigma_eq in Sg. rewrite B, Sg. apply csub_proper; [reflexivity|].
  apply csumn_ext; intros j Hj. rewrite (A j Hj). reflexivity.
Qed.

(* b_p = b_{p-1} (1 - |k_p|^2), k_p = the last coefficient of the order-p model *)
Theorem LD_sigma_step R q :
  snd (AR_est_LD R (S q)) == ld_err R q * (1 - cnorm2 (nthC (fst (AR_est_LD R (S q))) q)).
Proof.
  destruct (AR_est_LD_spec R (S q) ltac:(lia)) as (L & A & B).
  rewrite B, sb_S, ld_err_sb, (A q ltac:(lia)), sa_S_eq. reflexivity.
Qed.

Theorem sigma_pos R order :
  (1 <= order)%nat -> 0 < re (nthC R 0) ->
  (forall q, (1 <= q <= order)%nat -> cnorm2 (nthC (fst (AR_est_LD R q)) (q - 1)) < 1) ->
  0 < snd (AR_est_LD R order).
Proof.
  intros Ho H0 Hk. destruct (AR_est_LD_spec R order Ho) as (_ & _ & B). rewrite B.
  apply sb_pos; [exact H0|]. intros q Hq.
  destruct (AR_est_LD_spec R q ltac:(lia)) as (_ & A & _).
  specialize (Hk q Hq). rewrite (A (q - 1)%nat) in Hk by lia.
  replace q with (S (q - 1)) in Hk at 1 by lia. rewrite sa_S_eq in Hk.
  replace (S (q - 1)) with q in Hk by lia. exact Hk.
Qed.

(* ------------------------------------------------------------------ Yule-Walker by a linear solve *)
(* the n x n system has at most one solution *)
Definition nonsingular (n : nat) (T : nat -> nat -> C) : Prop :=
  forall x y : list C, length x = n -> length y = n ->
    (forall i, (i < n)%nat -> matvec n T x i =c= matvec n T y i) ->
    forall j, (j < n)%nat -> nthC x j =c= nthC y j.

(* x is a solution of the n x n system T x = y *)
Definition solves (n : nat) (T : nat -> nat -> C) (y x : list C) : Prop :=
  length x = n /\ forall i, (i < n)%nat -> matvec n T x i =c= nthC y i.

Lemma YW_parts R order : (1 <= order < length R)%nat ->
  firstn order (firstn (order + 1) R) = firstn order R /\
  (forall i, (i < order)%nat -> nthC (tl (firstn (order + 1) R)) i = nthC R (S i)) /\
  length (tl (firstn (order + 1) R)) = order /\
  nthC (firstn (order + 1) R) 0 = nthC R 0.
Proof.
  intros Ho. repeat split.
  - rewrite firstn_firstn. f_equal. lia.
  - intros i Hi. unfold nthC. rewrite nth_tl, nth_firstn_lt by lia. reflexivity.
  - assert (length (firstn (order + 1) R) = (order + 1)%nat) by (apply firstn_length_le; lia).
    destruct (firstn (order + 1) R); simpl in *; lia.
  - unfold nthC. rewrite nth_firstn_lt by lia. reflexivity.
Qed.

Section YWP.
  Variable solve : nat -> (nat -> nat -> C) -> list C -> list C.
  Variable R : list C.
  Variable order : nat.
  (* contract of scipy.linalg.solve on the call AR_est_YW makes: what it returned solves the system *)
  Hypothesis solve_ok :
    solves order (toep (firstn order R)) (tl (firstn (order + 1) R))
           (solve order (toep (firstn order (firstn (order + 1) R))) (tl (firstn (order + 1) R))).

  Theorem YW_solves :
    (1 <= order < length R)%nat ->
    length (fst (AR_est_YW solve R order)) = order /\
    forall i, (i < order)%nat ->
      matvec order (toep (firstn order R)) (fst (AR_est_YW solve R order)) i =c= nthC R (S i).
  Proof.
    intros Ho. destruct (YW_parts R order Ho) as (E1 & E2 & E3 & E4).
    unfold AR_est_YW. cbn [fst]. destruct solve_ok as [L Sv].
    split; [exact L|]. intros i Hi. rewrite (Sv i Hi), (E2 i Hi). reflexivity.
  Qed.

  (* non-singular system: both estimators return the same coefficients and the same sigma *)
  Theorem YW_eq_LD :
    (1 <= order < length R)%nat -> im (nthC R 0) == 0 ->
    (forall q, (q < order)%nat -> ~ ld_err R q == 0) ->
    nonsingular order (toep (firstn order R)) ->
    (forall j, (j < order)%nat ->
       nthC (fst (AR_est_YW solve R order)) j =c= nthC (fst (AR_est_LD R order)) j) /\
    snd (AR_est_YW solve R order) == snd (AR_est_LD R order).
  Proof.
    intros Ho H0 Hb Hn.
    destruct (YW_solves Ho) as [L1 S1].
    destruct (LD_solves_YW R order Ho H0 Hb) as [L2 S2].
    assert (EQ : forall j, (j < order)%nat ->
       nthC (fst (AR_est_YW solve R order)) j =c= nthC (fst (AR_est_LD R order)) j).
    { apply Hn; auto. intros i Hi. rewrite (S1 i Hi), (S2 i Hi). reflexivity. }
    split; [exact EQ|].
    pose proof (LD_sigma R order Ho H0 Hb) as Sg.
    destruct (YW_parts R order Ho) as (E1 & E2 & E3 & E4).
    unfold AR_est_YW in *. cbn [fst snd] in *. rewrite E3, E4.
    assert (E : re (ofQ (snd (AR_est_LD R order))) == snd (AR_est_LD R order)) by reflexivity.
    rewrite <- E, Sg.
    set (ak := solve order _ _) in *.
    assert (X : csumn (fun j => cmul (cconj (nthC (tl (firstn (order + 1) R)) j)) (nthC ak j)) order =c=
                csumn (fun j => cmul (nthC (fst (AR_est_LD R order)) j) (cconj (nthC R (S j)))) order).
    { apply csumn_ext; intros j Hj. rewrite (E2 j Hj), (EQ j Hj). apply cmul_comm. }
    rewrite X. unfold csub, re; simpl. reflexivity.
  Qed.

  (* exact recovery: if R obeys the Yule-Walker equations of a coefficient vector alpha (it is the
     autocovariance of that AR process) and the system is non-singular, both estimators return alpha,
     and the innovation variance R_0 - sum alpha_k conj(R_k) *)
  Theorem exact_recovery alpha :
    (1 <= order < length R)%nat -> im (nthC R 0) == 0 ->
    (forall q, (q < order)%nat -> ~ ld_err R q == 0) ->
    nonsingular order (toep (firstn order R)) ->
    length alpha = order ->
    (forall i, (i < order)%nat -> matvec order (toep (firstn order R)) alpha i =c= nthC R (S i)) ->
    (forall j, (j < order)%nat -> nthC (fst (AR_est_LD R order)) j =c= nthC alpha j /\
                                  nthC (fst (AR_est_YW solve R order)) j =c= nthC alpha j) /\
    ofQ (snd (AR_est_LD R order)) =c=
      csub (nthC R 0) (csumn (fun j => cmul (nthC alpha j) (cconj (nthC R (S j)))) order).
  Proof.
    intros Ho H0 Hb Hn La Ha.
    destruct (LD_solves_YW R order Ho H0 Hb) as [L2 S2].
    destruct (YW_eq_LD Ho H0 Hb Hn) as [EQ _].
    assert (E : forall j, (j < order)%nat -> nthC (fst (AR_est_LD R order)) j =c= nthC alpha j).
    { apply Hn; auto. intros i Hi. rewrite (S2 i Hi), (Ha i Hi). reflexivity. }
    split.
    - intros j Hj. split; [apply E; exact Hj|]. rewrite (EQ j Hj). apply E; exact Hj.
    - rewrite (LD_sigma R order Ho H0 Hb). apply csub_proper; [reflexivity|].
      apply csumn_ext; intros j Hj. rewrite (E j Hj). reflexivity.
  Qed.
End YWP.

(* ------------------------------------------------------------------ AR_psd *)
Fixpoint cpow (z : C) (n : nat) : C := match n with O => c1 | S n' => cmul z (cpow z n') end.

Lemma peval_sum c z : peval c z =c= csumn (fun k => cmul (nthC c k) (cpow z k)) (length c).
Proof.
  induction c as [|a c IH]; [reflexivity|].
  cbn [peval length]. rewrite cr_eq, csumn_shift. unfold nthC at 1; cbn [nth cpow].
  apply cadd_proper; [cring|].
  rewrite IH, <- csumn_mul_l. apply csumn_ext; intros k Hk. unfold nthC; cbn [nth cpow]. cring.
Qed.

Lemma peval_neg c z : peval (map cneg c) z =c= cneg (peval c z).
Proof. induction c as [|a c IH]; simpl; [cring|]. rewrite !cr_eq, IH. cring. Qed.

(* the denominator is 1 - sum_k a_k z^k (k = 1..p) *)
Lemma ar_den_formula ak z :
  ar_den ak z =c= csub c1 (csumn (fun k => cmul (nthC ak k) (cpow z (S k))) (length ak)).
Proof.
  unfold ar_den. cbn [peval]. rewrite cr_eq, peval_neg, peval_sum.
  transitivity (csub c1 (cmul z (csumn (fun k => cmul (nthC ak k) (cpow z k)) (length ak)))); [cring|].
  apply csub_proper; [reflexivity|]. rewrite <- csumn_mul_l. apply csumn_ext; intros k Hk. cbn [cpow]. cring.
Qed.

Theorem AR_psd_formula s sigma ak onesided z :
  s * s == sigma -> ~ cnorm2 (ar_den ak z) == 0 ->
  AR_psd_pt s ak onesided z == (if onesided then 2 else 1) * (sigma / cnorm2 (ar_den ak z)).
Proof.
  intros Hs Hd. unfold AR_psd_pt. destruct (ar_den ak z) as [x y].
  assert (E : Qred (re (cmul (cr (cdiv (ofQ s) (x, y))) (cconj (cr (cdiv (ofQ s) (x, y)))))) == sigma / cnorm2 (x, y)).
  { rewrite Qred_correct, cr_eq, <- Hs. unfold cdiv, cinv, cmul, cconj, ofQ, cnorm2, re, im in *; simpl in *. field. exact Hd. }
  destruct onesided; rewrite E; ring.
Qed.

Lemma AR_psd_length s ak os zs : length (AR_psd s ak os zs) = length zs.
Proof. apply map_length. Qed.
Lemma real_n_parity n : real_n (2 * n) true = S n /\ real_n (2 * n + 1) true = S n /\
                        real_n (2 * n) false = (2 * n)%nat /\ real_n (2 * n + 1) false = (2 * n + 1)%nat.
Proof.
  unfold real_n. repeat split.
  - replace (2 * n)%nat with (n * 2)%nat by lia. rewrite Nat.div_mul by lia. lia.
  - replace (2 * n + 1)%nat with (1 + n * 2)%nat by lia. rewrite Nat.div_add by lia. simpl. lia.
Qed.

(* ------------------------------------------------------------------ ar_generator *)
(* l[n-k], or 0 before the start of the sequence *)
Definition hist (l : list C) (n k : nat) : C := if (k <=? n)%nat then nthC l (n - k) else c0.

(* direct-form recursion with zero initial state: what scipy.signal.lfilter computes for a[0] = 1 *)
Definition lfilter_contract (b a x y : list C) : Prop :=
  length y = length x /\
  forall n, (n < length x)%nat ->
    nthC y n =c= csub (csumn (fun k => cmul (nthC b k) (hist x n k)) (length b))
                      (csumn (fun k => cmul (nthC a (S k)) (hist y n (S k))) (length a - 1)).

Lemma csumn_neg f n : csumn (fun k => cneg (f k)) n =c= cneg (csumn f n).
Proof. induction n; simpl; [cring|]. rewrite IHn. cring. Qed.

Lemma nthC_map_cneg l k : nthC (map cneg l) k = cneg (nthC l k).
Proof. unfold nthC. change c0 with (cneg c0) at 1. apply map_nth. Qed.

Section GenP.
  Variable lfilter : list C -> list C -> list C -> list C.

  Theorem ar_generator_recursion s coefs drop v :
    lfilter_contract (ar_gen_b s) (ar_gen_a coefs) v (lfilter (ar_gen_b s) (ar_gen_a coefs) v) ->
    let u := fst (fst (ar_generator lfilter s coefs drop v)) in
    let v' := snd (fst (ar_generator lfilter s coefs drop v)) in
    snd (ar_generator lfilter s coefs drop v) = coefs /\ v' = skipn drop v /\
    length u = (length v - drop)%nat /\ length v' = (length v - drop)%nat /\
    forall n, (n < length u)%nat -> (length coefs <= n)%nat \/ drop = 0%nat ->
      nthC u n =c= cadd (cscale s (nthC v' n))
                        (csumn (fun k => cmul (nthC coefs k) (hist u n (S k))) (length coefs)).
  Proof.
    intros [L Rc]. unfold ar_generator. cbn [fst snd].
    set (y := lfilter (ar_gen_b s) (ar_gen_a coefs) v) in *.
    split; [reflexivity|]. split; [reflexivity|]. split; [rewrite skipn_length, L; reflexivity|].
    split; [apply skipn_length|].
    intros n Hn Hc. rewrite skipn_length, L in Hn.
    unfold nthC at 1 2. rewrite !nth_skipn_add. fold (nthC y (drop + n)) (nthC v (drop + n)).
    rewrite (Rc (drop + n)%nat) by lia.
    unfold ar_gen_b, ar_gen_a. cbn [length].
    replace (S (length (map cneg coefs)) - 1)%nat with (length coefs) by (rewrite map_length; lia).
    cbn [csumn]. unfold hist at 1. cbn [Nat.leb]. rewrite Nat.sub_0_r. unfold nthC at 1. cbn [nth].
    assert (E : csumn (fun k => cmul (nthC (c1 :: map cneg coefs) (S k)) (hist y (drop + n) (S k))) (length coefs) =c=
                cneg (csumn (fun k => cmul (nthC coefs k) (hist (skipn drop y) n (S k))) (length coefs))).
    { rewrite <- csumn_neg. apply csumn_ext; intros k Hk.
      unfold nthC at 1. cbn [nth]. fold (nthC (map cneg coefs) k). rewrite nthC_map_cneg.
      assert (H : hist y (drop + n) (S k) = hist (skipn drop y) n (S k)).
      { unfold hist. destruct Hc as [Hc| ->].
        - replace (S k <=? drop + n)%nat with true by (symmetry; apply Nat.leb_le; lia).
          replace (S k <=? n)%nat with true by (symmetry; apply Nat.leb_le; lia).
          unfold nthC. rewrite nth_skipn_add. f_equal. lia.
        - simpl. reflexivity. }
      rewrite H. cring. }
    rewrite E. cring.
  Qed.
End GenP.

(* the executable reference recursion (used by the correspondence check) *)
Lemma lfilter_go_length b a1 xp yp x : length (lfilter_go b a1 xp yp x) = length x.
Proof. revert xp yp; induction x as [|xn x IH]; intros; simpl; [reflexivity|]. rewrite IH. reflexivity. Qed.
Lemma lfilter_ref_length b a x : length (lfilter_ref b a x) = length x.
Proof. apply lfilter_go_length. Qed.

(* ------------------------------------------------------------------ positivity from positive definiteness *)
(* c^H T c for the n x n Hermitian Toeplitz matrix T[i,j] = R_{i-j} *)
Definition hform (R : nat -> C) (c : nat -> C) (n : nat) : C :=
  csumn (fun i => cmul (cconj (c i)) (csumn (fun j => cmul (Rlag R i j) (c j)) n)) n.
(* the prediction error filter (1, -a_1, ..., -a_p) *)
Definition errfilt (a : nat -> C) (i : nat) : C := match i with O => c1 | S i' => cneg (a i') end.

Lemma hform_errfilt R a b p :
  normal_eqs R a p -> sigma_eq R a b p -> hform R (errfilt a) (S p) =c= ofQ b.
Proof.
  intros N Sg. unfold hform.
  assert (Inner0 : csumn (fun j => cmul (Rlag R 0 j) (errfilt a j)) (S p) =c= ofQ b).
  { rewrite csumn_shift. unfold sigma_eq in Sg. rewrite Sg.
    transitivity (cadd (R 0%nat) (cneg (csumn (fun j => cmul (a j) (cconj (R (S j)))) p))); [|cring].
    apply cadd_proper; [unfold Rlag, errfilt; simpl; cring|].
    rewrite <- csumn_neg. apply csumn_ext; intros j Hj. unfold Rlag, errfilt. simpl. cring. }
  assert (InnerS : forall i, (i < p)%nat -> csumn (fun j => cmul (Rlag R (S i) j) (errfilt a j)) (S p) =c= c0).
  { intros i Hi. rewrite csumn_shift.
    transitivity (cadd (R (S i)) (cneg (csumn (fun j => cmul (a j) (Rlag R i j)) p))); [|rewrite (N i Hi); cring].
    apply cadd_proper; [unfold Rlag, errfilt; simpl; cring|].
    rewrite <- csumn_neg. apply csumn_ext; intros j Hj. unfold errfilt.
    change (Rlag R (S i) (S j)) with (Rlag R i j). cring. }
  rewrite csumn_shift. rewrite Inner0.
  transitivity (cadd (ofQ b) (csumn (fun _ => c0) p)).
  - apply cadd_proper; [unfold errfilt; cring|].
    apply csumn_ext; intros i Hi. rewrite (InnerS i Hi). cring.
  - rewrite csumn_zero. cring.
Qed.

(* positive definite up to size n: the form is positive on every vector with c_0 = 1 (enough here) *)
Definition pos_def (R : nat -> C) (n : nat) : Prop :=
  forall c : nat -> C, c 0%nat =c= c1 -> 0 < re (hform R c n).

Lemma sb_pos_of_pd R p :
  im (R 0%nat) == 0 -> (forall q, (q < p)%nat -> ~ sb R q == 0) -> pos_def R (S p) -> 0 < sb R p.
Proof.
  intros H0 Hb PD. destruct (ld_invariants R p H0 Hb) as [N Sg].
  pose proof (hform_errfilt R (sa R p) (sb R p) p N Sg) as E.
  specialize (PD (errfilt (sa R p)) ltac:(reflexivity)). rewrite E in PD. exact PD.
Qed.

(* all leading systems positive definite: every prediction error is positive and every reflection
   coefficient has modulus < 1 *)
Lemma pd_all R p :
  im (R 0%nat) == 0 -> (forall m, (1 <= m <= S p)%nat -> pos_def R m) ->
  (forall q, (q <= p)%nat -> 0 < sb R q) /\ (forall q, (1 <= q <= p)%nat -> cnorm2 (sk R q) < 1).
Proof.
  intros H0 PD.
  assert (A : forall q, (q <= p)%nat -> 0 < sb R q).
  { intros q. induction q as [q IH] using lt_wf_ind. intros Hq.
    apply sb_pos_of_pd; auto.
    - intros q' Hq' Z. specialize (IH q' Hq' ltac:(lia)). lra.
    - apply PD. lia. }
  split; [exact A|].
  intros q Hq. destruct q as [|q]; [lia|].
  pose proof (A q ltac:(lia)) as P1. pose proof (A (S q) ltac:(lia)) as P2. rewrite sb_S in P2.
  destruct (Qlt_le_dec (cnorm2 (sk R (S q))) 1) as [|Hge]; auto. exfalso.
  assert (sb R q * (1 - cnorm2 (sk R (S q))) <= 0).
  { setoid_replace (sb R q * (1 - cnorm2 (sk R (S q)))) with (- (sb R q * (cnorm2 (sk R (S q)) - 1))) by ring.
    assert (0 <= sb R q * (cnorm2 (sk R (S q)) - 1)) by (apply Qmult_le_0_compat; lra). lra. }
  lra.
Qed.

(* model level *)
Theorem sigma_pos_of_pd R order :
  (1 <= order < length R)%nat -> im (nthC R 0) == 0 ->
  (forall m, (1 <= m <= S order)%nat -> pos_def (Rf R) m) ->
  0 < snd (AR_est_LD R order) /\
  forall q, (1 <= q <= order)%nat -> cnorm2 (nthC (fst (AR_est_LD R q)) (q - 1)) < 1.
Proof.
  intros Ho H0 PD. destruct (pd_all (Rf R) order H0 PD) as [A B].
  split.
  - destruct (AR_est_LD_spec R order ltac:(lia)) as (_ & _ & E). rewrite E. apply A. lia.
  - intros q Hq. destruct (AR_est_LD_spec R q ltac:(lia)) as (_ & Aq & _).
    rewrite (Aq (q - 1)%nat) by lia. replace q with (S (q - 1)) at 1 by lia. rewrite sa_S_eq.
    replace (S (q - 1)) with q by lia. apply B; exact Hq.
Qed.
