(* Proofs/EventRelatedPad.v — zero padding by offset/len_et, np.roll, and where the event codes end up (C19). *)
From Coq Require Import ZArith QArith List Bool Arith Lia Sorted Setoid Morphisms Psatz.
From NT Require Import EventRelated EventRelatedBase.
Import ListNotations.
Open Scope Z_scope.

Lemma pad_length {A} (z : A) b a l : length (pad z b a l) = (b + length l + a)%nat.
Proof. unfold pad. rewrite !app_length, !repeat_length. lia. Qed.

Lemma nth_pad {A} (z : A) b a l k :
  nth k (pad z b a l) z = if (b <=? k)%nat && (k <? b + length l)%nat then nth (k - b) l z else z.
Proof.
  unfold pad. destruct (b <=? k)%nat eqn:E1.
  - apply Nat.leb_le in E1. rewrite app_nth2 by (rewrite repeat_length; lia). rewrite repeat_length.
    destruct (k <? b + length l)%nat eqn:E2; simpl.
    + apply Nat.ltb_lt in E2. rewrite app_nth1 by lia. reflexivity.
    + apply Nat.ltb_ge in E2. rewrite app_nth2 by lia. apply nth_repeat.
  - apply Nat.leb_gt in E1. rewrite app_nth1 by (rewrite repeat_length; lia). simpl. apply nth_repeat.
Qed.

Lemma getZ_pad b a l i :
  getZ (pad 0 b a l) i =
  if (Z.of_nat b <=? i) && (i <? Z.of_nat b + zlen l) then getZ l (i - Z.of_nat b) else 0.
Proof.
  unfold getZ, zlen. destruct (i <? 0) eqn:E.
  - apply Z.ltb_lt in E. replace (Z.of_nat b <=? i) with false by (symmetry; apply Z.leb_gt; lia). reflexivity.
  - apply Z.ltb_ge in E. rewrite nth_pad.
    destruct (Z.of_nat b <=? i) eqn:E1.
    + apply Z.leb_le in E1. replace (b <=? Z.to_nat i)%nat with true by (symmetry; apply Nat.leb_le; lia).
      destruct (i <? Z.of_nat b + Z.of_nat (length l)) eqn:E2.
      * apply Z.ltb_lt in E2. replace (Z.to_nat i <? b + length l)%nat with true by (symmetry; apply Nat.ltb_lt; lia).
        simpl. replace (i - Z.of_nat b <? 0) with false by (symmetry; apply Z.ltb_ge; lia).
        f_equal. lia.
      * apply Z.ltb_ge in E2. replace (Z.to_nat i <? b + length l)%nat with false by (symmetry; apply Nat.ltb_ge; lia).
        reflexivity.
    + apply Z.leb_gt in E1. replace (b <=? Z.to_nat i)%nat with false by (symmetry; apply Nat.leb_gt; lia).
      reflexivity.
Qed.

Lemma getQ_pad b a l i :
  getQ (pad 0%Q b a l) i =
  if (Z.of_nat b <=? i) && (i <? Z.of_nat b + zlen l) then getQ l (i - Z.of_nat b) else 0%Q.
Proof.
  unfold getQ, zlen. destruct (i <? 0) eqn:E.
  - apply Z.ltb_lt in E. replace (Z.of_nat b <=? i) with false by (symmetry; apply Z.leb_gt; lia). reflexivity.
  - apply Z.ltb_ge in E. rewrite nth_pad.
    destruct (Z.of_nat b <=? i) eqn:E1.
    + apply Z.leb_le in E1. replace (b <=? Z.to_nat i)%nat with true by (symmetry; apply Nat.leb_le; lia).
      destruct (i <? Z.of_nat b + Z.of_nat (length l)) eqn:E2.
      * apply Z.ltb_lt in E2. replace (Z.to_nat i <? b + length l)%nat with true by (symmetry; apply Nat.ltb_lt; lia).
        simpl. replace (i - Z.of_nat b <? 0) with false by (symmetry; apply Z.ltb_ge; lia).
        f_equal. lia.
      * apply Z.ltb_ge in E2. replace (Z.to_nat i <? b + length l)%nat with false by (symmetry; apply Nat.ltb_ge; lia).
        reflexivity.
    + apply Z.leb_gt in E1. replace (b <=? Z.to_nat i)%nat with false by (symmetry; apply Nat.leb_gt; lia).
      reflexivity.
Qed.

Lemma positions_In ev c a : In a (positions ev c) <-> 0 <= a < zlen ev /\ getZ ev a = c.
Proof.
  unfold positions. rewrite filter_In, zrange_In. unfold zlen. rewrite Z.eqb_eq. tauto.
Qed.

Lemma positions_NoDup ev c : NoDup (positions ev c).
Proof. unfold positions. apply NoDup_filter, zrange_NoDup. Qed.

Lemma two_elements {A} (l : list A) a b : NoDup l -> In a l -> In b l -> a <> b -> (2 <= length l)%nat.
Proof.
  intros ND Ha Hb Hne. destruct l as [|x [|y l]].
  - destruct Ha.
  - destruct Ha as [<-|[]]. destruct Hb as [<-|[]]. congruence.
  - simpl. lia.
Qed.

(* codes of the padded series *)
Lemma pad_types b a ev : event_types (pad 0 b a ev) = event_types ev.
Proof.
  apply event_types_same_elements. intros c Hc. unfold pad. rewrite !in_app_iff. split.
  - intros [H|[H|H]]; [apply repeat_spec in H; congruence|exact H|apply repeat_spec in H; congruence].
  - intros H. right; left; exact H.
Qed.

(* occurrences in the padded series are the occurrences shifted by the padding *)
Lemma pad_positions b a ev c x : c <> 0 ->
  (In x (positions (pad 0 b a ev) c) <-> In (x - Z.of_nat b) (positions ev c)).
Proof.
  intros Hc. rewrite !positions_In. unfold zlen at 1. rewrite pad_length, getZ_pad.
  destruct ((Z.of_nat b <=? x) && (x <? Z.of_nat b + zlen ev)) eqn:E.
  - apply andb_prop in E as [E1 E2]. apply Z.leb_le in E1. apply Z.ltb_lt in E2. unfold zlen in *. split; intros [H1 H2]; split; auto; lia.
  - split; [intros [_ H]; congruence|].
    intros [H1 H2]. exfalso. apply andb_false_iff in E. unfold zlen in *.
    destruct E as [E|E]; [apply Z.leb_gt in E|apply Z.ltb_ge in E]; lia.
Qed.

(* ---------- roll ---------- *)
Lemma roll_length l s : length (roll l s) = length l.
Proof. unfold roll. rewrite map_length, zrange_length. reflexivity. Qed.

Lemma getZ_roll l s j : 0 <= j < zlen l -> getZ (roll l s) j = getZ l ((j - s) mod zlen l).
Proof. intros H. unfold roll. rewrite getZ_map_zrange by (unfold zlen in H; exact H). reflexivity. Qed.

Lemma roll_In l s c : In c (roll l s) <-> In c l.
Proof.
  destruct l as [|x0 l0] eqn:El; [simpl; tauto|]. rewrite <- El.
  assert (HL : 0 < zlen l) by (subst l; unfold zlen; simpl length; lia).
  split; intros H.
  - apply In_getZ in H as [j [Hj <-]]. unfold zlen in Hj. rewrite (roll_length l s) in Hj.
    rewrite getZ_roll by (unfold zlen; lia). apply getZ_In. apply Z.mod_pos_bound. exact HL.
  - apply In_getZ in H as [i [Hi <-]].
    replace (getZ l i) with (getZ (roll l s) ((i + s) mod zlen l)).
    + apply getZ_In. unfold zlen in *. rewrite (roll_length l s). apply Z.mod_pos_bound. exact HL.
    + rewrite getZ_roll by (apply Z.mod_pos_bound; exact HL). f_equal.
      rewrite Zminus_mod_idemp_l. replace (i + s - s) with i by lia. apply Z.mod_small. exact Hi.
Qed.

Lemma roll_types l s : event_types (roll l s) = event_types l.
Proof. apply event_types_same_elements. intros c _. apply roll_In. Qed.

(* where the codes are after padding by (offset, len) and rolling by offset, when every response lies
   inside the series: code of bin i sits at row i + 2*offset, all other rows are empty *)
Definition inside (ev : list Z) (len : nat) (offset : Z) : Prop :=
  forall i, 0 <= i < zlen ev -> getZ ev i <> 0 -> i + offset + Z.of_nat len <= zlen ev.

Lemma rolled_codes ev (len b : nat) j :
  (0 < len)%nat -> inside ev len (Z.of_nat b) ->
  0 <= j < Z.of_nat (b + length ev + len) ->
  getZ (roll (pad 0 b len ev) (Z.of_nat b)) j =
  if (2 * Z.of_nat b <=? j) && (j <? 2 * Z.of_nat b + zlen ev) then getZ ev (j - 2 * Z.of_nat b) else 0.
Proof.
  intros Hlen Hin Hj.
  rewrite getZ_roll by (unfold zlen; rewrite pad_length; exact Hj).
  unfold zlen at 1. rewrite pad_length. rewrite getZ_pad.
  set (L := Z.of_nat (b + length ev + len)). unfold zlen in *.
  destruct (Z_lt_le_dec j (Z.of_nat b)) as [Hlt|Hge].
  - (* wraps to the tail *)
    assert (Em : (j - Z.of_nat b) mod L = j - Z.of_nat b + L).
    { symmetry. apply (Zmod_unique _ _ (-1)); unfold L; lia. }
    rewrite Em.
    replace (2 * Z.of_nat b <=? j) with false by (symmetry; apply Z.leb_gt; lia). cbn [andb].
    destruct ((Z.of_nat b <=? j - Z.of_nat b + L) && (j - Z.of_nat b + L <? Z.of_nat b + Z.of_nat (length ev))) eqn:E;
      [|reflexivity].
    apply andb_prop in E as [E1 E2]. apply Z.leb_le in E1. apply Z.ltb_lt in E2.
    destruct (Z.eq_dec (getZ ev (j - Z.of_nat b + L - Z.of_nat b)) 0) as [E0|E0]; [exact E0|].
    exfalso. specialize (Hin (j - Z.of_nat b + L - Z.of_nat b)). unfold zlen in Hin. unfold L in *. lia.
  - assert (Em : (j - Z.of_nat b) mod L = j - Z.of_nat b) by (apply Z.mod_small; unfold L; lia).
    rewrite Em.
    destruct ((Z.of_nat b <=? j - Z.of_nat b) && (j - Z.of_nat b <? Z.of_nat b + Z.of_nat (length ev))) eqn:E.
    + apply andb_prop in E as [E1 E2]. apply Z.leb_le in E1. apply Z.ltb_lt in E2.
      replace (2 * Z.of_nat b <=? j) with true by (symmetry; apply Z.leb_le; lia).
      replace (j <? 2 * Z.of_nat b + Z.of_nat (length ev)) with true by (symmetry; apply Z.ltb_lt; lia).
      cbn [andb]. f_equal. lia.
    + apply andb_false_iff in E.
      destruct ((2 * Z.of_nat b <=? j) && (j <? 2 * Z.of_nat b + Z.of_nat (length ev))) eqn:E'; [|reflexivity].
      apply andb_prop in E' as [E1 E2]. apply Z.leb_le in E1. apply Z.ltb_lt in E2.
      destruct E as [E|E]; [apply Z.leb_gt in E|apply Z.ltb_ge in E]; lia.
Qed.

(* zrange (a + b) = zrange a ++ shifted zrange b *)
Lemma zrange_app a b : zrange (a + b) = zrange a ++ map (fun i => Z.of_nat a + i) (zrange b).
Proof.
  induction b as [|b IH].
  - rewrite Nat.add_0_r. simpl. rewrite app_nil_r. reflexivity.
  - replace (a + S b)%nat with (S (a + b)) by lia. rewrite !zrange_S, IH, map_app, app_assoc. simpl.
    do 2 f_equal. lia.
Qed.

(* a sum over 0..L-1 of a function supported on [s, s+n) *)
Lemma qsumf_window (f : Z -> Q) (s n t : nat) :
  (forall j, 0 <= j < Z.of_nat (s + n + t) -> ~ (Z.of_nat s <= j < Z.of_nat s + Z.of_nat n) -> (f j == 0)%Q) ->
  (qsumf f (zrange (s + n + t)) == qsumf (fun i => f (Z.of_nat s + i)%Z) (zrange n))%Q.
Proof.
  intros H. rewrite !zrange_app. unfold qsumf. rewrite !map_app, !qsum_app.
  fold (qsumf f (zrange s)). rewrite (qsumf_zero f (zrange s)).
  - rewrite !map_map.
    fold (qsumf (fun x => f (Z.of_nat (s + n) + x)) (zrange t)).
    rewrite (qsumf_zero (fun x => f (Z.of_nat (s + n) + x)) (zrange t)); [ring|].
    intros i Hi. apply zrange_In in Hi. apply H; lia.
  - intros j Hj. apply zrange_In in Hj. apply H; lia.
Qed.

Lemma getZ_beyond l i : zlen l <= i -> getZ l i = 0.
Proof.
  unfold getZ, zlen. intros H. destruct (i <? 0); [reflexivity|]. apply nth_overflow. lia.
Qed.

Lemma getZ_neg l i : i < 0 -> getZ l i = 0.
Proof. unfold getZ. intros H. replace (i <? 0) with true by (symmetry; apply Z.ltb_lt; lia). reflexivity. Qed.

(* the same for every integer j (outside the rolled array the accessor reads 0) *)
Lemma rolled_codes_all ev (len b : nat) j :
  (0 < len)%nat -> inside ev len (Z.of_nat b) ->
  getZ (roll (pad 0 b len ev) (Z.of_nat b)) j =
  if (2 * Z.of_nat b <=? j) && (j <? 2 * Z.of_nat b + zlen ev) then getZ ev (j - 2 * Z.of_nat b) else 0.
Proof.
  intros Hlen Hin.
  destruct (Z_lt_le_dec j 0) as [Hneg|Hnn].
  - rewrite getZ_neg by lia. replace (2 * Z.of_nat b <=? j) with false by (symmetry; apply Z.leb_gt; lia). reflexivity.
  - destruct (Z_lt_le_dec j (Z.of_nat (b + length ev + len))) as [Hlt|Hge].
    + apply rolled_codes; auto.
    + rewrite getZ_beyond by (unfold zlen; rewrite roll_length, pad_length; lia).
      destruct ((2 * Z.of_nat b <=? j) && (j <? 2 * Z.of_nat b + zlen ev)) eqn:E; [|reflexivity].
      apply andb_prop in E as [E1 E2]. apply Z.leb_le in E1. apply Z.ltb_lt in E2.
      destruct (Z.eq_dec (getZ ev (j - 2 * Z.of_nat b)) 0) as [E0|E0]; [symmetry; exact E0|].
      exfalso. specialize (Hin (j - 2 * Z.of_nat b)). unfold zlen in *. lia.
Qed.

Lemma qsumf_extend (f : Z -> Q) (n d : nat) :
  (forall j, Z.of_nat n <= j < Z.of_nat (n + d) -> (f j == 0)%Q) ->
  (qsumf f (zrange n) == qsumf f (zrange (n + d)))%Q.
Proof.
  intros H. rewrite zrange_app. unfold qsumf. rewrite map_app, qsum_app, map_map.
  fold (qsumf (fun x => f (Z.of_nat n + x)) (zrange d)).
  rewrite (qsumf_zero (fun x => f (Z.of_nat n + x)) (zrange d)); [ring|].
  intros i Hi. apply zrange_In in Hi. apply H. lia.
Qed.

(* the zero-padded data are exactly the design-matrix data of the rolled, padded codes *)
Lemma padded_is_design_data resp ev (y : list Q) (len b : nat) r :
  (0 < len)%nat -> inside ev len (Z.of_nat b) -> length y = length ev ->
  (forall t, 0 <= t < zlen ev -> (getQ y t == synth_at resp ev len (Z.of_nat b) t)%Q) ->
  0 <= r < Z.of_nat (b + length ev + len) ->
  (getQ (pad 0%Q b len y) r == synth_at resp (roll (pad 0%Z b len ev) (Z.of_nat b)) len 0 r)%Q.
Proof.
  intros Hlen Hin Hy Hsyn Hr.
  set (evr := roll (pad 0 b len ev) (Z.of_nat b)).
  assert (HL : length evr = (b + length ev + len)%nat) by (unfold evr; rewrite roll_length, pad_length; reflexivity).
  unfold synth_at at 1. rewrite HL.
  (* extend the range by b, then cut the window [2b, 2b+n) *)
  rewrite (qsumf_extend _ (b + length ev + len) b).
  2:{ intros j Hj. unfold placed. rewrite getZ_beyond by (unfold zlen; rewrite HL; lia). reflexivity. }
  replace (b + length ev + len + b)%nat with ((b + b) + length ev + len)%nat by lia.
  rewrite qsumf_window.
  2:{ intros j Hj Hout. unfold placed, evr. rewrite rolled_codes_all by assumption.
      destruct ((2 * Z.of_nat b <=? j) && (j <? 2 * Z.of_nat b + zlen ev)) eqn:E; [|reflexivity].
      apply andb_prop in E as [E1 E2]. apply Z.leb_le in E1. apply Z.ltb_lt in E2. unfold zlen in *. lia. }
  rewrite getQ_pad. unfold zlen. rewrite Hy.
  assert (Hterm : forall i, 0 <= i < Z.of_nat (length ev) ->
     placed resp evr len 0 r (Z.of_nat (b + b) + i) = placed resp ev len (Z.of_nat b) (r - Z.of_nat b) i).
  { intros i Hi. unfold placed, evr. rewrite rolled_codes_all by assumption. unfold zlen.
    replace (2 * Z.of_nat b <=? Z.of_nat (b + b) + i) with true by (symmetry; apply Z.leb_le; lia).
    replace (Z.of_nat (b + b) + i <? 2 * Z.of_nat b + Z.of_nat (length ev)) with true by (symmetry; apply Z.ltb_lt; lia).
    cbn [andb]. replace (Z.of_nat (b + b) + i - 2 * Z.of_nat b) with i by lia.
    replace (Z.of_nat (b + b) + i + 0 <=? r) with (i + Z.of_nat b <=? r - Z.of_nat b)
      by (apply Bool.eq_true_iff_eq; rewrite !Z.leb_le; lia).
    replace (r <? Z.of_nat (b + b) + i + 0 + Z.of_nat len) with (r - Z.of_nat b <? i + Z.of_nat b + Z.of_nat len)
      by (apply Bool.eq_true_iff_eq; rewrite !Z.ltb_lt; lia).
    replace (r - (Z.of_nat (b + b) + i) - 0) with (r - Z.of_nat b - i - Z.of_nat b) by lia. reflexivity. }
  rewrite (qsumf_ext _ (placed resp ev len (Z.of_nat b) (r - Z.of_nat b)))
    by (intros i Hi; apply zrange_In in Hi; rewrite Hterm by exact Hi; reflexivity).
  destruct ((Z.of_nat b <=? r) && (r <? Z.of_nat b + Z.of_nat (length ev))) eqn:E.
  - apply andb_prop in E as [E1 E2]. apply Z.leb_le in E1. apply Z.ltb_lt in E2.
    rewrite Hsyn by (unfold zlen; lia). reflexivity.
  - symmetry. apply qsumf_zero. intros i Hi. apply zrange_In in Hi. unfold placed.
    destruct (getZ ev i =? 0) eqn:E0; [reflexivity|]. apply Z.eqb_neq in E0. cbn [negb andb].
    destruct ((i + Z.of_nat b <=? r - Z.of_nat b) && (r - Z.of_nat b <? i + Z.of_nat b + Z.of_nat len)) eqn:E2; [|reflexivity].
    apply andb_prop in E2 as [E3 E4]. apply Z.leb_le in E3. apply Z.ltb_lt in E4.
    specialize (Hin i ltac:(unfold zlen; lia) E0). unfold zlen in Hin.
    apply andb_false_iff in E. destruct E as [E|E]; [apply Z.leb_gt in E|apply Z.ltb_ge in E]; lia.
Qed.

Lemma rolled_design_ok ev (len b : nat) :
  (0 < len)%nat -> inside ev len (Z.of_nat b) ->
  design_ok (roll (pad 0 b len ev) (Z.of_nat b)) len = true.
Proof.
  intros Hlen Hin. unfold design_ok. apply forallb_forall. intros i Hi. apply zrange_In in Hi.
  rewrite rolled_codes_all by assumption.
  destruct ((2 * Z.of_nat b <=? i) && (i <? 2 * Z.of_nat b + zlen ev)) eqn:E; [|reflexivity].
  apply andb_prop in E as [E1 E2]. apply Z.leb_le in E1. apply Z.ltb_lt in E2.
  destruct (getZ ev (i - 2 * Z.of_nat b) =? 0) eqn:E0; [reflexivity|]. apply Z.eqb_neq in E0. cbn [orb].
  apply Z.leb_le. specialize (Hin (i - 2 * Z.of_nat b) ltac:(lia) E0).
  unfold zlen in *. rewrite roll_length, pad_length. lia.
Qed.

(* ---------- occurrences of the padded series, as a list ---------- *)
Lemma filter_none {A} (p : A -> bool) l : (forall x, In x l -> p x = false) -> filter p l = [].
Proof.
  induction l as [|a l IH]; intros H; [reflexivity|]. simpl. rewrite (H a) by (left; reflexivity).
  apply IH. intros x Hx. apply H. right; exact Hx.
Qed.

Lemma filter_map_comm {A B} (p : B -> bool) (g : A -> B) l : filter p (map g l) = map g (filter (fun a => p (g a)) l).
Proof. induction l as [|a l IH]; [reflexivity|]. simpl. destruct (p (g a)); simpl; rewrite IH; reflexivity. Qed.

Lemma pad_positions_list b a ev c : c <> 0 ->
  positions (pad 0 b a ev) c = map (fun i => Z.of_nat b + i) (positions ev c).
Proof.
  intros Hc. unfold positions. rewrite pad_length, !zrange_app, !filter_app.
  rewrite (filter_none _ (zrange b)).
  2:{ intros x Hx. apply zrange_In in Hx. rewrite getZ_pad.
      replace (Z.of_nat b <=? x) with false by (symmetry; apply Z.leb_gt; lia). cbn [andb]. apply Z.eqb_neq. congruence. }
  rewrite (filter_none _ (map _ (zrange a))).
  2:{ intros x Hx. apply in_map_iff in Hx as [i [<- Hi]]. apply zrange_In in Hi. rewrite getZ_pad. unfold zlen.
      replace (Z.of_nat (b + length ev) + i <? Z.of_nat b + Z.of_nat (length ev)) with false by (symmetry; apply Z.ltb_ge; lia).
      rewrite andb_false_r. cbn iota. apply Z.eqb_neq. congruence. }
  rewrite app_nil_r. cbn [app]. rewrite filter_map_comm. f_equal.
  apply filter_ext_in. intros i Hi. apply zrange_In in Hi. rewrite getZ_pad. unfold zlen.
  replace (Z.of_nat b <=? Z.of_nat b + i) with true by (symmetry; apply Z.leb_le; lia).
  replace (Z.of_nat b + i <? Z.of_nat b + Z.of_nat (length ev)) with true by (symmetry; apply Z.ltb_lt; lia).
  cbn [andb]. do 2 f_equal. lia.
Qed.
