(* Base/Close.v — tolerance comparison on Q, used only by correspondence lemmas *)
From Coq Require Import QArith Qabs List Bool Lia.
From NT Require Import F2Z.
Import ListNotations.
Open Scope Q_scope.

Definition Qabsb (x : Q) : Q := if Qle_bool 0 x then x else - x.

(* |a-b| <= atol + rtol * (|a| + |b|) *)
Definition closeb_tol (rtol atol a b : Q) : bool :=
  Qle_bool (Qabsb (a - b)) (atol + rtol * (Qabsb a + Qabsb b)).

Definition rtol_default : Q := 1 # 1000000000.
Definition atol_default : Q := 1 # 1000000000000.
Definition closeb (a b : Q) : bool := closeb_tol rtol_default atol_default a b.

Fixpoint all2 {A B} (p : A -> B -> bool) (l1 : list A) (l2 : list B) : bool :=
  match l1, l2 with
  | [], [] => true
  | a :: l1', b :: l2' => p a b && all2 p l1' l2'
  | _, _ => false
  end.

Definition close_list (l1 l2 : list Q) : bool := all2 closeb l1 l2.
Definition close_list_tol (rtol atol : Q) (l1 l2 : list Q) : bool :=
  all2 (closeb_tol rtol atol) l1 l2.

Lemma Qabsb_nonneg x : 0 <= Qabsb x.
Proof.
  unfold Qabsb. destruct (Qle_bool 0 x) eqn:E.
  - apply Qle_bool_iff; exact E.
  - assert (H : ~ 0 <= x) by (intro H; apply Qle_bool_iff in H; congruence).
    apply Qnot_le_lt in H. apply Qlt_le_weak in H.
    setoid_replace 0 with (- 0) by reflexivity. apply Qopp_le_compat. exact H.
Qed.

Lemma closeb_tol_sound rtol atol a b :
  closeb_tol rtol atol a b = true ->
  Qabsb (a - b) <= atol + rtol * (Qabsb a + Qabsb b).
Proof. unfold closeb_tol. intros H. apply Qle_bool_iff. exact H. Qed.
