(* Base/F2Z.v — exact reading of binary64 values, rounding to integers, int64 wrap.
   Everything here computes with the kernel's primitive floats through Prim2SF, so a
   lemma proved by vm_compute over these functions depends on no float axiom. *)
From Coq Require Import ZArith List Bool QArith PrimFloat Uint63 FloatOps SpecFloat.
Open Scope Z_scope.

(* exact value of a finite float as m * 2^e *)
Definition f2ze (f : float) : option (Z * Z) :=
  match Prim2SF f with
  | S754_zero _ => Some (0, 0)
  | S754_finite s m e => Some ((if s then Z.neg m else Z.pos m), e)
  | _ => None
  end.

Definition ffinite (f : float) : bool :=
  match f2ze f with Some _ => true | None => false end.

(* exact rational value (0 for nan / inf: callers guard with ffinite) *)
Definition ze2q (m e : Z) : Q :=
  if 0 <=? e then inject_Z (m * 2 ^ e) else Qmake m (Z.to_pos (2 ^ (- e))).
Definition f2q (f : float) : Q :=
  match f2ze f with Some (m, e) => ze2q m e | None => 0%Q end.

(* round half to even of m*2^e, as np.round / rint *)
Definition rne (m e : Z) : Z :=
  if 0 <=? e then m * 2 ^ e else
  let d := 2 ^ (- e) in
  let q := m / d in let r := m mod d in
  match Z.compare (2 * r) d with
  | Lt => q | Gt => q + 1 | Eq => if Z.even q then q else q + 1 end.

(* truncation toward zero of m*2^e, as np.int64(float) / astype(int64) *)
Definition trunc (m e : Z) : Z :=
  if 0 <=? e then m * 2 ^ e else Z.quot m (2 ^ (- e)).

Definition rne_f (f : float) : option Z :=
  match f2ze f with Some (m, e) => Some (rne m e) | None => None end.
Definition trunc_f (f : float) : option Z :=
  match f2ze f with Some (m, e) => Some (trunc m e) | None => None end.

(* two's-complement int64 *)
Definition wrap64 (z : Z) : Z := (z + 2 ^ 63) mod 2 ^ 64 - 2 ^ 63.
Definition in62 (z : Z) : bool := (- 2 ^ 62 <? z) && (z <? 2 ^ 62).
Definition in63 (z : Z) : bool := (- 2 ^ 63 <=? z) && (z <? 2 ^ 63).

(* int64 -> float64 (round to nearest even), for |z| < 2^63 *)
Definition z2f (z : Z) : float :=
  if 0 <=? z then of_uint63 (Uint63.of_Z z)
  else PrimFloat.opp (of_uint63 (Uint63.of_Z (- z))).

(* float equality on bits (distinguishes nothing we care about except nan) *)
Definition feqb (a b : float) : bool :=
  match f2ze a, f2ze b with
  | Some (m1, e1), Some (m2, e2) => (m1 =? m2) && ((m1 =? 0) || (e1 =? e2))
  | _, _ => false
  end.
