(* Base/Sums.v — finite sums over nat ranges in Q and the one-sided fold (all N, both parities) *)
From Coq Require Import QArith List Arith Lia Psatz.
Open Scope Q_scope.
(* sum_{k<n} f k *)
Fixpoint sumn (f : nat -> Q) (n : nat) : Q :=
  match n with O => 0 | S n' => sumn f n' + f n' end.
Lemma sumn_ext f g n : (forall k, (k < n)%nat -> f k == g k) -> sumn f n == sumn g n.
Proof. induction n; simpl; intros H; [reflexivity|]. rewrite IHn, H; auto; try reflexivity. Qed.
Lemma sumn_plus f g n : sumn (fun k => f k + g k) n == sumn f n + sumn g n.
Proof. induction n; simpl; [ring|rewrite IHn; ring]. Qed.
Lemma sumn_scal c f n : sumn (fun k => c * f k) n == c * sumn f n.
Proof. induction n; simpl; [ring|rewrite IHn; ring]. Qed.
Lemma sumn_split f a b : sumn f (a + b) == sumn f a + sumn (fun k => f (a + k)%nat) b.
Proof. induction b; simpl. rewrite Nat.add_0_r; ring.
  replace (a + S b)%nat with (S (a + b)) by lia. simpl. rewrite IHb. ring. Qed.
Lemma sumn_rev f n : sumn f n == sumn (fun k => f (n - 1 - k)%nat) n.
Proof. revert f; induction n; intros f; simpl; [reflexivity|].
  rewrite (sumn_split f 1 n) at 1. simpl.
  rewrite (IHn (fun k => f (S k))).
  replace (n - 0 - n)%nat with 0%nat by lia.
  assert (E: sumn (fun k => f (S (n - 1 - k))) n == sumn (fun k => f (n - 0 - k)%nat) n).
  { apply sumn_ext; intros k Hk. replace (S (n-1-k)) with (n-0-k)%nat by lia. reflexivity. }
  rewrite E. ring. Qed.

Lemma sumn_nonneg f n : (forall k, (k < n)%nat -> 0 <= f k) -> 0 <= sumn f n.
Proof. induction n; simpl; intros H; [apply Qle_refl|].
  apply (Qle_trans _ (0+0)); [ring_simplify; apply Qle_refl|]. apply Qplus_le_compat; auto. Qed.
Lemma sq_nonneg (x : Q) : 0 <= x * x.
Proof. destruct (Qlt_le_dec x 0) as [H|H].
  - setoid_replace (x*x) with ((-x)*(-x)) by ring. apply Qmult_le_0_compat; lra.
  - apply Qmult_le_0_compat; assumption. Qed.
Lemma sumn_zero_sq f n : sumn (fun k => f k * f k) n == 0 -> forall k, (k < n)%nat -> f k == 0.
Proof. induction n; simpl; intros H k Hk; [lia|].
  assert (A: 0 <= sumn (fun k => f k * f k) n) by (apply sumn_nonneg; intros; apply sq_nonneg).
  pose proof (sq_nonneg (f n)) as B.
  assert (f n * f n == 0) by lra. assert (sumn (fun k => f k * f k) n == 0) by lra.
  destruct (Nat.eq_dec k n) as [->|].
  - destruct (Qeq_dec (f n) 0); auto. exfalso.
    assert (0 < f n * f n). { destruct (Qlt_le_dec (f n) 0). setoid_replace (f n * f n) with ((-f n)*(-f n)) by ring. apply Qmult_lt_0_compat; lra. apply Qmult_lt_0_compat; lra. } lra.
  - apply IHn; auto; lia. Qed.


Lemma sumn_const0 n : sumn (fun _ => 0) n == 0.
Proof. induction n; simpl; [reflexivity|rewrite IHn; ring]. Qed.

Definition Fn (N:nat) := (N / 2 + 1)%nat.
Definition Fl (N:nat) := ((N + 1) / 2)%nat.
(* the code's one-sided assembly *)
Definition onesided (N : nat) (q : nat -> Q) (k : nat) : Q :=
  if ((0 <? k) && (k <? Fl N))%bool then 2 * q k else q k.

Lemma parity N : (N = 2 * (N/2) \/ N = 2 * (N/2) + 1)%nat.
Proof. pose proof (Nat.div_mod N 2 ltac:(lia)). pose proof (Nat.mod_upper_bound N 2 ltac:(lia)). lia. Qed.


Lemma os_0 N q : onesided N q 0 = q 0%nat. Proof. reflexivity. Qed.
Lemma os_mid N q k : (0 < k < Fl N)%nat -> onesided N q k = 2 * q k.
Proof. intros H. unfold onesided. replace (0 <? k)%nat with true by (symmetry; apply Nat.ltb_lt; lia).
  replace (k <? Fl N)%nat with true by (symmetry; apply Nat.ltb_lt; lia). reflexivity. Qed.
Lemma os_hi N q k : (Fl N <= k)%nat -> onesided N q k = q k.
Proof. intros H. unfold onesided. replace (k <? Fl N)%nat with false by (symmetry; apply Nat.ltb_ge; lia).
  rewrite Bool.andb_false_r. reflexivity. Qed.

Theorem fold_sum N q : (0 < N)%nat ->
  (forall k, (0 < k < N)%nat -> q (N - k)%nat == q k) ->
  sumn (onesided N q) (Fn N) == sumn q N.
Proof.
  intros HN Hs. unfold Fn.
  remember (N/2)%nat as h eqn:Hh.
  destruct (parity N) as [E|E]; rewrite <- Hh in E.
  - assert (HFl: Fl N = h).
    { unfold Fl. rewrite E. replace (2*h+1)%nat with (1+h*2)%nat by lia. rewrite Nat.div_add by lia. simpl. lia. }
    assert (h > 0)%nat by lia.
    replace (h+1)%nat with (1 + (h-1) + 1)%nat by lia.
    rewrite (sumn_split _ (1+(h-1)) 1), (sumn_split _ 1 (h-1)).
    replace (sumn q N) with (sumn q (1 + (h-1) + 1 + (h-1))) by (f_equal; lia).
    rewrite (sumn_split q (1+(h-1)+1) (h-1)), (sumn_split q (1+(h-1)) 1), (sumn_split q 1 (h-1)).
    cbn [sumn]. rewrite os_0.
    rewrite (os_hi N q (1 + (h-1) + 0)) by lia.
    assert (A: sumn (fun k => onesided N q (1 + k)) (h-1) == 2 * sumn (fun k => q (1 + k)%nat) (h-1)).
    { rewrite <- sumn_scal. apply sumn_ext; intros k Hk. rewrite os_mid by lia. reflexivity. }
    rewrite A.
    assert (B: sumn (fun k => q (1 + (h - 1) + 1 + k)%nat) (h-1) == sumn (fun k => q (1 + k)%nat) (h-1)).
    { rewrite (sumn_rev (fun k => q (1 + k)%nat) (h-1)). apply sumn_ext; intros k Hk.
      rewrite <- (Hs (1 + (h-1) + 1 + k)%nat) by lia.
      replace (N - (1 + (h-1) + 1 + k))%nat with (1 + (h-1-1-k))%nat by lia. reflexivity. }
    rewrite B. ring.
  - assert (HFl: Fl N = (h+1)%nat).
    { unfold Fl. rewrite E. replace (2*h+1+1)%nat with ((h+1)*2)%nat by lia. rewrite Nat.div_mul; lia. }
    replace (h+1)%nat with (1 + h)%nat by lia.
    rewrite (sumn_split _ 1 h).
    replace (sumn q N) with (sumn q (1 + h + h)) by (f_equal; lia).
    rewrite (sumn_split q (1+h) h), (sumn_split q 1 h).
    cbn [sumn]. rewrite os_0.
    assert (A: sumn (fun k => onesided N q (1 + k)) h == 2 * sumn (fun k => q (1 + k)%nat) h).
    { rewrite <- sumn_scal. apply sumn_ext; intros k Hk. rewrite os_mid by lia. reflexivity. }
    rewrite A.
    assert (B: sumn (fun k => q (1 + h + k)%nat) h == sumn (fun k => q (1 + k)%nat) h).
    { rewrite (sumn_rev (fun k => q (1 + k)%nat) h). apply sumn_ext; intros k Hk.
      rewrite <- (Hs (1 + h + k)%nat) by lia.
      replace (N - (1 + h + k))%nat with (1 + (h-1-k))%nat by lia. reflexivity. }
    rewrite B. ring.
Qed.

