(* Base/CS.v — finite Cauchy-Schwarz inequality over Q *)
From Coq Require Import QArith List Arith Lia Psatz.
From NT Require Import Sums.
Open Scope Q_scope.

(* real Cauchy-Schwarz over Q: (sum a b)^2 <= sum a^2 * sum b^2 *)
Theorem cauchy_schwarz a b n :
  sumn (fun k => a k * b k) n * sumn (fun k => a k * b k) n
  <= sumn (fun k => a k * a k) n * sumn (fun k => b k * b k) n.
Proof.
  set (S := sumn (fun k => a k * b k) n). set (A := sumn (fun k => a k * a k) n). set (B := sumn (fun k => b k * b k) n).
  assert (HA: 0 <= A) by (apply sumn_nonneg; intros; apply sq_nonneg).
  assert (HB: 0 <= B) by (apply sumn_nonneg; intros; apply sq_nonneg).
  (* for every t: 0 <= A t^2 + 2 S t + B *)
  assert (P: forall t, 0 <= A*t*t + 2*S*t + B).
  { intros t. assert (E: sumn (fun k => (a k * t + b k) * (a k * t + b k)) n == A*t*t + 2*S*t + B).
    { unfold A, S, B. rewrite <- !sumn_scal.
      transitivity (sumn (fun k => (t*t) * (a k * a k) + ((2*t) * (a k * b k) + b k * b k)) n).
      - apply sumn_ext; intros; ring.
      - rewrite sumn_plus, sumn_plus, !sumn_scal. ring. }
    rewrite <- E. apply sumn_nonneg; intros; apply sq_nonneg. }
  destruct (Qeq_dec A 0) as [HA0|HA0].
  - (* all a = 0 so S = 0 *)
    assert (S == 0). { unfold S. transitivity (sumn (fun _ => 0) n).
      apply sumn_ext; intros k Hk. rewrite (sumn_zero_sq a n HA0 k Hk). ring.
      clear. induction n; simpl; [reflexivity|rewrite IHn; ring]. }
    rewrite H, HA0. ring_simplify. apply Qle_refl.
  - assert (0 < A) by (destruct (Qlt_le_dec 0 A); auto; exfalso; apply HA0; lra).
    specialize (P (- S / A)).
    assert (E: A * (- S / A) * (- S / A) + 2 * S * (- S / A) + B == B - S*S/A) by (field; auto).
    rewrite E in P.
    assert (S*S/A <= B) by lra.
    apply (Qmult_le_compat_r _ _ A) in H0; [|lra].
    setoid_replace (S*S/A*A) with (S*S) in H0 by (field; auto). lra.
Qed.

