(* Base/QC.v — complex numbers over Q as pairs, with setoid equality ceq *)
From Coq Require Import QArith Lia Psatz Setoid Morphisms.
Open Scope Q_scope.

Definition C := (Q * Q)%type.
Definition re (z : C) : Q := fst z.
Definition im (z : C) : Q := snd z.
Definition c0 : C := (0, 0).
Definition c1 : C := (1, 0).
Definition cadd (a b : C) : C := (re a + re b, im a + im b).
Definition csub (a b : C) : C := (re a - re b, im a - im b).
Definition cneg (a : C) : C := (- re a, - im a).
Definition cmul (a b : C) : C := (re a * re b - im a * im b, re a * im b + im a * re b).
Definition cconj (a : C) : C := (re a, - im a).
Definition cscale (q : Q) (a : C) : C := (q * re a, q * im a).
Definition cnorm2 (a : C) : Q := re a * re a + im a * im a.
Definition ofQ (q : Q) : C := (q, 0).
Definition ceq (a b : C) : Prop := re a == re b /\ im a == im b.
Definition ceqb (a b : C) : bool := Qeq_bool (re a) (re b) && Qeq_bool (im a) (im b).
(* 1/z for z <> 0 *)
Definition cinv (a : C) : C := (re a / cnorm2 a, - im a / cnorm2 a).
Definition cdiv (a b : C) : C := cmul a (cinv b).

Infix "=c=" := ceq (at level 70).

Global Instance ceq_equiv : Equivalence ceq.
Proof.
  split.
  - intros [a b]; split; reflexivity.
  - intros x y [H1 H2]; split; symmetry; assumption.
  - intros x y z [H1 H2] [H3 H4]; split; etransitivity; eassumption.
Qed.

Global Instance cadd_proper : Proper (ceq ==> ceq ==> ceq) cadd.
Proof. intros a a' [H1 H2] b b' [H3 H4]; split; unfold cadd, re, im in *; simpl; rewrite ?H1, ?H2, ?H3, ?H4; reflexivity. Qed.
Global Instance cmul_proper : Proper (ceq ==> ceq ==> ceq) cmul.
Proof. intros a a' [H1 H2] b b' [H3 H4]; split; unfold cmul, re, im in *; simpl; rewrite ?H1, ?H2, ?H3, ?H4; reflexivity. Qed.
Global Instance cconj_proper : Proper (ceq ==> ceq) cconj.
Proof. intros a a' [H1 H2]; split; unfold cconj, re, im in *; simpl; rewrite ?H1, ?H2; reflexivity. Qed.
Global Instance cnorm2_proper : Proper (ceq ==> Qeq) cnorm2.
Proof. intros a a' [H1 H2]; unfold cnorm2, re, im in *; rewrite H1, H2; reflexivity. Qed.
Global Instance cneg_proper : Proper (ceq ==> ceq) cneg.
Proof. intros a a' [H1 H2]; split; unfold cneg, re, im in *; simpl; rewrite ?H1, ?H2; reflexivity. Qed.
Global Instance csub_proper : Proper (ceq ==> ceq ==> ceq) csub.
Proof. intros a a' [H1 H2] b b' [H3 H4]; split; unfold csub, re, im in *; simpl; rewrite ?H1, ?H2, ?H3, ?H4; reflexivity. Qed.
Global Instance cscale_proper : Proper (Qeq ==> ceq ==> ceq) cscale.
Proof. intros q q' Hq a a' [H1 H2]; split; unfold cscale, re, im in *; simpl; rewrite ?Hq, ?H1, ?H2; reflexivity. Qed.

(* tactic: reduce a ceq goal to two Q ring goals *)
Ltac cring := split; unfold cadd, csub, cneg, cmul, cconj, cscale, ofQ, c0, c1, cnorm2, re, im; simpl; ring.

Lemma cadd_comm a b : cadd a b =c= cadd b a. Proof. cring. Qed.
Lemma cadd_assoc a b c : cadd a (cadd b c) =c= cadd (cadd a b) c. Proof. cring. Qed.
Lemma cmul_comm a b : cmul a b =c= cmul b a. Proof. cring. Qed.
Lemma cmul_assoc a b c : cmul a (cmul b c) =c= cmul (cmul a b) c. Proof. cring. Qed.
Lemma cmul_add_distr_l a b c : cmul a (cadd b c) =c= cadd (cmul a b) (cmul a c). Proof. cring. Qed.
Lemma cmul_add_distr_r a b c : cmul (cadd a b) c =c= cadd (cmul a c) (cmul b c). Proof. cring. Qed.
Lemma cadd_0_l a : cadd c0 a =c= a. Proof. cring. Qed.
Lemma cadd_0_r a : cadd a c0 =c= a. Proof. cring. Qed.
Lemma cmul_1_l a : cmul c1 a =c= a. Proof. cring. Qed.
Lemma cmul_0_l a : cmul c0 a =c= c0. Proof. cring. Qed.
Lemma cconj_invol a : cconj (cconj a) =c= a. Proof. cring. Qed.
Lemma cconj_add a b : cconj (cadd a b) =c= cadd (cconj a) (cconj b). Proof. cring. Qed.
Lemma cconj_mul a b : cconj (cmul a b) =c= cmul (cconj a) (cconj b). Proof. cring. Qed.
Lemma cmul_conj_norm2 a : cmul a (cconj a) =c= ofQ (cnorm2 a). Proof. cring. Qed.
Lemma cnorm2_conj a : cnorm2 (cconj a) == cnorm2 a.
Proof. unfold cnorm2, cconj, re, im; simpl; ring. Qed.
Lemma cnorm2_mul a b : cnorm2 (cmul a b) == cnorm2 a * cnorm2 b.
Proof. unfold cnorm2, cmul, re, im; simpl; ring. Qed.
Lemma cnorm2_nonneg a : 0 <= cnorm2 a.
Proof.
  unfold cnorm2. assert (H : forall x : Q, 0 <= x * x).
  { intros x. destruct (Qlt_le_dec x 0).
    - setoid_replace (x * x) with ((- x) * (- x)) by ring. apply Qmult_le_0_compat; lra.
    - apply Qmult_le_0_compat; assumption. }
  pose proof (H (re a)); pose proof (H (im a)); lra.
Qed.
Lemma cnorm2_scale q a : cnorm2 (cscale q a) == q * q * cnorm2 a.
Proof. unfold cnorm2, cscale, re, im; simpl; ring. Qed.
Lemma cinv_r a : ~ cnorm2 a == 0 -> cmul a (cinv a) =c= c1.
Proof.
  destruct a as [x y]. unfold cnorm2, re, im; simpl. intros H.
  split; unfold cmul, cinv, c1, re, im, cnorm2; simpl; field; exact H.
Qed.

(* finite sums of complex numbers *)
Fixpoint csumn (f : nat -> C) (n : nat) : C :=
  match n with O => c0 | S n' => cadd (csumn f n') (f n') end.
Lemma csumn_ext f g n : (forall k, (k < n)%nat -> f k =c= g k) -> csumn f n =c= csumn g n.
Proof. induction n; simpl; intros H; [reflexivity|]. rewrite IHn, H; auto; reflexivity. Qed.
Lemma csumn_re f n : re (csumn f n) = re (csumn f n). Proof. reflexivity. Qed.
Lemma csumn_conj f n : cconj (csumn f n) =c= csumn (fun k => cconj (f k)) n.
Proof. induction n; simpl; [cring|]. rewrite cconj_add, IHn. reflexivity. Qed.
Lemma csumn_add f g n : csumn (fun k => cadd (f k) (g k)) n =c= cadd (csumn f n) (csumn g n).
Proof. induction n; simpl; [cring|]. rewrite IHn. cring. Qed.
Lemma csumn_mul_l c f n : csumn (fun k => cmul c (f k)) n =c= cmul c (csumn f n).
Proof. induction n; simpl; [cring|]. rewrite IHn. cring. Qed.
