(* Base/Lists.v — list helpers used by correspondence files *)
From Coq Require Import List Bool Arith ZArith.
Import ListNotations.

Fixpoint failing_from {A} (chk : A -> bool) (l : list A) (i : nat) : list nat :=
  match l with
  | [] => []
  | a :: l' => if chk a then failing_from chk l' (S i) else i :: failing_from chk l' (S i)
  end.
Definition failing {A} (chk : A -> bool) (l : list A) : list nat := failing_from chk l 0.

Lemma failing_from_nil_forallb {A} (chk : A -> bool) l i :
  failing_from chk l i = [] <-> forallb chk l = true.
Proof.
  revert i; induction l as [|a l IH]; intros i; simpl; [tauto|].
  destruct (chk a); simpl; [apply IH|]. split; discriminate.
Qed.

Fixpoint list_eqb {A} (eqb : A -> A -> bool) (l1 l2 : list A) : bool :=
  match l1, l2 with
  | [], [] => true
  | a :: l1', b :: l2' => eqb a b && list_eqb eqb l1' l2'
  | _, _ => false
  end.

Lemma list_eqb_eq {A} (eqb : A -> A -> bool) :
  (forall a b, eqb a b = true -> a = b) ->
  forall l1 l2, list_eqb eqb l1 l2 = true -> l1 = l2.
Proof.
  intros H l1; induction l1 as [|a l1 IH]; intros [|b l2]; simpl; try discriminate; auto.
  intros E. apply andb_prop in E as [E1 E2]. f_equal; auto.
Qed.

Definition option_eqb {A} (eqb : A -> A -> bool) (a b : option A) : bool :=
  match a, b with
  | None, None => true
  | Some x, Some y => eqb x y
  | _, _ => false
  end.

Definition zlist_eqb := list_eqb Z.eqb.
Definition natlist_eqb := list_eqb Nat.eqb.
Definition boollist_eqb := list_eqb Bool.eqb.
