(* Props/C18.v — property C18: filtering preserves the mean, the time axis and the pass band;
   linear in the data; the Fourier-domain filter is an exact projection.
   Only statements, each closed by `exact <lemma>` from Proofs/FilterP.v, Print Assumptions,
   non-vacuity Examples, `_refuted` theorems with witnesses, and the `_partial` note.

   Full statement (properties.jsonl): every filtering method returns a series with the same shape,
   sampling interval, start time and unit as its input and the same mean in every channel, and is
   linear in the data.  The Fourier-domain filter is an exact projection: Fourier components whose
   true frequency lies in [lb, ub] (and the mean) are unchanged, all others are zero, and filtering
   twice equals filtering once; the FIR and IIR filters pass a sinusoid well inside the band with
   near-unit gain and zero phase shift and strongly attenuate one well outside it.

   PARTIAL (C18_design_quality_partial below): the last clause (gain / phase / attenuation of the
   FIR and IIR designs) is a property of scipy.signal.firwin / iirdesign / filtfilt and is only
   probed numerically by the harness (evidence: design_probes_TESTS_ONLY). *)
From Coq Require Import QArith ZArith List Bool Arith PrimFloat.
From NT Require Import F2Z Close QC Sums TimeArray Filter FilterP FilterFloat.
Import ListNotations.
Open Scope Q_scope.

(* ============================ the Fourier-domain filter ============================ *)

(* mask(k) = mask(N-k), for the mask exactly as coded (get_freqs grid, idx_0, mirrored -idx_0) *)
Theorem C18_mask_symmetric : forall Fs n lb ub j, (0 < j < n)%nat ->
  zeroed n (idx0 Fs n lb ub) (n - j) = zeroed n (idx0 Fs n lb ub) j.
Proof. exact mask_symmetric. Qed.
Print Assumptions C18_mask_symmetric.

(* 0/1-valued mask with the DC bin put back: applying it twice = once (pointwise, any spectrum) *)
Theorem C18_mask_idempotent : forall n idx X j,
  masked n idx (masked n idx X) j = masked n idx X j.
Proof. exact mask_idempotent. Qed.
Print Assumptions C18_mask_idempotent.

(* which bins survive, for EVERY n, in terms of the frequency the code attributes to a bin *)
Theorem C18_fourier_band_as_coded : forall Fs n lb ub X j, (0 < j < n)%nat ->
  (lb <= cfreq Fs n j /\ cfreq Fs n j <= ub -> masked n (idx0 Fs n lb ub) X j = X j) /\
  (~ (lb <= cfreq Fs n j /\ cfreq Fs n j <= ub) -> masked n (idx0 Fs n lb ub) X j = c0).
Proof. exact fourier_band_coded. Qed.
Print Assumptions C18_fourier_band_as_coded.

(* even n: the attributed frequency is the true one, so the mask is exact by TRUE frequency *)
Theorem C18_fourier_band_exact : forall Fs n lb ub X j, Nat.even n = true -> (0 < j < n)%nat ->
  (lb <= tfreq Fs n j /\ tfreq Fs n j <= ub -> masked n (idx0 Fs n lb ub) X j = X j) /\
  (~ (lb <= tfreq Fs n j /\ tfreq Fs n j <= ub) -> masked n (idx0 Fs n lb ub) X j = c0).
Proof. exact fourier_band_exact_even. Qed.
Print Assumptions C18_fourier_band_exact.

Theorem C18_fourier_ub_none_is_nyquist : forall Fs n, (0 < n)%nat -> Nat.even n = true ->
  ub_eff Fs n None == Fs / 2.
Proof. exact ub_eff_none_even. Qed.

(* odd n >= 3: get_freqs labels bin k with k Fs/(n-1), i.e. n/(n-1) times its true frequency ... *)
Theorem C18_fourier_grid_odd : forall Fs n j, (3 <= n)%nat -> Nat.odd n = true ->
  cfreq Fs n j * qn (n - 1) == tfreq Fs n j * qn n.
Proof. exact cfreq_odd. Qed.
(* ... REFUTED for odd n: a bin whose true frequency lies in [lb, ub] (0 <= lb < ub <= Nyquist) is
   nulled.  Witness Fs = 1, n = 5, lb = 0, ub = 0.22, bin 1 (true 0.2, labelled 0.25). *)
Theorem C18_fourier_band_odd_refuted :
  exists Fs n lb ub j, Nat.odd n = true /\ (0 < j < n)%nat /\ 0 <= lb /\ lb < ub /\ ub <= Fs / 2 /\
    lb <= tfreq Fs n j /\ tfreq Fs n j <= ub /\
    forall X, masked n (idx0 Fs n lb ub) X j = c0.
Proof. exact fourier_band_odd_refuted. Qed.
Print Assumptions C18_fourier_band_odd_refuted.

(* time domain, given the contract of the library transform pair (a Prop-valued record: inverse,
   extensionality, spectrum of the real part, conjugate symmetry, DC = sum, linearity).
   All n > 0 of both parities, all data, all lb / ub (ub may be None). *)
Theorem C18_fourier_output_spectrum : forall Fs n lb ub fft ifft, dft_contract n fft ifft ->
  forall x k, (k < n)%nat ->
  fft (fourier Fs n lb ub fft ifft x) k =c= masked n (fmask Fs n lb ub) (fft x) k.
Proof. exact fourierC_spectrum. Qed.
Print Assumptions C18_fourier_output_spectrum.

(* mask symmetric => real output: np.real discards an imaginary part that is exactly zero *)
Theorem C18_fourier_output_real : forall Fs n lb ub fft ifft, dft_contract n fft ifft ->
  forall x t, (t < n)%nat ->
  ifft (masked n (fmask Fs n lb ub) (fft x)) t =c= ofQ (fourier Fs n lb ub fft ifft x t).
Proof. exact fourierC_real. Qed.

Theorem C18_fourier_keeps_mean : forall Fs n lb ub fft ifft, (0 < n)%nat -> dft_contract n fft ifft ->
  forall x, mean (fourier Fs n lb ub fft ifft x) n == mean x n.
Proof. exact fourierC_keeps_mean. Qed.
Print Assumptions C18_fourier_keeps_mean.

Theorem C18_fourier_twice_is_once : forall Fs n lb ub fft ifft, (0 < n)%nat -> dft_contract n fft ifft ->
  forall x t, (t < n)%nat ->
  fourier Fs n lb ub fft ifft (fourier Fs n lb ub fft ifft x) t == fourier Fs n lb ub fft ifft x t.
Proof. exact fourierC_idempotent. Qed.
Print Assumptions C18_fourier_twice_is_once.

Theorem C18_fourier_linear : forall Fs n lb ub fft ifft, (0 < n)%nat -> dft_contract n fft ifft ->
  forall a b x y t, (t < n)%nat ->
  fourier Fs n lb ub fft ifft (fun s => a * x s + b * y s) t
  == a * fourier Fs n lb ub fft ifft x t + b * fourier Fs n lb ub fft ifft y t.
Proof. exact fourierC_linear. Qed.
Print Assumptions C18_fourier_linear.

(* exact projection, even n: output coefficients by TRUE frequency; the DC coefficient is kept *)
Theorem C18_fourier_projection : forall Fs n lb ub fft ifft, (0 < n)%nat -> dft_contract n fft ifft ->
  forall x k, Nat.even n = true -> (0 < k < n)%nat ->
  (lb <= tfreq Fs n k /\ tfreq Fs n k <= ub_eff Fs n ub ->
     fft (fourier Fs n lb ub fft ifft x) k =c= fft x k) /\
  (~ (lb <= tfreq Fs n k /\ tfreq Fs n k <= ub_eff Fs n ub) ->
     fft (fourier Fs n lb ub fft ifft x) k =c= c0).
Proof. exact fourierC_projection_even. Qed.
Print Assumptions C18_fourier_projection.
Theorem C18_fourier_dc_kept : forall Fs n lb ub fft ifft, (0 < n)%nat -> dft_contract n fft ifft ->
  forall x, fft (fourier Fs n lb ub fft ifft x) 0%nat =c= fft x 0%nat.
Proof. exact fourierC_dc_kept. Qed.

(* the function the correspondence evaluates (mask, then the spectrum of np.real of the inverse) is
   the mask itself on the spectrum of real data *)
Theorem C18_fourier_spec_is_masked : forall Fs n lb ub X k, csym n X -> (k < n)%nat ->
  fourier_spec Fs n lb ub X k =c= masked n (fmask Fs n lb ub) X k.
Proof. exact fourier_spec_is_masked. Qed.

(* non-vacuity of the band theorems: Fs = 4, n = 8, band [0.75, 1.5]: bins 2, 3 (1 Hz, 1.5 Hz) and
   their mirrors are kept, bins 1, 4 and mirrors are nulled *)
Example C18_band_hypotheses_met :
  Nat.even 8 = true /\ (0 < 2 < 8)%nat /\ (0 < 1 < 8)%nat /\
  Qle_bool (3 # 4) (tfreq 4 8 2) && Qle_bool (tfreq 4 8 2) (3 # 2) = true /\
  Qle_bool (3 # 4) (tfreq 4 8 1) && Qle_bool (tfreq 4 8 1) (3 # 2) = false /\
  zeroed 8 (idx0 4 8 (3 # 4) (3 # 2)) 2 = false /\ zeroed 8 (idx0 4 8 (3 # 4) (3 # 2)) 1 = true /\
  zeroed 8 (idx0 4 8 (3 # 4) (3 # 2)) 7 = true /\ zeroed 8 (idx0 4 8 (3 # 4) (3 # 2)) 6 = false.
Proof. exact band_hyps_example. Qed.

(* non-vacuity: the contract is met by the actual 4-point DFT over Q[i], and a concrete run *)
Example C18_contract_inhabited : dft_contract 4 fft4 ifft4.
Proof. exact dft4_contract. Qed.
Example C18_fourier_run :
  map (fourier 4 4 0 (Some 1) fft4 ifft4 (lq [1; 2; 3; 5])) [0; 1; 2; 3]%nat
  = [7 # 4; 5 # 4; 15 # 4; 17 # 4] /\
  map (fun k => masked 4 (fmask 4 4 0 (Some 1)) (fft4 (lq [1; 2; 3; 5])) k) [0; 1; 2; 3]%nat
  = [(11, 0); (-2, 3); c0; (-2, -3)].
Proof. exact fourier4_example. Qed.

(* ============================ filtfilt wrapper, fir, iir ============================ *)

(* whatever scipy.signal.filtfilt returned (y), the wrapper's output has the input's mean: the code
   guarantees the mean unconditionally (not only when the filter kills DC) *)
Theorem C18_dc_restore_mean : forall n x y, (0 < n)%nat -> mean (dc_restore n x y) n == mean x n.
Proof. exact dc_restore_mean. Qed.
Print Assumptions C18_dc_restore_mean.

(* given a linear filtfilt, the wrapped filter is linear *)
Theorem C18_dc_restore_linear : forall n F,
  (forall a b x y t, (t < n)%nat -> F (fun s => a * x s + b * y s) t == a * F x t + b * F y t) ->
  forall a b x y t, (t < n)%nat ->
  wrapped n F (fun s => a * x s + b * y s) t == a * wrapped n F x t + b * wrapped n F y t.
Proof. exact wrapped_lin. Qed.
Print Assumptions C18_dc_restore_linear.

(* the public keyword in_ts of FilterAnalyzer.filtfilt: the series that is filtered is in_ts; its mean
   is kept, the analyzer's own data play no part, the map in_ts -> output is linear, and (below)
   the output axis is that of in_ts *)
Theorem C18_filtfilt_in_ts_mean : forall n F own x, (0 < n)%nat ->
  mean (filtfilt_method n F own (Some x)) n == mean x n.
Proof. exact filtfilt_in_ts_mean. Qed.
Theorem C18_filtfilt_in_ts_independent_of_own : forall n F own own' x t,
  filtfilt_method n F own (Some x) t = filtfilt_method n F own' (Some x) t.
Proof. exact filtfilt_in_ts_indep. Qed.
Theorem C18_filtfilt_in_ts_linear : forall n F own,
  (forall a b x y t, (t < n)%nat -> F (fun s => a * x s + b * y s) t == a * F x t + b * F y t) ->
  forall a b x y t, (t < n)%nat ->
  filtfilt_method n F own (Some (fun s => a * x s + b * y s)) t
  == a * filtfilt_method n F own (Some x) t + b * filtfilt_method n F own (Some y) t.
Proof. exact filtfilt_in_ts_lin. Qed.
Print Assumptions C18_filtfilt_in_ts_linear.
Theorem C18_filtfilt_in_ts_axis : forall own i, rate_consistent i ->
  filtfilt_method_axis own (Some i) = Some (mk_axis (in_shape i) (in_delta i) (in_t0 i) (in_unit i)).
Proof. exact filtfilt_in_ts_axis. Qed.

(* fir = any chain of wrapped stages (low-pass, then high-pass): mean kept, linear *)
Theorem C18_fir_chain_mean : forall n, (0 < n)%nat -> forall Fs x, mean (run n Fs x) n == mean x n.
Proof. exact run_mean. Qed.
Theorem C18_fir_chain_linear : forall n Fs, Forall (lin n) Fs -> forall a b x y t, (t < n)%nat ->
  run n Fs (fun s => a * x s + b * y s) t == a * run n Fs x t + b * run n Fs y t.
Proof. exact run_lin. Qed.
Print Assumptions C18_fir_chain_linear.
(* the same for the recorded library outputs used in the correspondence *)
Theorem C18_chain_mean : forall n x raws, (0 < n)%nat -> mean (chain n x raws) n == mean x n.
Proof. exact chain_mean. Qed.

(* which stages fir runs inside the documented range *)
Theorem C18_fir_plan : forall Fs lb ub order n,
  0 < Fs -> 0 <= lb -> ub <= Fs / 2 -> (order + 1 <= 3 * n)%nat ->
  fir_plan Fs lb (Some ub) order n =
  Plan (order + 1) ((if Qltb (ub / (Fs / 2)) 1 then [LP (ub / (Fs / 2))] else []) ++
                    (if Qltb 0 (lb / (Fs / 2)) then [HP (lb / (Fs / 2))] else [])).
Proof. exact fir_plan_ok. Qed.
Theorem C18_fir_lowpass_iff : forall Fs ub, 0 < Fs -> (Qltb (ub / (Fs / 2)) 1 = true <-> ub < Fs / 2).
Proof. exact fir_plan_stage_lp. Qed.
Theorem C18_fir_highpass_iff : forall Fs lb, 0 < Fs -> (Qltb 0 (lb / (Fs / 2)) = true <-> 0 < lb).
Proof. exact fir_plan_stage_hp. Qed.
(* ub exactly at the Nyquist frequency is no upper edge.  The code computes the fraction of Nyquist as
   ub / (Fs / 2.) and branches on ub_frac < 1 / ub_frac == 1: for ub = Fs / 2. the float64 quotient is EXACTLY
   1.0 for every sampling rate whose half is finite and non-zero (x / x = 1 in IEEE binary64; proved through
   Flocq's Bdiv_correct, so Coq's Reals axioms and the float specification axioms appear below), hence fir
   plans the same stages and iir hands iirdesign the same specification as for ub = None. *)
Theorem C18_ub_nyquist_frac_exact : forall Fs, 0 < Fs -> ub_frac Fs (Some (Fs / 2)) == 1.
Proof. exact ub_nyquist_frac_exact. Qed.
Theorem C18_ub_nyquist_frac_one_float : forall Fs m e, f2ze (half_f Fs) = Some (m, e) -> m <> 0%Z ->
  ub_frac_f Fs (Some (half_f Fs)) = 1%float.
Proof. exact ub_nyquist_frac_one. Qed.
Print Assumptions C18_ub_nyquist_frac_one_float.
Theorem C18_fir_plan_nyquist_is_none : forall Fs lb order n m e, f2ze (half_f Fs) = Some (m, e) -> m <> 0%Z ->
  fir_plan_fl Fs lb (Some (half_f Fs)) order n = fir_plan_fl Fs lb None order n.
Proof. exact fir_plan_nyquist_is_none. Qed.
Theorem C18_iir_spec_nyquist_is_none : forall Fs lb m e, f2ze (half_f Fs) = Some (m, e) -> m <> 0%Z ->
  iir_spec_fl Fs lb (Some (half_f Fs)) = iir_spec_fl Fs lb None.
Proof. exact iir_spec_nyquist_is_none. Qed.
(* the hypotheses are met by 49 Hz and by an interval of 0.72 s, for which the algebraically equal product
   ub * (2. / Fs) is NOT 1.0 *)
Example C18_nyquist_examples :
  f2ze (half_f 49%float) = Some (6896136929411072%Z, (-48)%Z) /\
  PrimFloat.eqb (PrimFloat.mul (half_f 49%float) (PrimFloat.div 2 49)) 1 = false /\
  PrimFloat.eqb (PrimFloat.div (half_f 49%float) (half_f 49%float)) 1 = true /\
  (let Fs := PrimFloat.div 1 0x1.70a3d70a3d70ap-1%float in
   PrimFloat.eqb (PrimFloat.mul (half_f Fs) (PrimFloat.div 2 Fs)) 1 = false /\
   PrimFloat.eqb (PrimFloat.div (half_f Fs) (half_f Fs)) 1 = true).
Proof. exact nyquist_examples. Qed.

(* spectral inversion: DC gain of the high-pass taps = 1 - DC gain of the low-pass taps
   (so the high-pass stage kills DC whenever firwin's taps sum to 1) *)
Theorem C18_hp_taps_dc : forall ntaps b, (0 < ntaps)%nat ->
  sumn (hp_taps ntaps b) ntaps == 1 - sumn b ntaps.
Proof. exact hp_taps_dc. Qed.

Example C18_linear_filter_exists : lin 5 (fun x t => 2 * x t + x (t - 1)%nat).
Proof. exact lin_example. Qed.
Example C18_fir_plan_runs :
  fir_plan 2 (1 # 5) (Some (3 # 5)) 8 44 = Plan 9 [LP ((3 # 5) / (2 / 2)); HP ((1 # 5) / (2 / 2))] /\
  fir_plan 2 0 None 8 44 = Plan 9 [] /\ fir_plan 2 0 (Some (1 # 5)) 40 12 = PlanErr /\
  fir_plan 2 0 (Some (6 # 5)) 8 44 = PlanErr.
Proof. exact fir_plan_example. Qed.
(* iir: the (wp, ws) handed to scipy.signal.iirdesign.  The stop-band edge lies strictly outside the
   pass band exactly when lb > 0.1 Nyquist (high-pass), ub < 0.9 Nyquist (low-pass),
   0.001 < lb < ub < 0.999 Nyquist (band-pass) ... *)
Theorem C18_iir_highpass_spec : forall lbf, 1 # 10 < lbf -> lbf < 1 ->
  exists ws, iir_of_fracs lbf 1 = IirHigh lbf ws /\ 0 < ws /\ ws < lbf.
Proof. exact iir_high_ok. Qed.
Theorem C18_iir_lowpass_spec : forall ubf, 0 < ubf -> ubf < 9 # 10 ->
  exists ws, iir_of_fracs 0 ubf = IirLow ubf ws /\ ubf < ws /\ ws < 1.
Proof. exact iir_low_ok. Qed.
Theorem C18_iir_bandpass_spec : forall lbf ubf, 1 # 1000 < lbf -> lbf < ubf -> ubf < 999 # 1000 ->
  exists ws1 ws2, iir_of_fracs lbf ubf = IirBand lbf ubf ws1 ws2 /\
    0 < ws1 /\ ws1 < lbf /\ ubf < ws2 /\ ws2 < 1.
Proof. exact iir_band_ok. Qed.
Print Assumptions C18_iir_bandpass_spec.
(* ... and REFUTED outside: a high-pass at lb = 0.08 Nyquist gets ws = 0.1 > wp (scipy designs a
   LOW-pass), a low-pass at ub = 0.95 Nyquist gets ws = 0.9 < wp (scipy designs a HIGH-pass) *)
Theorem C18_iir_highpass_spec_refuted : exists lbf, 0 < lbf /\ lbf < 1 /\
  exists ws, iir_of_fracs lbf 1 = IirHigh lbf ws /\ lbf < ws.
Proof. exact iir_high_refuted. Qed.
Theorem C18_iir_lowpass_spec_refuted : exists ubf, 0 < ubf /\ ubf < 1 /\
  exists ws, iir_of_fracs 0 ubf = IirLow ubf ws /\ ws < ubf.
Proof. exact iir_low_refuted. Qed.
Print Assumptions C18_iir_highpass_spec_refuted.

Example C18_dc_restore_nonvacuous :
  all2 Qeq_bool (map (dc_restore 3 (lq [1; 2; 6]) (lq [0; 1; 1])) [0; 1; 2]%nat) [7 # 3; 10 # 3; 10 # 3] = true
  /\ mean (lq [1; 2; 6]) 3 == 3.
Proof. vm_compute. split; reflexivity. Qed.

(* ============================ the axis of the output ============================ *)

(* every method (fir with any number of stages, iir, filtfilt, Fourier, boxcar): the output has the
   input's shape, t0 and unit, and the interval that the TimeSeries constructor derives from the
   input's rate and unit *)
Theorem C18_filter_axis : forall m i a, out_axis m i = Some a ->
  ashape a = in_shape i /\ at0 a = in_t0 i /\ aunit a = in_unit i /\
  interval_by_rate (in_Fs i) (in_unit i) = Some (adelta a).
Proof. exact out_axis_inv. Qed.
Print Assumptions C18_filter_axis.

(* hence shape, Delta, t0 and unit are all the input's whenever the input's stored interval is the
   one its rate gives (every series built from a rate; series built from an interval as long as the
   float rate reproduces it) *)
Theorem C18_filter_axis_ok : forall m i, rate_consistent i ->
  out_axis m i = Some (mk_axis (in_shape i) (in_delta i) (in_t0 i) (in_unit i)).
Proof. exact filter_axis_ok. Qed.
Print Assumptions C18_filter_axis_ok.

Example C18_filter_axis_run :
  out_axis (MFir 2) (mk_tsin [2; 44]%Z 2%float 500000000000%Z 5000000000%Z Ums)
  = Some (mk_axis [2; 44]%Z 500000000000%Z 5000000000%Z Ums) /\
  rate_consistent (mk_tsin [2; 44]%Z 2%float 500000000000%Z 5000000000%Z Ums).
Proof. exact axis_example. Qed.
Example C18_rate_consistent_inputs :
  interval_by_rate 2%float Us = Some 500000000000%Z /\
  interval_by_rate 2%float Ums = Some 500000000000%Z /\
  interval_by_rate 2%float Uus = Some 500000000000%Z /\
  interval_by_rate (PrimFloat.div 1 0x1.a064ece9a2c67p-1)%float Us = Some 813270000000%Z.
Proof. exact rate_consistent_examples. Qed.

(* REFUTED for intervals beyond float resolution: a series given sampling_interval = 100000 s
   (stored exactly: 10^17 ps) comes back from every filter with an interval 16 ps shorter *)
Theorem C18_filter_axis_delta_refuted :
  exists m i a, in_Fs i = PrimFloat.div 1 0x1.86ap+16%float /\
    ctor_float1 (factor (in_unit i)) 0x1.86ap+16%float = Some (in_delta i) /\
    out_axis m i = Some a /\ adelta a <> in_delta i.
Proof. exact filter_axis_delta_refuted. Qed.
Print Assumptions C18_filter_axis_delta_refuted.

(* ============================ boxcar ============================ *)

(* the excision takes exactly n points, all of them where the box fully overlaps the padded signal *)
Theorem C18_boxcar_excision : forall n L, (1 <= n)%Z -> (1 <= L)%Z ->
  (L - 1 <= ex_start n L /\ ex_stop n L - ex_start n L = n /\ ex_stop n L <= n + 2 * L /\
   ex_stop n L <= clen n L)%Z.
Proof. exact excision_ok. Qed.
Print Assumptions C18_boxcar_excision.

(* filtered_boxcar (with the DC restoration of bf2d0bb): mean kept, linear, for all box lengths *)
Theorem C18_boxcar_keeps_mean : forall n Lub Llb x, (0 < n)%nat ->
  mean (boxcar_out n Lub Llb x) n == mean x n.
Proof. exact boxcar_out_mean. Qed.
Print Assumptions C18_boxcar_keeps_mean.
Theorem C18_boxcar_linear : forall n Lub Llb a b x y j, (0 < n)%nat -> (j < n)%nat ->
  boxcar_out n Lub Llb (fun s => a * x s + b * y s) j
  == a * boxcar_out n Lub Llb x j + b * boxcar_out n Lub Llb y j.
Proof. exact boxcar_out_lin. Qed.
Print Assumptions C18_boxcar_linear.

(* boxcar_filter itself: unit DC gain, identity for a box of length 1, and the pure high-pass keeps
   the mean ... *)
Theorem C18_boxcar_unit_dc_gain : forall n L c j, (1 <= n)%Z -> (1 <= L)%Z -> (Z.of_nat j < n)%Z ->
  lowpass n L (fun _ => c) j == c.
Proof. exact lowpass_const. Qed.
Theorem C18_boxcar_box1_identity : forall n x j, (Z.of_nat j < n)%Z -> lowpass n 1 x j == x j.
Proof. exact lowpass_L1. Qed.
Theorem C18_boxcar_highpass_mean : forall n L x, (0 < n)%nat ->
  mean (boxcar_chan n 1 (Some L) x) n == mean x n.
Proof. exact boxcar_highpass_mean. Qed.
(* ... but REFUTED in general: edge padding + box + excision shifts the mean (this was the output of
   filtered_boxcar before the fix).  Witness n = 4, box length 2, x = 0,0,0,1. *)
Theorem C18_boxcar_mean_refuted :
  exists n L x, (0 < n)%nat /\ (1 <= L)%Z /\ ~ mean (boxcar_chan n L None x) n == mean x n.
Proof. exact boxcar_filter_mean_refuted. Qed.
Print Assumptions C18_boxcar_mean_refuted.

Example C18_boxcar_run :
  all2 Qeq_bool (map (boxcar_chan 4 2 None (lq [0; 0; 0; 1])) [0; 1; 2; 3]%nat) [0; 0; 0; 1 # 2] = true /\
  all2 Qeq_bool (map (boxcar_out 4 2 None (lq [0; 0; 0; 1])) [0; 1; 2; 3]%nat)
                [1 # 8; 1 # 8; 1 # 8; 5 # 8] = true.
Proof. vm_compute. split; reflexivity. Qed.

(* ============================ what is not proved ============================ *)
(* C18_design_quality_partial.  Missing: "the FIR and IIR filters pass a sinusoid well inside the band
   with near-unit gain and zero phase shift and strongly attenuate one well outside it".  What IS
   proved about these two methods: mean, linearity (given a linear filtfilt), output axis, the stage
   plan and the tap inversion; the rest is tested on probe sinusoids by the harness. *)
Theorem C18_design_quality_partial : forall n, (0 < n)%nat -> forall Fs x,
  mean (run n Fs x) n == mean x n.
Proof. exact run_mean. Qed.
