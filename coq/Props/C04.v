(* Props/C04.v — property C04: spectral density estimates integrate to the signal power
   (Parseval); scaling by |a|^2; one-sided = folded two-sided; real, non-negative.
   Statements only, each closed by `exact <lemma>` (Proofs/SpectralP.v, Proofs/CsdP.v).

   Reading guide.  X (resp. Y k) is the value returned by the library FFT for the signal x (resp.
   for the k-th tapered, de-meaned signal); the FFT enters only through the hypotheses written in
   each theorem: the energy identity  sum_k |X k|^2 = NFFT * sum_t |x t|^2  (zero padding to
   NFFT >= n included), conjugate symmetry X(N-k) = conj (X k) for real input, linearity.
   N = NFFT (number of bins), n = number of samples, Fs the sampling rate; the bin width is Fs/N.
   All theorems hold for every N, n (both parities), every Fs, every channel. *)
From Coq Require Import QArith List Arith Bool Lia.
From NT Require Import QC Sums Spectral SpectralP Csd CsdP Adaptive AdaptiveP.
Open Scope Q_scope.

(* ---------------------------------------------------------------- periodogram *)
(* the one-sided assembly written in the code is Base/Sums.onesided on the returned bins *)
Theorem C04_assemble_is_onesided : forall N q k, (k < Fn N)%nat ->
  assemble 0 (fun v => 2 * v) N q k = onesided N q k.
Proof. exact assemble_onesided. Qed.

Theorem C04_periodogram_parseval : forall (N n : nat) (Fs : Q) (X : sig),
  (0 < N)%nat -> (0 < n)%nat -> ~ Fs == 0 ->
  forall (sd : sides) (x : sig),
  sumn (fun k => cnorm2 (X k)) N == inj N * sumn (fun t => cnorm2 (x t)) n ->
  (sd = OneSided -> forall k, (0 < k < N)%nat -> X (N - k)%nat =c= cconj (X k)) ->
  sumn (fun k => periodogram sd true N n Fs X k * (Fs / inj N)) (out_len sd N)
  == sumn (fun t => cnorm2 (x t)) n / inj n.
Proof. exact periodogram_parseval. Qed.
Print Assumptions C04_periodogram_parseval.

Theorem C04_periodogram_nonneg : forall sd nrm N n Fs X k,
  (0 < n)%nat -> 0 < Fs -> 0 <= periodogram sd nrm N n Fs X k.
Proof. exact periodogram_nonneg'. Qed.
(* "real": the model's periodogram is Q-valued because the code takes `.real` of Sk*conj(Sk);
   that nothing is lost is [sq z = |z|^2]: *)
Theorem C04_periodogram_real : forall z, sq z == cnorm2 z.
Proof. exact sq_cnorm2. Qed.

Theorem C04_periodogram_scale_sq : forall sd nrm N n Fs (X X' : sig) (a : C) k,
  (forall j, X' j =c= cmul a (X j)) ->
  periodogram sd nrm N n Fs X' k == cnorm2 a * periodogram sd nrm N n Fs X k.
Proof. exact periodogram_scale_sq. Qed.
Print Assumptions C04_periodogram_scale_sq.

Theorem C04_periodogram_onesided_is_fold : forall nrm N n Fs (X : sig) k,
  (0 < N)%nat -> (k < Fn N)%nat ->
  (forall k, (0 < k < N)%nat -> X (N - k)%nat =c= cconj (X k)) ->
  periodogram OneSided nrm N n Fs X k == fold2 N (periodogram TwoSided nrm N n Fs X) k.
Proof. exact periodogram_onesided_is_fold. Qed.
Print Assumptions C04_periodogram_onesided_is_fold.

(* REFUTED sub-claim (known finding C04/sides-onesided/complex-input): the statement quantifies over
   complex signals and sides='onesided'.  All four estimators then keep bins 0..N/2 and double
   1..Fl-1 although the spectrum has no conjugate symmetry, so the result is not the fold of the
   two-sided output and does not integrate to the power.  Witness: x = (1, i, 0, 0) with its true
   4-point DFT: the one-sided sum is 3/4, the mean power 1/2. *)
Theorem C04_onesided_complex_refuted :
  exists (x : sig),
    sumn (fun k => cnorm2 (dft4 x k)) 4 == inj 4 * sumn (fun t => cnorm2 (x t)) 4 /\
    ~ (sumn (fun k => periodogram OneSided true 4 4 1 (dft4 x) k * (1 / inj 4)) (out_len OneSided 4)
       == sumn (fun t => cnorm2 (x t)) 4 / inj 4) /\
    ~ (periodogram OneSided true 4 4 1 (dft4 x) 1 == fold2 4 (periodogram TwoSided true 4 4 1 (dft4 x)) 1).
Proof. exact onesided_complex_refuted. Qed.
Print Assumptions C04_onesided_complex_refuted.

(* ---------------------------------------------------------------- all-pairs periodogram *)
(* diagonal of periodogram_csd (as repaired: division by Fs * n) integrates to the mean power for
   every NFFT; it is real and equals the single-channel periodogram *)
Theorem C04_pcsd_parseval : forall N n Fs (X : nat -> sig) i sd (x : sig),
  (0 < N)%nat -> (0 < n)%nat -> ~ Fs == 0 ->
  sumn (fun k => cnorm2 (X i k)) N == inj N * sumn (fun t => cnorm2 (x t)) n ->
  (sd = OneSided -> forall k, (0 < k < N)%nat -> X i (N - k)%nat =c= cconj (X i k)) ->
  sumn (fun f => re (pcsd sd true N n Fs X i i f) * (Fs / inj N)) (out_len sd N)
  == sumn (fun t => cnorm2 (x t)) n / inj n.
Proof. exact pcsd_parseval. Qed.
Print Assumptions C04_pcsd_parseval.

Theorem C04_pcsd_diag_real_periodogram : forall sd nrm N n Fs X i f,
  pcsd sd nrm N n Fs X i i f =c= ofQ (periodogram sd nrm N n Fs (X i) f).
Proof. exact pcsd_diag_is_periodogram. Qed.

(* ---------------------------------------------------------------- multi_taper_csd as a PSD route
   (directly, or through get_spectra(this_method='multi_taper_csd')).  N below is the TRANSFORM
   length NFFT: the model of mtm_cross_spectrum / multi_taper_csd has no other length argument, so
   the set of doubled bins 1 .. Fl N - 1 (and whether a Nyquist bin exists) is a function of NFFT
   only, never of the number of samples; both theorems hold for every NFFT of either parity. *)
Theorem C04_mtcsd_parseval : forall sd N K Fs (rt lam : nat -> Q) (d : nat -> nat -> Q) (Y : nat -> nat -> sig) i
    (E : nat -> Q),
  (0 < N)%nat -> ~ Fs == 0 ->
  (forall k, (k < K)%nat -> rt k * rt k == lam k) ->
  ~ sumn lam K == 0 ->
  (forall f, d i f * d i f == auto_denom K (fun k _ => rt k) f) ->
  (forall k, (k < K)%nat -> sumn (fun f => cnorm2 (Y i k f)) N == inj N * E k) ->
  (sd = OneSided -> forall k f, (k < K)%nat -> (0 < f < N)%nat -> Y i k (N - f)%nat =c= cconj (Y i k f)) ->
  sumn (fun f => re (mtcsd sd N K Fs (fun _ k _ => rt k) d Y i i f) * (Fs / inj N)) (out_len sd N)
  == sumn (fun k => lam k * E k) K / sumn lam K.
Proof. exact mtcsd_parseval. Qed.
Print Assumptions C04_mtcsd_parseval.
Theorem C04_mtcsd_diag_onesided_is_fold : forall N K Fs (w : nat -> nat -> nat -> Q) (d : nat -> nat -> Q)
    (Y : nat -> nat -> sig) i f,
  (0 < N)%nat -> (f < Fn N)%nat ->
  (forall g, d i g * d i g == auto_denom K (w i) g) ->
  (forall k f, (k < K)%nat -> (0 < f < N)%nat -> Y i k (N - f)%nat =c= cconj (Y i k f)) ->
  (forall k f, (k < K)%nat -> (0 < f < N)%nat -> w i k (N - f)%nat == w i k f) ->
  re (mtcsd OneSided N K Fs w d Y i i f) == fold2 N (fun g => re (mtcsd TwoSided N K Fs w d Y i i g)) f.
Proof. exact mtcsd_diag_onesided_is_fold. Qed.
(* ... and the diagonal is the single-channel estimate with the same keywords *)
Theorem C04_mtcsd_diag_is_psd : forall sd N K Fs w d Y i f,
  d i f * d i f == auto_denom K (w i) f ->
  mtcsd sd N K Fs w d Y i i f =c= ofQ (mt_psd sd N K Fs (w i) (Y i) f).
Proof. exact mtcsd_diag_is_psd. Qed.

(* ---------------------------------------------------------------- multitaper *)
(* eigenvalue weights (w_k = sqrt lam_k, constant over frequency): the estimate integrates to the
   lam-weighted mean of the energies E k of the K tapered, de-meaned signals *)
Theorem C04_mt_parseval : forall (sd : sides) (N K : nat) (Fs : Q) (rt lam : nat -> Q) (Y : nat -> sig)
    (E : nat -> Q),
  (0 < N)%nat -> ~ Fs == 0 ->
  (forall k, (k < K)%nat -> rt k * rt k == lam k) ->
  ~ sumn lam K == 0 ->
  (forall k, (k < K)%nat -> sumn (fun f => cnorm2 (Y k f)) N == inj N * E k) ->
  (sd = OneSided -> forall k f, (k < K)%nat -> (0 < f < N)%nat -> Y k (N - f)%nat =c= cconj (Y k f)) ->
  sumn (fun f => mt_psd sd N K Fs (fun k _ => rt k) Y f * (Fs / inj N)) (out_len sd N)
  == sumn (fun k => lam k * E k) K / sumn lam K.
Proof. exact mt_parseval. Qed.
Print Assumptions C04_mt_parseval.

(* any weights, in particular the adaptive ones: at each frequency the estimate lies within the
   range of the K individual tapered spectra *)
Theorem C04_mt_adaptive_between : forall (sd : sides) (N K : nat) (Fs : Q) (w : nat -> nat -> Q)
    (Y : nat -> sig) (f : nat) (lo hi : Q),
  0 < Fs -> 0 < auto_denom K w f ->
  (forall k, (k < K)%nat -> lo <= mt_single sd N Fs Y k f <= hi) ->
  lo <= mt_psd sd N K Fs w Y f <= hi.
Proof. exact mt_adaptive_between. Qed.
Print Assumptions C04_mt_adaptive_between.

Theorem C04_mt_nonneg : forall sd N K Fs w (Y : nat -> sig) f, 0 < Fs -> 0 <= mt_psd sd N K Fs w Y f.
Proof. exact mt_psd_nonneg. Qed.
(* the imaginary part dropped by `return sf.real` is zero *)
Theorem C04_mt_real : forall sd N K w (Y : nat -> sig) f, im (mtm_auto_c sd N K w Y f) == 0.
Proof. exact mtm_auto_real. Qed.

Theorem C04_mt_scale_sq : forall sd N K Fs w (Y Y' : nat -> sig) (a : C) f,
  (forall k j, Y' k j =c= cmul a (Y k j)) ->
  mt_psd sd N K Fs w Y' f == cnorm2 a * mt_psd sd N K Fs w Y f.
Proof. exact mt_scale_sq. Qed.
(* ... and the input of the FFT is linear in the signal (de-meaning and tapering) *)
Theorem C04_tapered_scale : forall n (x : sig) (a : C) taper t,
  tapered n (fun t => cmul a (x t)) taper t =c= cmul a (tapered n x taper t).
Proof. exact tapered_scale. Qed.

Theorem C04_mt_onesided_is_fold : forall N K Fs w (Y : nat -> sig) f,
  (0 < N)%nat -> (f < Fn N)%nat ->
  (forall k f, (k < K)%nat -> (0 < f < N)%nat -> Y k (N - f)%nat =c= cconj (Y k f)) ->
  (forall k f, (k < K)%nat -> (0 < f < N)%nat -> w k (N - f)%nat == w k f) ->
  mt_psd OneSided N K Fs w Y f == fold2 N (mt_psd TwoSided N K Fs w Y) f.
Proof. exact mt_onesided_is_fold. Qed.
Print Assumptions C04_mt_onesided_is_fold.

(* ---------------------------------------------------------------- adaptive weights
   (Model/Adaptive.v: utils.adaptive_weights per frequency bin; m = number of passes of its loop) *)
(* FULL STATEMENT (C04): "for all estimators, scaling a signal by a multiplies its density by |a|^2".
   PARTIAL for adaptive weights: proved when x and a*x take the same number m of passes — then the
   weights are identical (C04_adaptive_weights_scale) and the estimate scales exactly.  Missing, and
   false for the code (known finding C04/multi_taper/adaptive-scale): that m is the same; the
   stopping rule compares cfn^2 with the constant 1e-12 while cfn is divided by |a|^2
   (C04_adaptive_stop_rule_not_scale_free), so m depends on the amplitude. *)
Theorem C04_adaptive_weights_scale : forall (m : nat) (dflt : nat -> bool) (sd : sides) (N K : nat)
    (rt lam : nat -> Q) (Y Y' : nat -> sig) (a : C),
  ~ cnorm2 a == 0 -> (forall k j, Y' k j =c= cmul a (Y k j)) ->
  forall k f, ad_weights m dflt sd N K rt lam Y' k f == ad_weights m dflt sd N K rt lam Y k f.
Proof. exact ad_weights_scale. Qed.
Theorem C04_mt_scale_sq_adaptive_partial : forall (m : nat) (dflt : nat -> bool) (sd : sides) (N K : nat)
    (rt lam : nat -> Q) (Y Y' : nat -> sig) (a : C),
  ~ cnorm2 a == 0 -> (forall k j, Y' k j =c= cmul a (Y k j)) ->
  forall Fs f,
  mt_psd_adaptive m dflt sd N K Fs rt lam Y' f == cnorm2 a * mt_psd_adaptive m dflt sd N K Fs rt lam Y f.
Proof. exact mt_adaptive_scale_same_passes. Qed.
Print Assumptions C04_mt_scale_sq_adaptive_partial.
Theorem C04_adaptive_stop_rule_not_scale_free : forall c, ~ c == 0 -> forall K lam bb ds S,
  ad_cfn K lam (fun k => c * bb k) (fun k => c * ds k) (c * S) == ad_cfn K lam bb ds S / c.
Proof. exact ad_cfn_scale. Qed.
Print Assumptions C04_adaptive_stop_rule_not_scale_free.

(* fewer than 3 tapers (NW = 1, or low_bias leaving 1-2 tapers): adaptive=True falls back to the
   weights sqrt(lam_k), so the estimate IS the fixed eigenvalue-weighted one and integrates to the
   lam-weighted power of the tapered signal *)
Theorem C04_adaptive_few_tapers_is_fixed : forall m dflt sd N K Fs rt lam Y f, (K < 3)%nat ->
  mt_psd_adaptive_all m dflt sd N K Fs rt lam Y f = mt_psd sd N K Fs (fun k _ => rt k) Y f.
Proof. exact adaptive_few_is_fixed. Qed.
Theorem C04_adaptive_few_tapers_parseval : forall m dflt sd N K Fs rt lam (Y : nat -> sig) (E : nat -> Q),
  (K < 3)%nat -> (0 < N)%nat -> ~ Fs == 0 ->
  (forall k, (k < K)%nat -> rt k * rt k == lam k) ->
  ~ sumn lam K == 0 ->
  (forall k, (k < K)%nat -> sumn (fun f => cnorm2 (Y k f)) N == inj N * E k) ->
  (sd = OneSided -> forall k f, (k < K)%nat -> (0 < f < N)%nat -> Y k (N - f)%nat =c= cconj (Y k f)) ->
  sumn (fun f => mt_psd_adaptive_all m dflt sd N K Fs rt lam Y f * (Fs / inj N)) (out_len sd N)
  == sumn (fun k => lam k * E k) K / sumn lam K.
Proof. exact adaptive_few_parseval. Qed.
Print Assumptions C04_adaptive_few_tapers_parseval.

(* REFUTED sub-claim (known finding C04/multi_taper/adaptive-onesided-fold): with adaptive weights the
   one-sided estimate is not the folded two-sided one — the one-sided iteration works on doubled
   spectra but an undoubled broadband-bias term, so it produces other weights.  Witness: 3 tapers,
   true 4-point DFTs of three real signals, one pass, bin 1. *)
Theorem C04_adaptive_onesided_fold_refuted :
  exists (K : nat) (rt lam : nat -> Q) (Y : nat -> sig),
    (forall k, rt k * rt k == lam k) /\
    (forall k f, (0 < f < 4)%nat -> Y k (4 - f)%nat =c= cconj (Y k f)) /\
    ~ (mt_psd_adaptive 1 (fun _ => false) OneSided 4 K 1 rt lam Y 1
       == fold2 4 (mt_psd_adaptive 1 (fun _ => false) TwoSided 4 K 1 rt lam Y) 1).
Proof. exact adaptive_onesided_fold_refuted. Qed.
Print Assumptions C04_adaptive_onesided_fold_refuted.

(* ---------------------------------------------------------------- non-vacuity *)
(* the hypotheses on the library FFT are met by a genuine DFT (4 points, over Q[i]) for EVERY signal *)
Example C04_fft_hyps_energy : forall x,
  sumn (fun k => cnorm2 (dft4 x k)) 4 == inj 4 * sumn (fun t => cnorm2 (x t)) 4.
Proof. exact dft4_energy. Qed.
Example C04_fft_hyps_sym : forall x k, (forall t, im (x t) == 0) -> (0 < k < 4)%nat ->
  dft4 x (4 - k)%nat =c= cconj (dft4 x k).
Proof. exact dft4_real_sym. Qed.
Example C04_fft_hyps_linear : forall a x k, dft4 (fun t => cmul a (x t)) k =c= cmul a (dft4 x k).
Proof. exact dft4_scale. Qed.
(* a concrete instance: x = (1, 2, 0, -1), Fs = 3, one-sided *)
Example C04_parseval_instance :
  let x : sig := fun t => match t with 0%nat => (1, 0) | 1%nat => (2, 0) | 3%nat => (-(1), 0) | _ => (0, 0) end in
  sumn (fun k => periodogram OneSided true 4 4 3 (dft4 x) k * (3 / inj 4)) (out_len OneSided 4) == 3 # 2.
Proof. vm_compute. reflexivity. Qed.
