(* Props/C17.v — property C17: a uniform time axis stays self-consistent through any sequence
   of operations.  Statements only (proofs in Proofs/UTimeOpsP.v), Print Assumptions,
   non-vacuity Examples, and the refutations of the sub-claims the faithful model violates.

   Reading guide.  `aspec` = the abstract axis (t0, dt, n); `spec_step` = what each operation
   is meant to do to it (None = must be refused); `ustate`/`ustep` = the model of the code
   (samples and the four attributes, exactly as UniformTime's methods update them);
   `R c a` = the concrete samples are t0 + i*dt, i < n, and t0 / sampling_interval / duration /
   sampling_rate equal t0 / dt / n*dt / 10^12/dt. *)
From Coq Require Import ZArith List Bool QArith.
From NT Require Import TimeArray UTimeOps UTimeOpsP.
Import ListNotations.
Open Scope Z_scope.

(* 1. The abstract machine: every permitted operation maps a well-formed axis to a well-formed
      axis whose samples are exactly the operation applied to the old samples ... *)
Theorem C17_spec_step_sound : forall cf op s s',
  wf s -> spec_step cf op s = Some s' ->
  wf s' /\ samples_of s' = sem_samples cf op (samples_of s).
Proof. exact spec_step_sound. Qed.
Print Assumptions C17_spec_step_sound.

(*    ... hence after ANY history (accepted operations performed, refused ones skipped) the
      abstract description still describes the samples (fold_left induction over the list). *)
Theorem C17_spec_machine_consistent : forall cf ops s l,
  wf s -> l = samples_of s ->
  wf (fst (spec_run cf ops (s, l))) /\
  snd (spec_run cf ops (s, l)) = samples_of (fst (spec_run cf ops (s, l))).
Proof. exact spec_run_consistent. Qed.
Print Assumptions C17_spec_machine_consistent.

(*    lookups on a well-formed abstract axis: sample i is found at position i, and a time t is
      found at i exactly when it lies in the i-th bin *)
Theorem C17_spec_lookup_sample : forall s i,
  wf s -> (i < s_n s)%nat -> spec_lookup s (s_t0 s + Z.of_nat i * s_dt s) = Some (Z.of_nat i).
Proof. exact spec_lookup_sample. Qed.
Theorem C17_spec_lookup_bin : forall s t i,
  wf s -> (spec_lookup s t = Some i <->
           0 <= i < Z.of_nat (s_n s) /\ s_t0 s + i * s_dt s <= t < s_t0 s + (i + 1) * s_dt s).
Proof. exact spec_lookup_bin. Qed.
Print Assumptions C17_spec_lookup_bin.

(* 2. The code refines the abstract machine for += -= (scalar and ramp), *=, copy, element
      assignment: from a consistent state, an operation the abstract machine performs is
      performed without exception and ends in the consistent state; one it refuses
      (non-uniform operand, wrong length, non-positive resulting interval or factor, element
      assignment) raises and leaves the concrete state exactly as it was. *)
Theorem C17_refines_op : forall cf op c a,
  R c a -> a_cf c = cf -> wf a -> preserving op = true ->
  match spec_step cf op a with
  | Some a' => exists c', ustep op c = (c', None) /\ R c' a' /\ a_cf c' = cf
  | None => exists e, ustep op c = (c, Some e)
  end.
Proof. exact refines_op. Qed.
Print Assumptions C17_refines_op.

(*    for every history made of those operations (any length, any order) *)
Theorem C17_refines_history : forall cf ops c a l,
  R c a -> a_cf c = cf -> wf a -> Forall (fun op => preserving op = true) ops ->
  R (urun ops c) (fst (spec_run cf ops (a, l))) /\ wf (fst (spec_run cf ops (a, l))) /\
  a_cf (urun ops c) = cf.
Proof. exact refines_run. Qed.
Print Assumptions C17_refines_history.

(*    and in a consistent state index_at(axis[i]) = i *)
Theorem C17_lookup_after_history : forall c a i,
  R c a -> wf a -> (i < s_n a)%nat -> uindex_at c (nth i (samples c) 0) = Ok (Z.of_nat i).
Proof. exact uindex_at_sample. Qed.
Print Assumptions C17_lookup_after_history.

(*    a freshly constructed axis (C02's whole-picosecond path) is consistent *)
Theorem C17_initial_consistent : forall t0 dt n cf, R (init_state t0 dt n cf) (mk_aspec t0 dt n).
Proof. exact init_R. Qed.

(* 3. Rejections leave the axis unchanged, whatever state it is in (consistent or not). *)
Theorem C17_rejects_unchanged_setitem : forall c i v, ustep (OpSetItem i v) c = (c, Some ValueError).
Proof. exact rejects_unchanged_setitem. Qed.
Theorem C17_rejects_unchanged_nonuniform : forall c bare l,
  uniformb (map (conv c bare) l) = false ->
  (exists e, ustep (OpAddArr bare l) c = (c, Some e)) /\ (exists e, ustep (OpSubArr bare l) c = (c, Some e)).
Proof. intros c bare l U. split; apply rejects_unchanged_nonuniform; exact U. Qed.
Theorem C17_rejects_unchanged_badlength : forall c bare l,
  length l <> length (samples c) ->
  (exists e, ustep (OpAddArr bare l) c = (c, Some e)) /\ (exists e, ustep (OpSubArr bare l) c = (c, Some e)).
Proof. intros c bare l L. split; apply rejects_unchanged_badlength; rewrite map_length; exact L. Qed.
Theorem C17_failure_atomic : forall op c c' e, ustep op c = (c', Some e) -> c' = c.
Proof. exact failure_atomic. Qed.
Print Assumptions C17_failure_atomic.

(* 4. REFUTED sub-claims (the model follows the code; each witness is replayed on the
      implementation by the check and listed in known_findings.json). *)

(* slicing: the slice inherits t0, sampling_interval, duration and sampling_rate of the parent.
   Shortest history: one slice u[1:] of a 4-sample axis; index_at(slice[0]) then answers 1. *)
Theorem C17_slice_refuted : exists c a op a',
  R c a /\ wf a /\ spec_step 1 op a = Some a' /\
  ~ R (fst (ustep op c)) a' /\
  uindex_at (fst (ustep op c)) (nth 0 (samples (fst (ustep op c))) 0) = Ok 1.
Proof.
  exists (init_state 2 2 4 1), (mk_aspec 2 2 4), (OpSlice (Some 1) None 1), (mk_aspec 4 2 3).
  split; [apply init_R|]. split; [reflexivity|]. split; [reflexivity|]. split.
  - intros (_ & H & _). vm_compute in H. discriminate H.
  - reflexivity.
Qed.
(* a stepped slice additionally keeps the parent's interval *)
Theorem C17_stepped_slice_refuted : exists c a op a',
  R c a /\ wf a /\ spec_step 1 op a = Some a' /\ s_dt a' = 4 /\ a_dt (fst (ustep op c)) = 2 /\
  samples (fst (ustep op c)) = samples_of a'.
Proof.
  exists (init_state 2 2 4 1), (mk_aspec 2 2 4), (OpSlice None None 2), (mk_aspec 2 4 2).
  split; [apply init_R|]. repeat (split; [reflexivity|]). reflexivity.
Qed.

(* in-place division: permitted by the abstract machine when t0 and interval are divisible,
   but the code calls np.ndarray.__idiv__, which does not exist *)
Theorem C17_idiv_refuted : exists c a k a',
  R c a /\ wf a /\ spec_step 1 (OpDiv k) a = Some a' /\ ustep (OpDiv k) c = (c, Some AttributeErr).
Proof.
  exists (init_state 4 2 3 1), (mk_aspec 4 2 3), 2, (mk_aspec 2 1 3).
  split; [apply init_R|]. repeat (split; [reflexivity|]). reflexivity.
Qed.
Print Assumptions C17_slice_refuted.

(* 5. Non-vacuity: the hypotheses of the refinement theorems are met by a non-trivial history
      (shift, add a ramp, scale, subtract a ramp, refused non-uniform operand, copy) *)
Example C17_nonvacuous_history :
  let ops := [OpAddScalar true 3; OpAddArr false [1; 3; 5; 7]; OpMul 2;
              OpSubArr true [0; 1; 2; 3]; OpAddArr true [0; 1; 3; 4]; OpCopy; OpSubScalar false 5] in
  Forall (fun op => preserving op = true) ops /\
  R (init_state (-4) 2 4 1) (mk_aspec (-4) 2 4) /\ wf (mk_aspec (-4) 2 4) /\
  samples (urun ops (init_state (-4) 2 4 1)) = [-5; 2; 9; 16] /\
  fst (spec_run 1 ops (mk_aspec (-4) 2 4, [])) = mk_aspec (-5) 7 4.
Proof.
  split; [repeat constructor|]. split; [apply init_R|]. split; [reflexivity|].
  split; reflexivity.
Qed.
Example C17_nonvacuous_reject :
  uniformb (map (conv (init_state 0 1 4 1000) true) [0; 1; 3; 4]) = false /\
  spec_step 1000 (OpSubArr true [0; 1; 2; 3]) (mk_aspec 0 1000 4) = None /\
  spec_step 1 (OpDiv 2) (mk_aspec 3 2 4) = None.
Proof. repeat split; reflexivity. Qed.
