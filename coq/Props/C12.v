(* Props/C12.v — property C12: Granger causality spectra obey the spectral decomposition identities.
   Statements only; proofs are in Proofs/GrangerP.v, the model in Model/Granger.v.
   Everything is stated at one frequency point z = e^{-jw} (any element of Q[i]; nothing uses |z| = 1),
   for coefficient lists `a` of any length (= model order) and any real covariance `cov`.
   The frequency axis of the analyzer (freqz grid vs get_freqs) is property C05's, not used here. *)
From Coq Require Import QArith List Bool Arith Reals Qreals.
From NT Require Import QC Granger GrangerP.
Import ListNotations.
Open Scope Q_scope.

(* the transfer function is the inverse of the coefficient polynomial matrix (both sides) *)
Theorem C12_H_is_inverse : forall a z,
  ~ cnorm2 (det2 (Aw a z)) == 0 ->
  m2eq (m2mul (transfer (Aw a z)) (Aw a z)) m2id /\ m2eq (m2mul (Aw a z) (transfer (Aw a z))) m2id.
Proof. intros a z. exact (H_is_inverse (Aw a z)). Qed.
Print Assumptions C12_H_is_inverse.

(* spectral_matrix_xy computes H Sigma H^H, which is Hermitian for symmetric Sigma *)
Theorem C12_S_is_HSH : forall H cov,
  m2eq (spectral_matrix H cov) (m2mul (m2mul H (m2ofQ cov)) (m2herm H)).
Proof. exact spectral_matrix_is_HSH. Qed.
Print Assumptions C12_S_is_HSH.

Theorem C12_S_hermitian : forall H cov, q10 cov == q01 cov ->
  let S := spectral_matrix H cov in
  m10 S =c= cconj (m01 S) /\ im (m00 S) == 0 /\ im (m11 S) == 0.
Proof. exact S_hermitian. Qed.
Print Assumptions C12_S_hermitian.

(* positive semidefinite: v^H S v = u^H Sigma u with u = H^H v, a non-negative real *)
Theorem C12_S_psd : forall H cov v0 v1,
  q10 cov == q01 cov -> 0 < q00 cov -> 0 <= q00 cov * q11 cov - q01 cov * q01 cov ->
  qform (spectral_matrix H cov) v0 v1 =c= ofQ (qform_real cov (HHv0 H v0 v1) (HHv1 H v0 v1)) /\
  0 <= qform_real cov (HHv0 H v0 v1) (HHv1 H v0 v1).
Proof. intros H cov v0 v1 E Hs Hd. split; [apply S_psd; exact E|apply qform_real_nonneg; assumption]. Qed.
Print Assumptions C12_S_psd.

(* the matrix returned by granger_causality_xy is the one spectral_matrix_xy computes *)
Theorem C12_S_two_routines_agree : forall H cov,
  ~ q00 cov == 0 -> ~ q11 cov == 0 -> q10 cov == q01 cov ->
  m2eq (gc_S (granger_core H cov)) (spectral_matrix H cov).
Proof. exact S_two_routines_agree. Qed.
Print Assumptions C12_S_two_routines_agree.

(* each directional log argument is >= 1 (it is 1 + nonneg/pos: y2x_form, x2y_form) ... *)
Theorem C12_causality_arg_ge_1 : forall H cov,
  0 < q00 cov -> 0 < q11 cov -> 0 <= q00 cov * q11 cov - q01 cov * q01 cov ->
  ~ xx_auto_of H cov == 0 -> ~ yy_auto_of H cov == 0 ->
  1 <= gc_y2x (granger_core H cov) /\ 1 <= gc_x2y (granger_core H cov).
Proof. exact causality_arg_ge_1. Qed.
Print Assumptions C12_causality_arg_ge_1.

(* ... hence both directional causality spectra are non-negative (ln over Coq's reals) *)
Theorem C12_causality_nonneg : forall a cov z,
  0 < q00 cov -> 0 < q11 cov -> 0 <= q00 cov * q11 cov - q01 cov * q01 cov ->
  ~ xx_auto_of (transfer (Aw a z)) cov == 0 -> ~ yy_auto_of (transfer (Aw a z)) cov == 0 ->
  (0 <= ln (Q2R (gc_y2x (granger_xy a cov z))))%R /\ (0 <= ln (Q2R (gc_x2y (granger_xy a cov z))))%R.
Proof.
  intros a cov z Hs Hg Hd Hx Hy. unfold granger_xy.
  destruct (causality_arg_ge_1 _ cov Hs Hg Hd Hx Hy). split; apply ln_nonneg_of_ge1; assumption.
Qed.
Print Assumptions C12_causality_nonneg.

(* product of the three log arguments = 1 / (1 - coherence of the returned spectral matrix) *)
Theorem C12_decomposition : forall H cov,
  let g := granger_core H cov in
  0 < q00 cov -> 0 < q11 cov -> 0 < q00 cov * q11 cov - q01 cov * q01 cov ->
  ~ cnorm2 (det2 H) == 0 -> ~ xx_auto_of H cov == 0 -> ~ yy_auto_of H cov == 0 ->
  gc_x2y g * gc_y2x g * gc_inst g * interdep_arg (gc_S g) == 1 /\
  0 < gc_x2y g /\ 0 < gc_y2x g /\ 0 < gc_inst g /\ 0 < interdep_arg (gc_S g).
Proof. exact decomposition. Qed.
Print Assumptions C12_decomposition.

(* f_x_on_y + f_y_on_x + f_xy = -log(1 - coherence) = interdependence_xy(Sw), whichever routine
   reported Sw (C12_S_two_routines_agree) *)
Theorem C12_decomposition_ln : forall a cov z,
  let g := granger_xy a cov z in
  0 < q00 cov -> 0 < q11 cov -> 0 < q00 cov * q11 cov - q01 cov * q01 cov ->
  ~ cnorm2 (det2 (Aw a z)) == 0 ->
  ~ xx_auto_of (transfer (Aw a z)) cov == 0 -> ~ yy_auto_of (transfer (Aw a z)) cov == 0 ->
  (ln (Q2R (gc_x2y g)) + ln (Q2R (gc_y2x g)) + ln (Q2R (gc_inst g)) = - ln (Q2R (interdep_arg (gc_S g))))%R.
Proof.
  intros a cov z g Hs Hg Hd Hdet Hx Hy. unfold g, granger_xy.
  destruct (decomposition (transfer (Aw a z)) cov Hs Hg Hd (det_transfer _ Hdet) Hx Hy) as (E & P1 & P2 & P3 & P4).
  apply ln_decomposition; assumption.
Qed.
Print Assumptions C12_decomposition_ln.

(* relabelling the two channels swaps the two directions, keeps the instantaneous term, and
   relabels the spectral matrix *)
Theorem C12_relabel_swaps : forall a cov z,
  q10 cov == q01 cov -> ~ q00 cov == 0 -> ~ q11 cov == 0 ->
  let g := granger_xy a cov z in
  let g' := granger_xy (map q2swap a) (q2swap cov) z in
  gc_x2y g' == gc_y2x g /\ gc_y2x g' == gc_x2y g /\ gc_inst g' == gc_inst g /\
  m2eq (gc_S g') (m2swap (gc_S g)).
Proof. exact relabel_swaps. Qed.
Print Assumptions C12_relabel_swaps.

(* no coupling from y to x (all a[k][0,1] = 0) -> the log argument of f_y_on_x is 1, so the
   causality is ln 1 = 0; same for the other direction *)
Theorem C12_no_coupling_zero : forall a cov z,
  (Forall (fun m => q01 m == 0) a -> ~ q00 cov == 0 -> ~ xx_auto_of (transfer (Aw a z)) cov == 0 ->
   gc_y2x (granger_xy a cov z) == 1 /\ ln (Q2R (gc_y2x (granger_xy a cov z))) = 0%R) /\
  (Forall (fun m => q10 m == 0) a -> ~ q11 cov == 0 -> ~ yy_auto_of (transfer (Aw a z)) cov == 0 ->
   gc_x2y (granger_xy a cov z) == 1 /\ ln (Q2R (gc_x2y (granger_xy a cov z))) = 0%R).
Proof.
  intros a cov z. destruct (no_coupling_zero a cov z) as [A B]. split; intros F Hs Hx.
  - pose proof (A F Hs Hx) as E. split; [exact E|apply ln_zero_of_eq1; exact E].
  - pose proof (B F Hs Hx) as E. split; [exact E|apply ln_zero_of_eq1; exact E].
Qed.
Print Assumptions C12_no_coupling_zero.

(* both directional log arguments (hence the causalities) do not change when the innovation covariance
   is multiplied by any c <> 0: no hidden scale in the routine *)
Theorem C12_scale_invariant : forall a cov z c,
  ~ c == 0 -> ~ q00 cov == 0 -> ~ q11 cov == 0 ->
  ~ xx_auto_of (transfer (Aw a z)) cov == 0 -> ~ yy_auto_of (transfer (Aw a z)) cov == 0 ->
  gc_y2x (granger_xy a (q2scale c cov) z) == gc_y2x (granger_xy a cov z) /\
  gc_x2y (granger_xy a (q2scale c cov) z) == gc_x2y (granger_xy a cov z).
Proof. intros a cov z c. unfold granger_xy. apply gc_scale_cov. Qed.
Print Assumptions C12_scale_invariant.

(* the analyzer's matrices hold exactly the pairwise results at the requested index pairs and
   NaN (None) everywhere else, for every ij list (any order, repetitions allowed) *)
Theorem C12_dict2arr_spec : forall (V : Type) (f : key -> V) ij k,
  (In k ij -> analyzer_arr f ij k = Some (f k)) /\ (~ In k ij -> analyzer_arr f ij k = None).
Proof. intros V f ij k. exact (dict2arr_In f ij k). Qed.
Print Assumptions C12_dict2arr_spec.

(* the rows written by _dict2arr have the length of the analyzer's frequency axis for both
   parities of n_freqs *)
Theorem C12_grid_len_consistent : forall n, gc_len n = get_freqs_len n.
Proof. exact grid_len_consistent. Qed.

(* ------------------------------------------------------------------ non-vacuity *)
(* an order-2 model with coupling in both directions, a correlated positive definite covariance and
   the unit-circle point z = -i = e^{-j pi/2} : all hypotheses used above hold *)
Definition ex_a : list Q2 := [mkQ2 (-1#2) (1#4) (-1#3) (1#5); mkQ2 (1#10) (-1#8) (1#6) (-1#7)].
Definition ex_cov : Q2 := mkQ2 1 (2#5) (2#5) (7#10).
Definition ex_z : C := (0, -1).

Lemma ex_unit : cnorm2 ex_z == 1. Proof. vm_compute. reflexivity. Qed.
Lemma ex_det : Qeq_bool (cnorm2 (det2 (Aw ex_a ex_z))) 0 = false. Proof. vm_compute. reflexivity. Qed.
Lemma ex_xx : Qeq_bool (xx_auto_of (transfer (Aw ex_a ex_z)) ex_cov) 0 = false. Proof. vm_compute. reflexivity. Qed.
Lemma ex_yy : Qeq_bool (yy_auto_of (transfer (Aw ex_a ex_z)) ex_cov) 0 = false. Proof. vm_compute. reflexivity. Qed.
Lemma ex_pd : Qlt_le_dec 0 (q00 ex_cov * q11 ex_cov - q01 ex_cov * q01 ex_cov) = left eq_refl.
Proof. vm_compute. reflexivity. Qed.
Lemma Qeq_bool_false_neq x y : Qeq_bool x y = false -> ~ x == y.
Proof. intros H E. apply Qeq_bool_iff in E. congruence. Qed.

Example C12_hypotheses_met :
  q10 ex_cov == q01 ex_cov /\ 0 < q00 ex_cov /\ 0 < q11 ex_cov /\
  0 < q00 ex_cov * q11 ex_cov - q01 ex_cov * q01 ex_cov /\
  ~ cnorm2 (det2 (Aw ex_a ex_z)) == 0 /\
  ~ xx_auto_of (transfer (Aw ex_a ex_z)) ex_cov == 0 /\
  ~ yy_auto_of (transfer (Aw ex_a ex_z)) ex_cov == 0.
Proof.
  split; [reflexivity|]. split; [reflexivity|]. split; [reflexivity|]. split; [reflexivity|].
  split; [apply Qeq_bool_false_neq, ex_det|]. split; [apply Qeq_bool_false_neq, ex_xx|].
  apply Qeq_bool_false_neq, ex_yy.
Qed.

(* a model without y -> x coupling meeting the hypotheses of C12_no_coupling_zero *)
Definition ex_a0 : list Q2 := [mkQ2 (-1#2) 0 (-1#3) (1#5); mkQ2 (1#10) 0 (1#6) (-1#7)].
Lemma ex0_xx : Qeq_bool (xx_auto_of (transfer (Aw ex_a0 ex_z)) ex_cov) 0 = false. Proof. vm_compute. reflexivity. Qed.
Example C12_no_coupling_hypotheses_met :
  Forall (fun m => q01 m == 0) ex_a0 /\ ~ xx_auto_of (transfer (Aw ex_a0 ex_z)) ex_cov == 0 /\
  ~ (exists m, In m ex_a0 /\ q10 m == 0).
Proof.
  split; [repeat constructor|]. split; [apply Qeq_bool_false_neq, ex0_xx|].
  intros (m & [<-|[<-|[]]] & E); vm_compute in E; discriminate.
Qed.

(* the analyzer bookkeeping on a concrete ij list with a repetition and a reversed pair *)
Example C12_dict2arr_example :
  let ij := [(0, 1); (2, 0); (0, 1); (1, 0)]%nat in
  analyzer_arr (fun k => k) ij (2, 0)%nat = Some (2, 0)%nat /\
  analyzer_arr (fun k => k) ij (1, 0)%nat = Some (1, 0)%nat /\
  analyzer_arr (fun k => k) ij (0, 2)%nat = None /\ analyzer_arr (fun k => k) ij (1, 1)%nat = None.
Proof. repeat split; reflexivity. Qed.
