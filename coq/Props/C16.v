(* Props/C16.v — property C16: operations never corrupt their operands, copies or inputs.
   Statements over the store-and-alias calculus of Model/Alias.v; every theorem is closed by
   `exact <lemma>` from Proofs/AliasP.v.

   Reading the statements.  `m s` runs a method on the store s and returns (store, result); the
   store component is ALSO the store left behind when the result is an exception, and no theorem
   below looks at the result unless it says so: each frame theorem therefore covers the normal AND
   the exceptional exit.  `snapshot s l` is everything a caller can observe of the object at l:
   dtype, shape and bytes, and those of the objects in its attribute slots (t0, interval,
   duration), for a series those of data / t0 / interval / duration.  `wf s`: nothing lives beyond
   `next s` and references point below it.  `ext W s s'`: s' agrees with s on every location of s
   outside W.  The theorems quantify over ALL stores, all values, all operand kinds (`pyval`:
   python scalars, references to lists, to ndarrays of any dtype, to time objects - the case
   analysis on what the reference points to is part of each proof). *)
From Coq Require Import ZArith List Bool Arith.
From NT Require Import Alias AliasP.
Import ListNotations.

(* ---- FRAME: TimeArray + - r+ r- < <= > >= ==  (f any binary function; cmp = comparison or
        arithmetic): every object of the caller - self, the operand, bystanders - is unchanged *)
Theorem C16_frame_timearray_operators : forall f cmp self v s l,
  wf s -> l < next s -> snapshot (fst (ta_binop f cmp self v s)) l = snapshot s l.
Proof. exact ta_binop_snapshot. Qed.
Print Assumptions C16_frame_timearray_operators.
(* the location-level form: nothing that existed is written *)
Theorem C16_frame_timearray_operators_loc : forall f cmp self v s,
  ext [] s (fst (ta_binop f cmp self v s)).
Proof. exact ta_binop_pure. Qed.

(* ---- FRAME: TimeArray.__setitem__ writes the buffer of self and nothing else *)
Theorem C16_frame_setitem : forall self a n v s b sh k l,
  wf s -> mem s self = Some (CArr b sh k) -> self < next s -> l < next s ->
  ~ In b (footprint s l) ->
  snapshot (fst (ta_setitem self a n v s)) l = snapshot s l.
Proof. exact ta_setitem_snapshot. Qed.
Print Assumptions C16_frame_setitem.
(* a failing assignment (mismatched shapes, 0-d target) leaves everything, self included *)
Theorem C16_setitem_failure_atomic : forall self a n v s e l,
  wf s -> l < next s -> snd (ta_setitem self a n v s) = Exn e ->
  snapshot (fst (ta_setitem self a n v s)) l = snapshot s l.
Proof. exact ta_setitem_atomic_snapshot. Qed.
(* the code before 9da9736 (`val *= self._conversion_factor`) scaled the caller's array *)
Theorem C16_setitem_before_fix_refuted :
  exists s self b sh k a,
    mem s self = Some (CArr b sh k) /\ self < next s /\ a < next s /\
    (forall x, In x (footprint s a) -> ~ In x [b]) /\
    snapshot (fst (ta_setitem_old self 0 2 (PRef a) s)) a <> snapshot s a.
Proof. exact ta_setitem_old_refuted. Qed.

(* ---- FRAME: UniformTime += -= (sign = 1 / -1) and *= write the header and the buffer of self *)
Theorem C16_frame_uniform_iadd_isub : forall sign self v s b sh k l,
  wf s -> mem s self = Some (CArr b sh k) -> self < next s -> l < next s ->
  ~ In self (footprint s l) -> ~ In b (footprint s l) ->
  snapshot (fst (ut_iop sign self v s)) l = snapshot s l.
Proof. exact ut_iop_snapshot. Qed.
Print Assumptions C16_frame_uniform_iadd_isub.
Theorem C16_frame_uniform_imul : forall self v s b sh k l,
  wf s -> mem s self = Some (CArr b sh k) -> self < next s -> l < next s ->
  ~ In self (footprint s l) -> ~ In b (footprint s l) ->
  snapshot (fst (ut_imul self v s)) l = snapshot s l.
Proof. exact ut_imul_snapshot. Qed.

(* ---- FAILURE ATOMICITY of += -= *= : a call that raises - non-uniform increments, a step that
        would leave a non-positive interval, a non-positive factor, a mismatched shape, a fractional
        dtype, or anything else - has written NOTHING, self included.  Guards, stated explicitly:
        the axis is well-typed (`typed_axis`: its t0 / interval / duration slots hold one-valued time
        objects separate from the axis and from its sample buffer); the operand is arbitrary - the
        axis itself included (`u += u`: a private copy of a time-object operand is taken, c3a0f82).
        The proof shows that once the samples have been written,
        _follow_shift / the attribute part of __imul__ cannot raise: the slots are readable and
        interval + step > 0 (checked before anything is written) excludes the division by zero. *)
Theorem C16_uniform_iadd_isub_failure_atomic : forall sign self v s e b l,
  wf s -> typed_axis s self b ->
  l < next s -> snd (ut_iop sign self v s) = Exn e ->
  snapshot (fst (ut_iop sign self v s)) l = snapshot s l.
Proof. exact ut_iop_failure_atomic_snapshot. Qed.
Print Assumptions C16_uniform_iadd_isub_failure_atomic.
Theorem C16_uniform_imul_failure_atomic : forall self v s e b l,
  wf s -> typed_axis s self b -> l < next s -> snd (ut_imul self v s) = Exn e ->
  snapshot (fst (ut_imul self v s)) l = snapshot s l.
Proof. exact ut_imul_failure_atomic_snapshot. Qed.
(* without any guard: a failing += / -= either wrote nothing or failed inside _follow_shift *)
Theorem C16_uniform_iadd_isub_failure_cases : forall sign self v s e,
  snd (ut_iop sign self v s) = Exn e ->
  ext [] s (fst (ut_iop sign self v s)) \/
  exists s1 w s2, ut_convert_check self sign v s = (s1, Ok w) /\
                  iop_inplace (fun a b => a + sign * b)%Z self w s1 = (s2, Ok tt) /\
                  snd (follow_shift self w sign s2) = Exn e.
Proof. exact ut_iop_failure_cases. Qed.

(* ---- COPY_DISJOINT: a copy of a time axis / a series consists of fresh locations only (so it
        shares no mutable state with anything that existed), making it changes nothing, and ANY
        sequence of in-place operations on the copy - whatever the operands, failing calls
        included - leaves every object that existed before the copy unchanged *)
Theorem C16_copy_disjoint_uniform : forall self s s1 c,
  ut_copy self s = (s1, Ok c) ->
  next s <= c /\ forall x, In x (footprint s1 c) -> next s <= x.
Proof. exact ut_copy_disjoint. Qed.
Print Assumptions C16_copy_disjoint_uniform.
Theorem C16_copy_disjoint_series : forall self s s1 c,
  ts_copy self s = (s1, Ok c) ->
  next s <= c /\ forall x, In x (footprint s1 c) -> next s <= x.
Proof. exact ts_copy_disjoint. Qed.
Theorem C16_copy_frame : forall self s l, wf s -> l < next s ->
  snapshot (fst (ut_copy self s)) l = snapshot s l /\
  snapshot (fst (ts_copy self s)) l = snapshot s l /\
  snapshot (fst (copy_arr self s)) l = snapshot s l.
Proof. exact copies_snapshot. Qed.
Theorem C16_copy_then_any_history_uniform : forall self s s1 c ops l,
  wf s -> l < next s -> ut_copy self s = (s1, Ok c) ->
  snapshot (run_uops c ops s1) l = snapshot s l.
Proof. exact ut_copy_history_snapshot. Qed.
Print Assumptions C16_copy_then_any_history_uniform.
Theorem C16_copy_then_any_history_series : forall self s s1 c ops l,
  wf s -> l < next s -> ts_copy self s = (s1, Ok c) ->
  snapshot (run_sops c ops s1) l = snapshot s l.
Proof. exact ts_copy_history_snapshot. Qed.
Theorem C16_copy_then_setitem_timearray : forall self s s1 c l a n v, wf s -> l < next s ->
  copy_arr self s = (s1, Ok c) -> snapshot (fst (ta_setitem c a n v s1)) l = snapshot s l.
Proof. exact ta_copy_setitem_snapshot. Qed.
(* ndarray.copy alone (UniformTime.copy before 30eef3b): the copy's footprint contains objects of
   the original (t0 / interval / duration are copied by reference in __array_finalize__) *)
Theorem C16_uniform_copy_before_fix_refuted :
  exists s self s1 c, ut_copy_old self s = (s1, Ok c) /\ exists x, In x (footprint s1 c) /\ x < next s.
Proof. exact ut_copy_old_refuted. Qed.

(* ---- DERIVED OBJECTS.  numpy hands the t0 / interval / duration slots of a UniformTime BY REFERENCE
        (__array_finalize__) to every axis derived without .copy() / the constructor: ufunc results
        (`x + 0`, `x - 1`), copy.copy(x), copy.deepcopy(x), np.copy(x, subok=True) [np_derive: own
        buffer] and views x[:], x.view() [view_of: shared buffer].  Because _follow_shift and __imul__
        RE-BIND the slots to fresh objects, ANY history of += -= *= on the derived axis leaves every
        object that existed unchanged - samples AND the values of the shared attribute objects; on a
        view only the shared sample buffer b is written (numpy's view semantics), so every object
        whose footprint avoids b - the attribute objects of x in particular - is unchanged. *)
Theorem C16_derived_then_any_history : forall g x s s1 d ops l,
  wf s -> l < next s -> np_derive g x s = (s1, Ok d) -> snapshot (run_uops d ops s1) l = snapshot s l.
Proof. exact derive_history_snapshot. Qed.
Print Assumptions C16_derived_then_any_history.
Theorem C16_view_then_any_history : forall x s s1 v ops b sh k l,
  wf s -> mem s x = Some (CArr b sh k) -> view_of x s = (s1, Ok v) ->
  l < next s -> ~ In b (footprint s l) ->
  snapshot (run_uops v ops s1) l = snapshot s l.
Proof. exact view_history_snapshot. Qed.
Theorem C16_derived_then_setitem_timearray : forall g x s s1 d a n v l, wf s -> l < next s ->
  np_derive g x s = (s1, Ok d) -> snapshot (fst (ta_setitem d a n v s1)) l = snapshot s l.
Proof. exact derive_setitem_snapshot. Qed.
(* with AUGMENTED assignments in _follow_shift (`self.t0 += ...`: ndarray.__iadd__ on the shared
   object) the original axis - which the in-place call never received - shows another t0 while its
   samples (arr_snap) stay put *)
Theorem C16_follow_shift_augmented_refuted :
  exists s x s1 d, np_derive (fun l => l) x s = (s1, Ok d) /\
    snd (ut_iop_aug 1 d (PInt 3) s1) = Ok tt /\
    snapshot (fst (ut_iop_aug 1 d (PInt 3) s1)) x <> snapshot s x /\
    arr_snap (fst (ut_iop_aug 1 d (PInt 3) s1)) x = arr_snap s x.
Proof. exact follow_shift_aug_refuted. Qed.
(* non-vacuity: a derived axis that does share the attribute objects 1 and 3 of the example axis 7;
   `d += 3` moves d and not the original; `v += 3` on a view moves the shared samples and keeps the
   values of the attribute objects 1, 3, 5 *)
Example C16_ex_derived_shares :
  exists s1 d, np_derive (fun l => l) 7 ex_ut = (s1, Ok d) /\ In 1 (footprint s1 d) /\ In 3 (footprint s1 d).
Proof. exact ex_derived_shares. Qed.
Example C16_ex_derived_iadd :
  exists s1 d, np_derive (fun l => l) 7 ex_ut = (s1, Ok d) /\
    snd (ut_iop 1 d (PInt 3) s1) = Ok tt /\
    snapshot (fst (ut_iop 1 d (PInt 3) s1)) d <> snapshot s1 d /\
    snapshot (fst (ut_iop 1 d (PInt 3) s1)) 7 = snapshot ex_ut 7.
Proof. exact ex_derived_iadd. Qed.
Example C16_ex_view_iadd :
  exists s1 v, view_of 7 ex_ut = (s1, Ok v) /\
    snd (ut_iop 1 v (PInt 3) s1) = Ok tt /\
    arr_snap (fst (ut_iop 1 v (PInt 3) s1)) 7 <> arr_snap ex_ut 7 /\
    snapshot (fst (ut_iop 1 v (PInt 3) s1)) 1 = snapshot ex_ut 1 /\
    snapshot (fst (ut_iop 1 v (PInt 3) s1)) 3 = snapshot ex_ut 3 /\
    snapshot (fst (ut_iop 1 v (PInt 3) s1)) 5 = snapshot ex_ut 5.
Proof. exact ex_view_iadd. Qed.

(* ---- FRAME: TimeSeries + - * (through copy) and += -= *= (the buffer of self.data only) *)
Theorem C16_frame_series_arith : forall f self v s l,
  wf s -> l < next s -> snapshot (fst (ts_binop f self v s)) l = snapshot s l.
Proof. exact ts_binop_snapshot. Qed.
Theorem C16_frame_series_inplace : forall f self v s d t0 si dur b sh k l,
  wf s -> mem s self = Some (CSeries d t0 si dur) -> mem s d = Some (CArr b sh k) -> d < next s ->
  l < next s -> ~ In b (footprint s l) ->
  snapshot (fst (ts_iop f self v s)) l = snapshot s l.
Proof. exact ts_iop_snapshot. Qed.
Theorem C16_series_inplace_failure_atomic : forall f self v s e l,
  wf s -> l < next s -> snd (ts_iop f self v s) = Exn e ->
  snapshot (fst (ts_iop f self v s)) l = snapshot s l.
Proof. exact ts_iop_atomic_snapshot. Qed.
Print Assumptions C16_frame_series_inplace.

(* ---- FRAME: periodogram_csd up to the transform, for BOTH array arguments (the signals `a` and the
        optional precomputed transform `Sk`, of any number of dimensions): every object keeps bytes
        AND shape, whether the call returns or raises (bad NFFT, a 1-d Sk) *)
Theorem C16_frame_periodogram_csd : forall a Sk N s l,
  wf s -> l < next s -> snapshot (fst (csd a Sk N s)) l = snapshot s l.
Proof. exact csd_snapshot. Qed.
Print Assumptions C16_frame_periodogram_csd.
Theorem C16_periodogram_csd_before_fix_refuted :
  exists s a, snd (csd_old a (Some (-1)%Z) s) = Exn EValue /\
              snapshot (fst (csd_old a (Some (-1)%Z) s)) a <> snapshot s a.
Proof. exact csd_old_refuted. Qed.
(* the variant `Sk_loc = np.asarray(Sk); Sk_loc.shape = (-1, N)` reshapes the caller's Sk in place *)
Theorem C16_periodogram_csd_sk_inplace_refuted :
  exists s a k r, snd (csd_sk_inplace a k s) = Ok r /\
                  snapshot (fst (csd_sk_inplace a k s)) k <> snapshot s k.
Proof. exact csd_sk_inplace_refuted. Qed.

(* ---- FRAME: boxcar_filter and FilterAnalyzer.filtered_boxcar *)
Theorem C16_frame_boxcar : forall a s l,
  wf s -> l < next s ->
  snapshot (fst (boxcar a s)) l = snapshot s l /\ snapshot (fst (filtered_boxcar a s)) l = snapshot s l.
Proof. exact boxcar_snapshot. Qed.
Print Assumptions C16_frame_boxcar.
Theorem C16_boxcar_before_fix_refuted :
  exists s a, snapshot (fst (boxcar_old a s)) a <> snapshot s a.
Proof. exact boxcar_old_refuted. Qed.

(* ---- non-vacuity: the hypotheses are met by concrete non-trivial stores *)
(* a well-formed store with a TimeArray (object 1) and an int64 array (object 3): the repaired
   __setitem__ changes self and keeps the operand *)
Example C16_ex_setitem : wf ex_ta /\ mem ex_ta 1 = Some (CArr 0 [3] (KTime 1000)) /\
  snapshot (fst (ta_setitem 1 0 2 (PRef 3) ex_ta)) 3 = snapshot ex_ta 3 /\
  snapshot (fst (ta_setitem 1 0 2 (PRef 3) ex_ta)) 1 <> snapshot ex_ta 1.
Proof. exact (conj ex_ta_wf (conj ex_ta_self ex_ta_setitem_keeps)). Qed.
(* a UniformTime (object 7) whose copy succeeds; a history on the copy (one call refused) changes
   the copy and not the original *)
Example C16_ex_uniform_copy_history :
  exists s1 c, ut_copy 7 ex_ut = (s1, Ok c) /\
    snapshot (run_uops c [UAdd (PInt 3); UMul (PInt 0); UMul (PInt 2)] s1) c <> snapshot s1 c /\
    snapshot (run_uops c [UAdd (PInt 3); UMul (PInt 0); UMul (PInt 2)] s1) 7 = snapshot ex_ut 7.
Proof. exact ex_history. Qed.
(* an operand array (object 9) separate from the axis (object 7, buffer 6) *)
Example C16_ex_uniform_operand :
  wf ex_ut2 /\ mem ex_ut2 7 = Some (CArr 6 [3] (KUniform 1000000000 1 3 5)) /\ 7 < next ex_ut2 /\
  9 < next ex_ut2 /\ ~ In 7 (footprint ex_ut2 9) /\ ~ In 6 (footprint ex_ut2 9).
Proof. exact ex_ut2_operand_separate. Qed.
(* the example axis is well-typed; `u += u` is applied *)
Example C16_ex_uniform_typed : typed_axis ex_ut2 7 6.
Proof. exact ex_ut2_typed. Qed.
Example C16_ex_uniform_iadd_self :
  snd (ut_iop 1 7 (PRef 7) ex_ut) = Ok tt /\ snapshot (fst (ut_iop 1 7 (PRef 7) ex_ut)) 7 <> snapshot ex_ut 7.
Proof. exact ex_ut_iadd_self. Qed.
(* `u += [-1,-2,-3] ms` (the step cancels the 1 ms interval) and `u *= 0` are refused with u intact,
   `u -= [-1,-2,-3] ms` is applied and leaves the operand intact *)
Example C16_ex_uniform_rejections :
  (snd (ut_imul 7 (PInt 0) ex_ut) = Exn EValue /\ snapshot (fst (ut_imul 7 (PInt 0) ex_ut)) 7 = snapshot ex_ut 7) /\
  (snd (ut_iop 1 7 (PRef 9) ex_ut2) = Exn EValue /\ snapshot (fst (ut_iop 1 7 (PRef 9) ex_ut2)) 7 = snapshot ex_ut2 7 /\
   snapshot (fst (ut_iop 1 7 (PRef 9) ex_ut2)) 9 = snapshot ex_ut2 9) /\
  (snd (ut_iop (-1) 7 (PRef 9) ex_ut2) = Ok tt /\ snapshot (fst (ut_iop (-1) 7 (PRef 9) ex_ut2)) 7 <> snapshot ex_ut2 7 /\
   snapshot (fst (ut_iop (-1) 7 (PRef 9) ex_ut2)) 9 = snapshot ex_ut2 9).
Proof. exact (conj ex_ut_imul_zero (conj ex_ut_iop_cancel ex_ut_isub_ramp)). Qed.
(* a failing periodogram_csd call (NFFT = -1) on a (2,2,2) array: raises, argument intact *)
Example C16_ex_csd_fails : snd (csd 1 None (Some (-1)%Z) ex_arr3) = Exn EValue /\
  snapshot (fst (csd 1 None (Some (-1)%Z) ex_arr3)) 1 = snapshot ex_arr3 1.
Proof. exact ex_csd_keeps. Qed.
(* a 1-d precomputed Sk (object 3) is refused with TypeError, a 3-d one (object 5) is accepted; in
   both calls Sk and s keep bytes and shape *)
Example C16_ex_csd_sk :
  (snd (csd 1 (Some 3) None ex_sk) = Exn EType /\
   snapshot (fst (csd 1 (Some 3) None ex_sk)) 3 = snapshot ex_sk 3 /\
   snapshot (fst (csd 1 (Some 3) None ex_sk)) 1 = snapshot ex_sk 1) /\
  ((exists r, snd (csd 1 (Some 5) None ex_sk) = Ok r) /\
   snapshot (fst (csd 1 (Some 5) None ex_sk)) 5 = snapshot ex_sk 5 /\
   snapshot (fst (csd 1 (Some 5) None ex_sk)) 1 = snapshot ex_sk 1).
Proof. exact ex_csd_sk_keeps. Qed.
(* a well-formed store with a TimeSeries (object 8, data object 1 / buffer 0) and a separate operand
   array (object 10): `series += array` succeeds, changes the series, keeps the operand; a history
   on a copy of the series changes the copy and not the original *)
Example C16_ex_series : wf ex_ts /\
  mem ex_ts 8 = Some (CSeries 1 3 5 7) /\ mem ex_ts 1 = Some (CArr 0 [4] KPlain) /\ 1 < next ex_ts /\
  10 < next ex_ts /\ ~ In 0 (footprint ex_ts 10) /\
  snapshot (fst (ts_iop Z.add 8 (PRef 10) ex_ts)) 10 = snapshot ex_ts 10 /\
  snapshot (fst (ts_iop Z.add 8 (PRef 10) ex_ts)) 8 <> snapshot ex_ts 8 /\
  snd (ts_iop Z.add 8 (PRef 10) ex_ts) = Ok tt.
Proof. exact (conj ex_ts_wf ex_ts_facts). Qed.
Example C16_ex_series_copy_history :
  exists s1 c, ts_copy 8 ex_ts = (s1, Ok c) /\
    snapshot (run_sops c [(Z.add, PRef 10); (Z.mul, PInt 2)] s1) c <> snapshot s1 c /\
    snapshot (run_sops c [(Z.add, PRef 10); (Z.mul, PInt 2)] s1) 8 = snapshot ex_ts 8.
Proof. exact ex_ts_copy_history. Qed.
