(* Props/C14.v — property C14: resetting or re-targeting an analyzer (reset / set_input, slicing an Epochs
   object, user subclasses included) is equivalent to building a new one.
   Statements only; proofs in Proofs/MemoP.v over Model/Memo.v. *)
From Coq Require Import List Arith Bool.
From NT Require Import Memo MemoP.
Import ListNotations.

(* For EVERY history h1 read on an analyzer built with initial cells c0, then a re-targeting (reset followed by
   the assignments l: set_input is l = [(input cell, new input)]), then EVERY history h2 and a further read r:
   r returns exactly what an analyzer newly built with initial cells c1 returns when r is read first; no getter
   has run more than once since the reset; and whatever is still stored right after the re-targeting is what
   the new analyzer would compute — provided
     survivors_stable        every name reset() does not delete has the same fresh value for c0 and c1
                             (own_dict_complete — reset deletes every name — is the special case below),
     no_init_derived_state   after the assignments every tracked cell holds the new analyzer's initial value,
                             i.e. nothing that a getter reads was derived from the old input inside __init__
                             and left behind,
   and the class is well-formed for both inputs in the strict sense: no in-place rewrite of stored results, and
   a getter assigns a cell that any getter reads (itself included — a private cache survives reset) or a
   protected cell only with the value it initially holds. *)
Theorem C14_reset_equiv_fresh :
  forall (V : Type) (C : cls V) (rk : nat -> nat) (c0 c1 : nat -> V) (prot : nat -> bool) (l : list (nat * V)),
  acyclic C rk -> wf_strict C c0 prot -> wf_strict C c1 prot ->
  survivors_stable C rk c0 c1 -> no_init_derived_state C prot l c0 c1 ->
  forall F h1 h2 r, (forall x, In x (r :: h1 ++ h2) -> rk x < F) ->
  exists s1, run C F (construct c0) h1 = Some s1 /\
  exists s2, run C F (retarget C l s1) h2 = Some s2 /\
  exists s3, read C F s2 r = Some (val C c1 F r, s3) /\
             (exists sf, read C F (construct c1) r = Some (val C c1 F r, sf)) /\
             (forall x, calls s3 x <= 1) /\
             (forall x v, inst (retarget C l s1) x = Some v -> rk x < F -> v = val C c1 F x).
Proof. intros V C rk c0 c1 prot l A. exact (retarget_equiv_fresh V C rk A c0 c1 prot l). Qed.
Print Assumptions C14_reset_equiv_fresh.

(* the same for objects produced by COPYING state (copy.copy / deepcopy of an analyzer, the copied instance dict
   of Epochs.__getitem__; slices of slices and several slices of one parent are iterations of this): the copy,
   re-targeted, equals a newly built object; the original goes on as if no copy had been taken.  The model's
   states are values — the hypothesis that original and copy share no mutable reset bookkeeping is checked on the
   running code by G (flag `isolated` of C14K.tables_ok). *)
Theorem C14_copy_reset_equiv_fresh :
  forall (V : Type) (C : cls V) (rk : nat -> nat) (c0 c1 : nat -> V) (prot : nat -> bool) (l : list (nat * V)),
  acyclic C rk -> wf_strict C c0 prot -> wf_strict C c1 prot ->
  survivors_stable C rk c0 c1 -> no_init_derived_state C prot l c0 c1 ->
  forall F h1 h2 r ho ro, (forall x, In x (r :: ro :: h1 ++ h2 ++ ho) -> rk x < F) ->
  exists s1, run C F (construct c0) h1 = Some s1 /\
  (exists s2, run C F (retarget C l (copy_state s1)) h2 = Some s2 /\
   exists s3, read C F s2 r = Some (val C c1 F r, s3) /\ (forall x, calls s3 x <= 1)) /\
  (exists so, run C F s1 ho = Some so /\
   exists so', read C F so ro = Some (val C c0 F ro, so') /\ (forall x, calls so' x <= 1)).
Proof. intros V C rk c0 c1 prot l A. exact (copy_retarget_equiv_fresh V C rk A c0 c1 prot l). Qed.
Print Assumptions C14_copy_reset_equiv_fresh.

(* with own_dict_complete (every one-time name is deleted by reset) nothing at all survives *)
Theorem C14_own_dict_complete_clears : forall (V : Type) (C : cls V) l s x,
  own_dict_complete C -> inst (retarget C l s) x = None.
Proof. exact own_complete_clears. Qed.
Theorem C14_own_dict_complete_stable : forall (V : Type) (C : cls V) rk c0 c1,
  own_dict_complete C -> survivors_stable C rk c0 c1.
Proof. exact own_complete_stable. Qed.

(* the boolean checker over the observed tables implies every hypothesis of C14_reset_equiv_fresh *)
Theorem C14_checker_sound : forall (V : Type) (C : cls V) g prot assigned changed c0 c1 l,
  realises V C g c0 -> realises V C g c1 ->
  (forall c, mem c changed = false -> c0 c = c1 c) ->
  (forall c m, mem c assigned = true -> assign l m c = c1 c) ->
  (forall c m, mem c assigned = false -> assign l m c = m c) ->
  c14_check g prot assigned changed = true ->
  wf_strict C c0 (fun c => mem c prot) /\ wf_strict C c1 (fun c => mem c prot) /\ acyclic C (fun x => x) /\
  survivors_stable C (fun x => x) c0 c1 /\
  no_init_derived_state C (fun c => mem c prot) l c0 c1.
Proof. exact checker_sound. Qed.
Print Assumptions C14_checker_sound.

(* hence on the machine generated by tables that pass the checker — the machine the correspondence (K)
   compares with the implementation — every pair of histories has the property *)
Theorem C14_table_retarget_equiv_fresh : forall g prot assigned changed,
  c14_check g prot assigned changed = true ->
  forall F h1 h2 r, (forall x, In x (r :: h1 ++ h2) -> x < F) ->
  let K := sym_cls g in let c1 := sym_init_new changed in
  exists s1, run K F (construct sym_init) h1 = Some s1 /\
  exists s2, run K F (retarget K (sym_assign assigned changed) s1) h2 = Some s2 /\
  exists s3, read K F s2 r = Some (val K c1 F r, s3) /\
             (exists sf, read K F (construct c1) r = Some (val K c1 F r, sf)) /\
             (forall x, calls s3 x <= 1) /\
             (forall x v, inst (retarget K (sym_assign assigned changed) s1) x = Some v -> x < F -> v = val K c1 F x).
Proof. exact table_retarget_equiv_fresh. Qed.
Print Assumptions C14_table_retarget_equiv_fresh.

(* ---- refuted on the current tree: state derived from the input inside __init__ is not refreshed by set_input.
   GrangerAnalyzer copies input.data and input.sampling_rate into attributes; after set_input the getters still
   read the copies: with nothing read before the switch, causality_xy is computed from the OLD data.
   (known findings C14/set_input/<class>/init-derived-state: GrangerAnalyzer, SNRAnalyzer, CoherenceAnalyzer,
    SparseCoherenceAnalyzer, MTCoherenceAnalyzer) *)
Theorem C14_init_derived_state_refuted :
  exists g assigned changed h1 h2 r,
    c14_check g [] assigned changed = false /\ stale_after_switch g assigned changed h1 h2 r = true.
Proof. exists granger_graph, [0], [0; 1; 2], [], [], 2. split; [exact granger_check_fails|exact granger_stale]. Qed.

(* CoherenceAnalyzer: method['Fs'] is taken from the input in __init__; a new input with another sampling rate
   leaves it stale and `frequencies` (read before and after) is the old axis *)
Theorem C14_coherence_Fs_refuted :
  c14_check coh_graph [] [0] [0; 1] = false /\ stale_after_switch coh_graph [0] [0; 1] [3] [] 3 = true.
Proof. split; [exact coh_c14_other_rate_fails|exact coh_c14_other_rate_stale]. Qed.

(* ---- witness of the defect repaired by commit 1fea8ad (the table as it was: reset did not delete a result
   inherited from a base class): class MyEpochs(Epochs), duration read, then sliced — duration is stale *)
Example C14_fixed_subclass_reset :
  c14_check subclass_old [] [0] [0] = false /\ stale_after_switch subclass_old [0] [0] [0] [] 0 = true.
Proof. split; [exact subclass_old_check_fails|exact subclass_old_stale]. Qed.

(* a getter with a private cache in a plain attribute passes the C13 checker (harmless between resets) but not
   this one: the cache survives reset and the re-computed result is stale *)
Example C14_private_cache_is_stale :
  wf_check selfcache_graph [0] = true /\ c14_check selfcache_graph [0] [0] [0] = false /\
  stale_after_switch selfcache_graph [0] [0] [0] [] 0 = true.
Proof. split; [exact selfcache_c13_ok|]. split; [exact selfcache_c14_bad|exact selfcache_stale]. Qed.

(* ---- non-vacuity: Epochs (duration read, then sliced) and CoherenceAnalyzer re-targeted to an input of the same
   rate pass the checker; the machine meets the hypotheses of the general theorem *)
Example C14_nonvacuous_epochs :
  c14_check epochs_graph [] [0] [0] = true /\ stale_after_switch epochs_graph [0] [0] [0] [] 0 = false.
Proof. split; [exact epochs_check_ok|exact epochs_fresh]. Qed.
Example C14_nonvacuous_coherence : c14_check coh_graph [] [0] [0] = true.
Proof. exact coh_c14_same_rate. Qed.
Example C14_nonvacuous_machine :
  let K := sym_cls coh_graph in let c1 := sym_init_new [0] in
  wf_strict K sym_init (fun c => mem c []) /\ wf_strict K c1 (fun c => mem c []) /\ acyclic K (fun x => x) /\
  survivors_stable K (fun x => x) sym_init c1 /\
  no_init_derived_state K (fun c => mem c []) (sym_assign [0] [0]) sym_init c1.
Proof. exact (table_hypotheses coh_graph [] [0] [0] coh_c14_same_rate). Qed.
