(* Props/C08.v — property C08: coherence measures are bounded in [0,1], symmetric, 1 on the
   diagonal; coherency is Hermitian with |coherency|^2 = coherence; phase and delay are
   antisymmetric; channel gains leave coherence unchanged (a negative gain flips the coherency
   sign); partial coherence is the value given by the inverse of the 3x3 spectral matrix.

   Statements only; proofs are in Proofs/CohereP.v (and Proofs/CohereBase.v for the complex
   Cauchy-Schwarz inequality). The model is Model/Cohere.v. Everything is over Q / Q[i];
   np.sqrt enters through its contract `is_sqrt s a := 0 <= s /\ s*s == a` on the values it is
   applied to, np.angle through `angle (conj z) == - angle z`; the cross-spectra enter through
   their Gram form  S_ab = sc * sum_t w_t A_a,t conj(A_b,t)  (periodogram: one term; Welch: one
   term per segment; multitaper: one term per taper, weights folded into A).  *)
From Coq Require Import QArith List Arith Bool Lia.
From NT Require Import QC Sums CohereBase Cohere CohereP.
Import ListNotations.
Open Scope Q_scope.

(* ---- complex Cauchy-Schwarz, any number of terms, non-negative weights *)
Theorem C08_complex_cauchy_schwarz : forall (w : nat -> Q) (a b : nat -> C) (n : nat),
  (forall k, (k < n)%nat -> 0 <= w k) ->
  cnorm2 (gram_xy w a b n) <= gram_xx w a n * gram_yy w b n.
Proof. exact complex_cauchy_schwarz. Qed.
Print Assumptions C08_complex_cauchy_schwarz.

(* ---- coherence in [0,1] *)
Theorem C08_coherence_01 : forall (w : nat -> Q) (a b : nat -> C) (n : nat) (sx sy : Q)
    (fxy : C) (fxx fyy : Q),
  (forall k, (k < n)%nat -> 0 <= w k) -> 0 < sx -> 0 < sy ->
  cnorm2 fxy == sx * sy * cnorm2 (gram_xy w a b n) ->
  fxx == sx * gram_xx w a n -> fyy == sy * gram_yy w b n ->
  0 < fxx -> 0 < fyy ->
  0 <= coherence_spec fxy fxx fyy <= 1.
Proof. exact coherence_gram_01. Qed.
Print Assumptions C08_coherence_01.

(* the whole matrix returned by `coherence` / CoherenceAnalyzer.coherence, any channel count *)
Theorem C08_coherence_mat_01 : forall S M k i j,
  gram_at S M k -> (forall a, (a < M)%nat -> 0 < re (S a a k)) ->
  (i < M)%nat -> (j < M)%nat -> 0 <= coherence_mat S i j k <= 1.
Proof. exact coherence_mat_01. Qed.
Print Assumptions C08_coherence_mat_01.

Theorem C08_coherence_symmetric : forall S i j k, coherence_mat S i j k = coherence_mat S j i k.
Proof. exact coherence_mat_sym. Qed.

Theorem C08_coherence_self_1 : forall S i k,
  im (S i i k) == 0 -> ~ re (S i i k) == 0 -> coherence_mat S i i k == 1.
Proof. exact coherence_mat_self_1. Qed.
Print Assumptions C08_coherence_self_1.

(* ---- coherency *)
Theorem C08_coherency_hermitian : forall sq S i j k,
  (i = j -> im (S i i k) == 0) ->
  coherency_mat sq S j i k =c= cconj (coherency_mat sq S i j k).
Proof. exact coherency_mat_hermitian. Qed.

Theorem C08_coherency_norm2_is_coherence : forall sq S i j k,
  (forall a b, (a <= b)%nat -> is_sqrt (sq a b k) (re (S a a k) * re (S b b k))) ->
  (forall a, 0 < re (S a a k)) ->
  cnorm2 (coherency_mat sq S i j k) == coherence_mat S i j k.
Proof. exact coherency_mat_norm2. Qed.
Print Assumptions C08_coherency_norm2_is_coherence.

(* ---- band average *)
Theorem C08_bavg_01 : forall (F n : nat) (w : nat -> nat -> Q) (a b : nat -> nat -> C)
    (fxy : nat -> C) (fxx fyy : nat -> Q) (l u : nat),
  (u - l = F)%nat ->
  (forall f t, (f < F)%nat -> (t < n)%nat -> 0 <= w f t) ->
  (forall f, (f < F)%nat -> fxy (l + f)%nat =c= gram_xy (w f) (a f) (b f) n) ->
  (forall f, (f < F)%nat -> fxx (l + f)%nat == gram_xx (w f) (a f) n) ->
  (forall f, (f < F)%nat -> fyy (l + f)%nat == gram_yy (w f) (b f) n) ->
  0 < band_sum fxx l u -> 0 < band_sum fyy l u ->
  0 <= coherence_bavg_spec fxy fxx fyy l u <= 1.
Proof. exact bavg_gram_01. Qed.
Print Assumptions C08_bavg_01.

Theorem C08_bavg_mat_01 : forall S M l u i j,
  gram_band S M l u ->
  (forall a, (a < M)%nat -> 0 < band_sum (fun k => re (S a a k)) l u) ->
  (i < M)%nat -> (j < M)%nat -> 0 <= coherence_bavg_mat S l u i j <= 1.
Proof. exact coherence_bavg_mat_01. Qed.

Theorem C08_bavg_symmetric : forall S l u i j, coherence_bavg_mat S l u i j = coherence_bavg_mat S l u j i.
Proof. exact coherence_bavg_mat_sym. Qed.

Theorem C08_bavg_self_1 : forall (S : spec) i l u,
  (forall k, im (S i i k) == 0) -> ~ band_sum (fun k => re (S i i k)) l u == 0 ->
  coherence_bavg_mat S l u i i == 1.
Proof. exact coherence_bavg_self_1. Qed.

Theorem C08_coherency_bavg_hermitian : forall mags n cosp sinp i j,
  (i = j -> sinp i i == 0) ->
  coherency_bavg_mat mags n cosp sinp j i =c= cconj (coherency_bavg_mat mags n cosp sinp i j).
Proof. exact coherency_bavg_mat_hermitian. Qed.

(* the slice [lb_idx:ub_idx] of get_bounds is exactly the set of grid frequencies in [lb, ub] *)
Theorem C08_get_bounds_band : forall f lb ub l u, ascending f -> get_bounds f lb (Some ub) = (l, u) ->
  forall k, (k < length f)%nat -> ((l <= k < u)%nat <-> lb <= nth k f 0 <= ub).
Proof. exact get_bounds_band. Qed.
Theorem C08_get_bounds_open : forall f lb l u, ascending f -> get_bounds f lb None = (l, u) ->
  forall k, (k < length f)%nat -> ((l <= k < u)%nat <-> lb <= nth k f 0).
Proof. exact get_bounds_open. Qed.
Print Assumptions C08_get_bounds_band.

(* ---- channel gains *)
Theorem C08_gain_invariant : forall (g : nat -> Q) S i j k,
  (forall a, ~ g a == 0) -> (forall a, ~ re (S a a k) == 0) ->
  coherence_mat (gained g S) i j k == coherence_mat S i j k.
Proof. exact gain_invariant. Qed.
Print Assumptions C08_gain_invariant.

Theorem C08_gain_invariant_gram : forall w a b n g,
  ~ g == 0 -> ~ gram_xx w a n == 0 -> ~ gram_yy w b n == 0 ->
  coherence_spec (gram_xy w (fun k => cscale g (a k)) b n)
                 (gram_xx w (fun k => cscale g (a k)) n) (gram_yy w b n)
  == coherence_spec (gram_xy w a b n) (gram_xx w a n) (gram_yy w b n).
Proof. exact gain_invariant_gram. Qed.

Theorem C08_neg_gain_flips : forall s s' g fxy fxx fyy,
  is_sqrt s (fxx * fyy) -> is_sqrt s' ((g * g * fxx) * (1 * 1 * fyy)) -> 0 < fxx * fyy -> g < 0 ->
  coherency_spec s' (cscale (g * 1) fxy) =c= cneg (coherency_spec s fxy).
Proof. exact neg_gain_flips. Qed.
Theorem C08_pos_gain_keeps : forall s s' g fxy fxx fyy,
  is_sqrt s (fxx * fyy) -> is_sqrt s' ((g * g * fxx) * (1 * 1 * fyy)) -> 0 < fxx * fyy -> 0 < g ->
  coherency_spec s' (cscale (g * 1) fxy) =c= coherency_spec s fxy.
Proof. exact pos_gain_keeps. Qed.
(* gains of either sign on every channel: entry (i,j) is multiplied by sgn g_i * sgn g_j *)
Theorem C08_coherency_gain : forall (g : nat -> Q) sq sq' S i j k,
  (forall a, ~ g a == 0) -> (forall a, 0 < re (S a a k)) ->
  (forall a b, (a <= b)%nat -> is_sqrt (sq a b k) (re (S a a k) * re (S b b k))) ->
  (forall a b, (a <= b)%nat -> is_sqrt (sq' a b k) (re (gained g S a a k) * re (gained g S b b k))) ->
  coherency_mat sq' (gained g S) i j k =c= cscale (sgn (g i) * sgn (g j)) (coherency_mat sq S i j k).
Proof. exact coherency_mat_gain. Qed.
Print Assumptions C08_coherency_gain.

(* ---- phase and delay *)
Theorem C08_phase_antisym : forall (angle : C -> Q),
  (forall z, angle (cconj z) == - angle z) ->
  forall S i j k, phase_mat_fn angle S j i k == - phase_mat_fn angle S i j k.
Proof. exact phase_fn_antisym. Qed.
Theorem C08_phase_analyzer_antisym : forall (angle : C -> Q),
  (forall z, angle (cconj z) == - angle z) ->
  forall S i j k, i <> j -> phase_mat_an angle S j i k == - phase_mat_an angle S i j k.
Proof. exact phase_an_antisym. Qed.
Theorem C08_delay_antisym : forall (angle : C -> Q),
  (forall z, angle (cconj z) == - angle z) ->
  forall twopi S fr l i j k, i <> j -> ~ twopi * fr (l + k)%nat == 0 ->
  delay_mat_fn angle twopi S fr l j i k == - delay_mat_fn angle twopi S fr l i j k.
Proof. exact delay_fn_antisym. Qed.
Theorem C08_delay_analyzer_antisym : forall twopi phase fr i j k,
  phase j i k == - phase i j k -> ~ twopi * fr k == 0 ->
  delay_mat_an twopi phase fr j i k == - delay_mat_an twopi phase fr i j k.
Proof. exact delay_an_antisym. Qed.
Print Assumptions C08_delay_antisym.

(* ---- partial coherence *)
(* adj M / det M is the inverse of M (any complex 3x3 matrix) *)
Theorem C08_adj3_inverse : forall m, meq3 (mmul3 m (adj3 m)) (mscale3 (det3 m) id3).
Proof. exact adj3_inverse. Qed.
Theorem C08_det3_hermitian_real : forall sxx syy srr sxy sxr syr,
  im (det3 (spectral3 sxx syy srr sxy sxr syr)) == 0.
Proof. exact det3_hermitian_real. Qed.

(* coherence_partial_spec as written (with square roots) is the root-free closed form *)
Theorem C08_partial_spec_closed : forall sxr sry sxy fxy fxr fry fxx fyy frr,
  0 < fxx -> 0 < fyy -> 0 < frr ->
  is_sqrt sxr (fxx * frr) -> is_sqrt sry (fyy * frr) -> is_sqrt sxy (fxx * fyy) ->
  ~ fxx * frr - cnorm2 fxr == 0 -> ~ fyy * frr - cnorm2 fry == 0 ->
  coherence_partial_spec sxr sry sxy fxy fxr fry == partial_closed fxy fxx fyy fxr fry frr.
Proof. exact partial_spec_closed. Qed.
Print Assumptions C08_partial_spec_closed.

(* ... which, fed with fry = conj syr, is |G_xy|^2/(G_xx G_yy) for G the inverse spectral matrix *)
Theorem C08_partial_inverse_formula : forall sxx syy srr sxy sxr syr,
  ~ re (det3 (spectral3 sxx syy srr sxy sxr syr)) == 0 ->
  ~ sxx * srr - cnorm2 sxr == 0 -> ~ syy * srr - cnorm2 syr == 0 ->
  partial_inverse sxx syy srr sxy sxr syr == partial_closed sxy sxx syy sxr (cconj syr) srr.
Proof. exact partial_inverse_formula. Qed.
Print Assumptions C08_partial_inverse_formula.

(* what the function and the analyzer return is that value *)
Theorem C08_partial_function_is_inverse : forall S Sr frr i j k, (i <= j)%nat ->
  let sxx := re (S i i k) in let syy := re (S j j k) in let srr := frr j k in
  ~ re (det3 (spectral3 sxx syy srr (S i j k) (Sr i k) (Sr j k))) == 0 ->
  ~ sxx * srr - cnorm2 (Sr i k) == 0 -> ~ syy * srr - cnorm2 (Sr j k) == 0 ->
  coherence_partial_mat S Sr frr i j k == partial_inverse sxx syy srr (S i j k) (Sr i k) (Sr j k).
Proof. exact coherence_partial_mat_inverse. Qed.
Theorem C08_partial_analyzer_is_inverse : forall S i j r k, (i <= j)%nat -> i <> r -> j <> r ->
  im (S r r k) == 0 -> im (S j j k) == 0 ->
  let sxx := re (S i i k) in let syy := re (S j j k) in let srr := re (S r r k) in
  let sxy := herm S i j k in let sxr := herm S i r k in let syr := herm S j r k in
  ~ re (det3 (spectral3 sxx syy srr sxy sxr syr)) == 0 ->
  ~ sxx * srr - cnorm2 sxr == 0 -> ~ syy * srr - cnorm2 syr == 0 ->
  an_partial_mat S i j r k == partial_inverse sxx syy srr sxy sxr syr.
Proof. exact an_partial_mat_inverse. Qed.
Theorem C08_partial_symmetric : forall S Sr frr i j k,
  coherence_partial_mat S Sr frr i j k = coherence_partial_mat S Sr frr j i k.
Proof. exact coherence_partial_mat_sym. Qed.
Theorem C08_partial_analyzer_symmetric : forall S i j r k, an_partial_mat S i j r k = an_partial_mat S j i r k.
Proof. exact an_partial_mat_sym. Qed.

(* partial coherence in [0,1]: Cauchy-Schwarz on the residuals after regressing out r *)
Theorem C08_partial_01 : forall (w : nat -> Q) (a b r : nat -> C) (n : nat),
  (forall k, (k < n)%nat -> 0 <= w k) ->
  let fxy := gram_xy w a b n in let fxr := gram_xy w a r n in let fry := gram_xy w r b n in
  let fxx := gram_xx w a n in let fyy := gram_xx w b n in let frr := gram_xx w r n in
  0 < frr -> 0 < fxx * frr - cnorm2 fxr -> 0 < fyy * frr - cnorm2 fry ->
  0 <= partial_closed fxy fxx fyy fxr fry frr <= 1.
Proof. exact partial_gram_01. Qed.
Print Assumptions C08_partial_01.

(* ---- MTCoherenceAnalyzer *)
Theorem C08_mt_symmetric : forall sxy sx i j k, mt_coherence_mat sxy sx i j k = mt_coherence_mat sxy sx j i k.
Proof. exact mt_coherence_mat_sym. Qed.
Theorem C08_mt_self_1 : forall sxy sx i k, mt_coherence_mat sxy sx i i k = 1.
Proof. exact mt_coherence_mat_self. Qed.
Theorem C08_mt_01 : forall sxy sx M k i j,
  (exists (n : nat) (w : nat -> Q) (A : nat -> nat -> C) (sc : nat -> Q),
     (forall t, (t < n)%nat -> 0 <= w t) /\
     (forall a, (a < M)%nat -> 0 < sc a /\ 0 < sx a k /\ sx a k == sc a * gram_xx w (A a) n) /\
     (forall a b, (b < a)%nat -> (a < M)%nat ->
        cnorm2 (sxy a b k) == sc a * sc b * cnorm2 (gram_xy w (A a) (A b) n))) ->
  (i < M)%nat -> (j < M)%nat -> 0 <= mt_coherence_mat sxy sx i j k <= 1.
Proof. exact mt_coherence_mat_01. Qed.
Print Assumptions C08_mt_01.

(* ================================================================= non-vacuity examples *)
(* three families of three complex terms (channels x, y and the common cause r) *)
Definition ex_a (k : nat) : C := match k with O => (0, -1) | S O => (1, 0) | _ => (0, 0) end.
Definition ex_b (k : nat) : C := match k with O => (0, 2) | S O => (0, 0) | _ => (0, -1) end.
Definition ex_r (k : nat) : C := match k with O => (2, 0) | S O => (0, 1) | _ => (0, 0) end.
Definition ex_w (k : nat) : Q := 1.
Definition ex_A (c : nat) : nat -> C := match c with O => ex_a | S O => ex_b | _ => ex_r end.
(* the spectral matrix they generate (one frequency), upper triangle as get_spectra fills it *)
Definition ex_S : spec := fun i j _ => gram_xy ex_w (ex_A i) (ex_A j) 3.

Lemma ex_w_nonneg : forall k, (k < 3)%nat -> 0 <= ex_w k.
Proof. intros; unfold ex_w; discriminate. Qed.

Example C08_ex_coherence_value : coherence_mat ex_S 0 1 0 == 2 # 5.
Proof. vm_compute. reflexivity. Qed.

Example C08_ex_gram_at : gram_at ex_S 3 0 /\ (forall a, (a < 3)%nat -> 0 < re (ex_S a a 0%nat)).
Proof.
  split.
  - exists 3%nat, ex_w, ex_A, (fun _ => 1). split; [exact ex_w_nonneg|]. split.
    + intros a Ha. split; [reflexivity|].
      destruct a as [|[|[|a]]]; try lia; vm_compute; reflexivity.
    + intros a b Hab Hb.
      destruct a as [|[|[|a]]]; destruct b as [|[|[|b]]]; try lia; vm_compute; reflexivity.
  - intros a Ha. destruct a as [|[|[|a]]]; try lia; vm_compute; reflexivity.
Qed.

Example C08_ex_sqrt : is_sqrt 10 (re (ex_S 0%nat 0%nat 0%nat) * re (ex_S 1%nat 1%nat 0%nat) * (10 # 1)) /\ is_sqrt 2 4.
Proof. split; split; vm_compute; try reflexivity; discriminate. Qed.

(* the partial-coherence hypotheses are met, the value lies strictly inside (0,1) *)
Example C08_ex_partial :
  0 < gram_xx ex_w ex_r 3 /\
  0 < gram_xx ex_w ex_a 3 * gram_xx ex_w ex_r 3 - cnorm2 (gram_xy ex_w ex_a ex_r 3) /\
  0 < gram_xx ex_w ex_b 3 * gram_xx ex_w ex_r 3 - cnorm2 (gram_xy ex_w ex_r ex_b 3) /\
  partial_closed (gram_xy ex_w ex_a ex_b 3) (gram_xx ex_w ex_a 3) (gram_xx ex_w ex_b 3)
                 (gram_xy ex_w ex_a ex_r 3) (gram_xy ex_w ex_r ex_b 3) (gram_xx ex_w ex_r 3) == 4 # 9 /\
  partial_inverse (gram_xx ex_w ex_a 3) (gram_xx ex_w ex_b 3) (gram_xx ex_w ex_r 3)
                  (gram_xy ex_w ex_a ex_b 3) (gram_xy ex_w ex_a ex_r 3) (gram_xy ex_w ex_b ex_r 3) == 4 # 9 /\
  ~ re (det3 (spectral3 (gram_xx ex_w ex_a 3) (gram_xx ex_w ex_b 3) (gram_xx ex_w ex_r 3)
                  (gram_xy ex_w ex_a ex_b 3) (gram_xy ex_w ex_a ex_r 3) (gram_xy ex_w ex_b ex_r 3))) == 0.
Proof. repeat split; try (vm_compute; reflexivity). vm_compute. discriminate. Qed.

(* a band of two frequencies *)
Example C08_ex_bavg :
  let S : spec := fun i j k => gram_xy ex_w (fun t => ex_A i (t + k)%nat) (fun t => ex_A j (t + k)%nat) 2 in
  coherence_bavg_mat S 0 2 0 1 == 4 # 15 /\ 0 < band_sum (fun k => re (S 0%nat 0%nat k)) 0 2.
Proof. split; vm_compute; reflexivity. Qed.

(* an `angle` meeting the antisymmetry hypothesis exists (any odd function of the imaginary part) *)
Example C08_ex_angle : exists angle : C -> Q, (forall z, angle (cconj z) == - angle z) /\ ~ angle (1, 1) == 0.
Proof. exists (fun z => im z). split; [intros z; reflexivity|]. vm_compute. discriminate. Qed.

(* gains: a negative gain on one channel, the hypotheses of C08_neg_gain_flips are met *)
Example C08_ex_neg_gain :
  is_sqrt 2 (1 * 4) /\ is_sqrt 6 (((-3) * (-3) * 1) * (1 * 1 * 4)) /\ 0 < 1 * 4 /\ (-3) < 0 /\
  coherency_spec 6 (cscale ((-3) * 1) (1, 1)) =c= cneg (coherency_spec 2 (1, 1)).
Proof. repeat split; vm_compute; try reflexivity; discriminate. Qed.

Example C08_ex_ascending : ascending [0; 1 # 4; 1 # 2; 3 # 4; 1] /\
  get_bounds [0; 1 # 4; 1 # 2; 3 # 4; 1] (1 # 4) (Some (3 # 4)) = (1%nat, 4%nat) /\
  bavg_bounds [0; 1 # 4; 1 # 2; 3 # 4; 1] 0 None = (1%nat, 5%nat).
Proof.
  split; [|split; reflexivity].
  simpl. repeat split; repeat constructor; discriminate.
Qed.

(* ================================================================= refuted: the code before the repairs *)
(* Before commit "fix: coherence_partial ... f_ry (not f_yr)" both callers handed
   csd(y, r) instead of csd(r, y) = conj csd(y, r) to coherence_partial_spec. On the Gram data
   above the old call chain returns 484/9 (> 1) where the inverse-matrix value is 4/9. *)
Theorem C08_partial_callers_old_refuted :
  exists (S : spec) (Sr : nat -> nat -> C) (frr : nat -> nat -> Q),
    gram_at S 2 0 /\
    1 < coherence_partial_mat_old S Sr frr 0 1 0 /\
    ~ coherence_partial_mat_old S Sr frr 0 1 0
      == partial_inverse (re (S 0 0 0)%nat) (re (S 1 1 0)%nat) (frr 1 0)%nat (S 0 1 0)%nat (Sr 0 0)%nat (Sr 1 0)%nat /\
    coherence_partial_mat S Sr frr 0 1 0
      == partial_inverse (re (S 0 0 0)%nat) (re (S 1 1 0)%nat) (frr 1 0)%nat (S 0 1 0)%nat (Sr 0 0)%nat (Sr 1 0)%nat.
Proof.
  exists ex_S, (fun i _ => gram_xy ex_w (ex_A i) ex_r 3), (fun _ _ => gram_xx ex_w ex_r 3).
  split; [|split; [|split]].
  - exists 3%nat, ex_w, ex_A, (fun _ => 1). split; [exact ex_w_nonneg|]. split.
    + intros a Ha. split; [reflexivity|].
      destruct a as [|[|a]]; try lia; vm_compute; reflexivity.
    + intros a b Hab Hb.
      destruct a as [|[|a]]; destruct b as [|[|b]]; try lia; vm_compute; reflexivity.
  - vm_compute. reflexivity.
  - vm_compute. discriminate.
  - vm_compute. reflexivity.
Qed.

(* Before commit "fix: MTCoherenceAnalyzer.coherence is 1 on the diagonal" the diagonal was never
   written: coherence of a channel with itself was 0 whatever the data. *)
Theorem C08_mt_diag_old_refuted :
  exists (sxy : spec) (sx : nat -> nat -> Q), 0 < sx 0%nat 0%nat /\ ~ mt_coherence_mat_old sxy sx 0 0 0 == 1.
Proof.
  exists (fun _ _ _ => (1, 0)), (fun _ _ => 1). split; [reflexivity|]. vm_compute. discriminate.
Qed.

(* Known finding C08/adaptive_weights/gain: the estimator behind the adaptive multitaper method does
   not meet the bilinearity hypothesis `gained` of C08_gain_invariant: its stopping test is not
   scale-free, so the number of iterations (hence the weights, hence the coherence) changes with
   the channel gain. *)
Theorem C08_adaptive_stop_not_scale_free_refuted :
  exists (q g : Q), ~ g == 0 /\ adaptive_stop q = true /\ adaptive_stop (q / (g * g * g * g)) = false.
Proof.
  exists (1 # 10000000000000), (1 # 10). split; [discriminate|]. split; vm_compute; reflexivity.
Qed.
