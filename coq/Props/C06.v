(* Props/C06.v — property C06: cross-spectral matrices are Hermitian, positive semidefinite and
   channel-consistent.  Statements only, closed by `exact <lemma>` (Proofs/CsdP.v).

   Reading guide.  X c (resp. Y c k) is the library FFT of channel c (resp. of its k-th tapered,
   de-meaned copy), taken as data; w c k f the real taper weights (fixed sqrt-eigenvalues or the
   adaptive ones of channel c), d c f the per-channel norm (sum_k w_ck(f)^2)^0.5 the code obtains
   from the library power function.  pcsd = periodogram_csd, mtcsd = multi_taper_csd, welch_fxy =
   get_spectra's Welch branch.  M = number of channels, any value; every theorem is for all M, N,
   K, both parities, both side conventions. *)
From Coq Require Import QArith List Arith Bool Lia.
From NT Require Import QC Sums Spectral SpectralP Csd CsdP.
Import ListNotations.
Open Scope Q_scope.

(* ---------------------------------------------------------------- Hermitian; swapping conjugates *)
Theorem C06_completion_hermitian : forall pairs i j f,
  herm_complete pairs i j f =c= cconj (herm_complete pairs j i f).
Proof. exact herm_complete_hermitian. Qed.
Theorem C06_pcsd_hermitian : forall sd nrm N n Fs X i j f,
  pcsd sd nrm N n Fs X i j f =c= cconj (pcsd sd nrm N n Fs X j i f).
Proof. exact pcsd_hermitian. Qed.
Theorem C06_mtcsd_hermitian : forall sd N K Fs w d Y i j f,
  mtcsd sd N K Fs w d Y i j f =c= cconj (mtcsd sd N K Fs w d Y j i f).
Proof. exact mtcsd_hermitian. Qed.
Print Assumptions C06_mtcsd_hermitian.

(* ---------------------------------------------------------------- entry formulas: what the
   lower-triangle loops + conj-transpose completion + diagonal halving compute, for EVERY (i, j) *)
Theorem C06_pcsd_entry : forall sd nrm N n Fs X i j f,
  pcsd sd nrm N n Fs X i j f =c=
  cscale (nrmf nrm Fs n * asmf sd N f) (cmul (X i f) (cconj (X j f))).
Proof. exact pcsd_entry. Qed.
Theorem C06_mtcsd_entry : forall sd N K Fs w d Y i j f,
  mtcsd sd N K Fs w d Y i j f =c=
  cscale (dblf sd N f * / (d i f * d j f) * / Fs) (mtm_sum K (w i) (w j) (Y i) (Y j) f).
Proof. exact mtcsd_entry. Qed.
Print Assumptions C06_mtcsd_entry.

(* ---------------------------------------------------------------- entry (i,j) depends on channels
   i and j only: unchanged by adding / removing / reordering other channels *)
Theorem C06_pcsd_entry_local : forall sd nrm N n Fs X X' i j i' j' f,
  X i f =c= X' i' f -> X j f =c= X' j' f ->
  pcsd sd nrm N n Fs X i j f =c= pcsd sd nrm N n Fs X' i' j' f.
Proof. exact pcsd_entry_local. Qed.
Theorem C06_mtcsd_entry_local : forall sd N K Fs w d Y w' d' Y' i j i' j' f,
  (forall k, (k < K)%nat -> w i k f == w' i' k f /\ Y i k f =c= Y' i' k f) ->
  (forall k, (k < K)%nat -> w j k f == w' j' k f /\ Y j k f =c= Y' j' k f) ->
  d i f == d' i' f -> d j f == d' j' f ->
  mtcsd sd N K Fs w d Y i j f =c= mtcsd sd N K Fs w' d' Y' i' j' f.
Proof. exact mtcsd_entry_local. Qed.
(* permutation equivariance / subsets / repeated channels: any relabelling map sigma *)
Theorem C06_pcsd_reindex : forall sd nrm N n Fs X (sigma : nat -> nat) i j f,
  pcsd sd nrm N n Fs (fun c => X (sigma c)) i j f =c= pcsd sd nrm N n Fs X (sigma i) (sigma j) f.
Proof. exact pcsd_reindex. Qed.
Theorem C06_mtcsd_reindex : forall sd N K Fs w d Y (sigma : nat -> nat) i j f,
  mtcsd sd N K Fs (fun c => w (sigma c)) (fun c => d (sigma c)) (fun c => Y (sigma c)) i j f
  =c= mtcsd sd N K Fs w d Y (sigma i) (sigma j) f.
Proof. exact mtcsd_reindex. Qed.
(* flattening extra leading dimensions (row-major) *)
Theorem C06_pcsd_flatten : forall sd nrm N n Fs (dims : list nat) (S : list nat -> sig) (X : nat -> sig) a b f,
  (forall idx, X (flat_index dims idx) f =c= S idx f) ->
  pcsd sd nrm N n Fs X (flat_index dims a) (flat_index dims b) f
  =c= cscale (nrmf nrm Fs n * asmf sd N f) (cmul (S a f) (cconj (S b f))).
Proof. exact pcsd_flatten. Qed.
Theorem C06_flat_index_in_range : forall dims idx,
  Forall2 (fun i d => (i < d)%nat) idx dims -> (flat_index dims idx < fold_right Nat.mul 1%nat dims)%nat.
Proof. exact flat_index_bound. Qed.
Print Assumptions C06_pcsd_flatten.

(* ---------------------------------------------------------------- diagonal = single-channel
   estimator of C04 with the same settings (hence real) *)
Theorem C06_pcsd_diag_is_periodogram : forall sd nrm N n Fs X i f,
  pcsd sd nrm N n Fs X i i f =c= ofQ (periodogram sd nrm N n Fs (X i) f).
Proof. exact pcsd_diag_is_periodogram. Qed.
(* ... also for a truncating transform, NFFT = N < n = number of samples (X is then the FFT of the
   first N samples): both functions divide by Fs * n, whatever N is *)
Theorem C06_pcsd_diag_is_periodogram_truncating : forall sd nrm N n Fs X i f, (N < n)%nat ->
  pcsd sd nrm N n Fs X i i f =c= ofQ (periodogram sd nrm N n Fs (X i) f) /\
  nrmf nrm Fs n = (if nrm then / (Fs * inj n) else 1).
Proof. exact pcsd_diag_is_periodogram_truncating. Qed.
Theorem C06_mtcsd_diag_is_psd : forall sd N K Fs w d Y i f,
  d i f * d i f == auto_denom K (w i) f ->
  mtcsd sd N K Fs w d Y i i f =c= ofQ (mt_psd sd N K Fs (w i) (Y i) f).
Proof. exact mtcsd_diag_is_psd. Qed.
Print Assumptions C06_mtcsd_diag_is_psd.

(* the settings mean the same in both functions: multi_taper_csd's own NW / BW / default-NW
   derivation (as written there) yields the NW of multi_taper_psd, hence the same Kmax and tapers *)
Theorem C06_nw_derivation_agrees : forall bw nw n Fs, nw_csd bw nw n Fs = nw_psd bw nw n Fs.
Proof. exact nw_csd_is_nw_psd. Qed.

(* ---------------------------------------------------------------- positive semidefinite:
   v^H S v is real and >= 0 for every complex vector v, every M *)
Theorem C06_gram_psd : forall M K c (a : nat -> nat -> C) S v,
  0 <= c ->
  (forall i j, (i < M)%nat -> (j < M)%nat ->
     S i j =c= cscale c (csumn (fun k => cmul (a i k) (cconj (a j k))) K)) ->
  im (qform M S v) == 0 /\ 0 <= re (qform M S v).
Proof. exact gram_psd. Qed.
Theorem C06_pcsd_psd : forall sd nrm N n Fs X M f v,
  0 <= nrmf nrm Fs n ->
  im (qform M (fun i j => pcsd sd nrm N n Fs X i j f) v) == 0 /\
  0 <= re (qform M (fun i j => pcsd sd nrm N n Fs X i j f) v).
Proof. exact pcsd_psd. Qed.
Theorem C06_mtcsd_psd : forall sd N K Fs w d Y M f v,
  0 < Fs -> (forall i, (i < M)%nat -> 0 < d i f) ->
  im (qform M (fun i j => mtcsd sd N K Fs w d Y i j f) v) == 0 /\
  0 <= re (qform M (fun i j => mtcsd sd N K Fs w d Y i j f) v).
Proof. exact mtcsd_psd. Qed.
Print Assumptions C06_mtcsd_psd.

(* ---------------------------------------------------------------- get_spectra, Welch branch:
   the documented semi-filled convention.  Entry [i][j] (i <= j) is what mlab.csd returns for
   (ts[j], ts[i]); below the diagonal the array is zero; exactly the pairs b <= a < M are computed.
   (Hermitian / PSD for this branch hold for the completed matrix and rest on matplotlib's
   contract; they are validated numerically by the check, not proved.) *)
Theorem C06_welch_semi_filled : forall lib i j f,
  welch_fxy lib i j f = if (i <=? j)%nat then lib j i f else c0.
Proof. exact welch_semi_filled. Qed.
Theorem C06_welch_calls : forall M a b, In (a, b) (welch_calls M) <-> (b <= a < M)%nat.
Proof. exact welch_calls_spec. Qed.

(* ---------------------------------------------------------------- non-vacuity *)
Example C06_diag_hyp_met : (* d = 5 is the root of 3^2 + 4^2 *)
  let w : nat -> nat -> nat -> Q := fun _ k _ => match k with 0%nat => 3 | _ => 4 end in
  let d : nat -> nat -> Q := fun _ _ => 5 in
  d 0%nat 0%nat * d 0%nat 0%nat == auto_denom 2 (w 0%nat) 0%nat /\ 0 < d 0%nat 0%nat.
Proof. vm_compute. split; reflexivity. Qed.
(* a 2-channel instance with the true 4-point DFT: the quadratic form is a positive number *)
Example C06_psd_instance :
  let x0 : sig := fun t => match t with 0%nat => (1, 0) | 1%nat => (2, 0) | _ => (0, 0) end in
  let x1 : sig := fun t => match t with 0%nat => (0, 0) | 1%nat => (1, 0) | _ => (-(1), 0) end in
  let X : nat -> sig := fun c => match c with 0%nat => dft4 x0 | _ => dft4 x1 end in
  let v : nat -> C := fun c => match c with 0%nat => (1, 1) | _ => (0, -(2)) end in
  qform 2 (fun i j => pcsd OneSided true 4 4 1 X i j 1) v =c= (5, 0).
Proof. vm_compute. split; reflexivity. Qed.
