(* Props/C01.v — property C01: time values are exact and independent of the unit.
   Only statements, each closed by `exact <lemma>` from Proofs/TimeArrayP.v, followed by
   Print Assumptions; non-vacuity Examples at the end. *)
From Coq Require Import ZArith List Bool PrimFloat.
From NT Require Import F2Z TimeArray TimeArrayP.
Import ListNotations.
Open Scope Z_scope.

(* the unit table is the SI one, in picoseconds *)
Theorem C01_factor_is_SI :
  factor Ups = 1 /\ factor Uns = 1000 * factor Ups /\ factor Uus = 1000 * factor Uns /\
  factor Ums = 1000 * factor Uus /\ factor Us = 1000 * factor Ums /\ factor Um = 60 * factor Us /\
  factor Uh = 60 * factor Um /\ factor UD = 24 * factor Uh /\ factor UW = 7 * factor UD.
Proof. exact factor_SI. Qed.
Print Assumptions C01_factor_is_SI.

(* integers are stored exactly as n * unit, for every unit, every length *)
Theorem C01_ctor_int_exact : forall u sc l,
  Forall (fun n => in62 (n * factor u) = true) l ->
  ctor (UArg u) (DInts sc l) = Ok (mk_tarr (map (fun n => n * factor u) l) u sc).
Proof. exact ctor_int_exact. Qed.
Print Assumptions C01_ctor_int_exact.

Theorem C01_ctor_int_default_seconds : forall sc l,
  Forall (fun n => in62 (n * factor Us) = true) l ->
  ctor UArgNone (DInts sc l) = Ok (mk_tarr (map (fun n => n * factor Us) l) Us sc).
Proof. exact ctor_int_default_seconds. Qed.
Print Assumptions C01_ctor_int_default_seconds.

(* floats: each stored value is a nearest integer to the 64-bit float product x * unit *)
Theorem C01_ctor_float_nearest : forall u sc l t,
  ctor (UArg u) (DFloats sc l) = Ok t ->
  tunit t = u /\ scalar t = sc /\
  Forall2 (fun x z => exists m e, f2ze (PrimFloat.mul x (z2f (factor u))) = Some (m, e) /\ nearest z m e)
          l (payload t).
Proof. exact ctor_float_spec. Qed.
Print Assumptions C01_ctor_float_nearest.

Theorem C01_round_half_even : forall m e,
  nearest (rne m e) m e /\ (e < 0 -> 2 * (m mod 2 ^ (- e)) = 2 ^ (- e) -> Z.even (rne m e) = true).
Proof. intros m e; split; [exact (rne_nearest m e)|exact (rne_tie_even m e)]. Qed.
Print Assumptions C01_round_half_even.

Theorem C01_bad_unit_rejected : forall d, ctor UArgBad d = Err ValueError.
Proof. exact ctor_bad_unit. Qed.

(* re-wrapping, converting the display unit, building from an equivalent number in another
   unit: the instant (the picosecond payload) never changes *)
Theorem C01_rewrap_id : forall t, ctor UArgNone (DTime t) = Ok t.
Proof. exact rewrap_id. Qed.
Theorem C01_rewrap_unit : forall t u, ctor (UArg u) (DTime t) = Ok (convert_unit t u).
Proof. exact rewrap_unit. Qed.
Theorem C01_convert_unit_payload : forall t u,
  payload (convert_unit t u) = payload t /\ tunit (convert_unit t u) = u.
Proof. exact convert_unit_payload. Qed.
Theorem C01_same_instant_any_unit : forall u1 u2 n1 n2 sc,
  n1 * factor u1 = n2 * factor u2 -> in62 (n1 * factor u1) = true ->
  payload_of (ctor (UArg u1) (DInts sc [n1])) = payload_of (ctor (UArg u2) (DInts sc [n2])) /\
  payload_of (ctor (UArg u1) (DInts sc [n1])) = [n1 * factor u1].
Proof. exact same_instant_any_unit. Qed.
Theorem C01_timelist_payload : forall ua t l r,
  ctor ua (DTimeList t l) = Ok r -> payload r = map head_ps (t :: l).
Proof. exact timelist_payload. Qed.
Print Assumptions C01_same_instant_any_unit.

(* + - r+ r- between time objects of any units: exact integer arithmetic on picoseconds *)
Theorem C01_arith_time_exact : forall op self t,
  Forall (fun z => in62 z = true) (payload self) ->
  Forall (fun z => in62 z = true) (payload t) ->
  binop_arith op self (OTime t) = binop_exact op self (payload t) (scalar t).
Proof. exact arith_time_exact. Qed.
Print Assumptions C01_arith_time_exact.

Theorem C01_arith_time_units_irrelevant : forall op p sp q sq u u2 u2',
  binop_arith op (mk_tarr p u sp) (OTime (mk_tarr q u2 sq)) =
  binop_arith op (mk_tarr p u sp) (OTime (mk_tarr q u2' sq)).
Proof. exact arith_time_units_irrelevant. Qed.

(* with a bare integer, read in the unit of the time operand *)
Theorem C01_arith_bare_int_exact : forall op self sc l,
  Forall (fun z => in62 z = true) (payload self) ->
  Forall (fun n => in62 (n * factor (tunit self)) = true) l ->
  binop_arith op self (OInts sc l) = binop_exact op self (map (fun n => n * factor (tunit self)) l) sc.
Proof. exact arith_bare_int_exact. Qed.
Print Assumptions C01_arith_bare_int_exact.

(* with a bare fractional number: rounded to a nearest picosecond, then exact *)
Theorem C01_bare_float_nearest : forall self sc l p sb,
  conv_operand self (OFloats sc l) = Some (p, sb) ->
  sb = sc /\
  Forall2 (fun x z => exists m e, f2ze (PrimFloat.mul x (z2f (factor (tunit self)))) = Some (m, e) /\ nearest z m e) l p.
Proof. exact conv_bare_float. Qed.
Theorem C01_arith_bare_float_exact : forall op self sc l p,
  Forall (fun z => in62 z = true) (payload self) ->
  conv_operand self (OFloats sc l) = Some (p, sc) ->
  Forall (fun z => in62 z = true) p ->
  binop_arith op self (OFloats sc l) = binop_exact op self p sc.
Proof. exact arith_bare_float_exact. Qed.
Print Assumptions C01_arith_bare_float_exact.

(* the result keeps the unit of the time operand (the left one) *)
Theorem C01_result_unit_left : forall op self o r, binop_arith op self o = Ok r -> tunit r = tunit self.
Proof. exact arith_result_unit. Qed.

(* comparisons are the integer comparisons of the picosecond values; units play no role *)
Theorem C01_cmp_is_integer_comparison : forall op x y,
  cmp_fn op x y = true <->
  match op with Lt => x < y | Le => x <= y | Gt => x > y | Ge => x >= y | Eq => x = y end.
Proof. exact cmp_fn_spec. Qed.
Theorem C01_cmp_time : forall op self t,
  binop_cmp op self (OTime t) =
  match bcast (cmp_fn op) (payload self) (scalar self) (payload t) (scalar t) with
  | Some r => Ok r | None => Err ValueError end.
Proof. exact cmp_time_is_bcast. Qed.
Theorem C01_cmp_units_irrelevant : forall op p sp q sq u1 u2 u1' u2',
  binop_cmp op (mk_tarr p u1 sp) (OTime (mk_tarr q u2 sq)) =
  binop_cmp op (mk_tarr p u1' sp) (OTime (mk_tarr q u2' sq)).
Proof. exact cmp_time_units_irrelevant. Qed.
Print Assumptions C01_cmp_time.

(* reductions: exact, unit kept, 0-d *)
Theorem C01_min_spec : forall t x l, payload t = x :: l ->
  exists v, reduce RMin t = Ok (mk_tarr [v] (tunit t) true) /\ In v (x :: l) /\ Forall (fun y => v <= y) (x :: l).
Proof. exact reduce_min_spec. Qed.
Theorem C01_max_spec : forall t x l, payload t = x :: l ->
  exists v, reduce RMax t = Ok (mk_tarr [v] (tunit t) true) /\ In v (x :: l) /\ Forall (fun y => y <= v) (x :: l).
Proof. exact reduce_max_spec. Qed.
Theorem C01_sum_spec : forall t x l, payload t = x :: l -> abs_sum (x :: l) < 2 ^ 63 ->
  reduce RSum t = Ok (mk_tarr [zsum (x :: l)] (tunit t) true).
Proof. exact reduce_sum_spec. Qed.
Theorem C01_ptp_spec : forall t x l, payload t = x :: l -> Forall (fun z => in62 z = true) (x :: l) ->
  reduce RPtp t = Ok (mk_tarr [zmax_list x l - zmin_list x l] (tunit t) true).
Proof. exact reduce_ptp_spec. Qed.
Print Assumptions C01_sum_spec.
Print Assumptions C01_ptp_spec.

(* The faithful model REFUTES the r+ claim for a numpy integer scalar on the left: it is added
   as picoseconds, not read in the unit of the time object (known finding). *)
Theorem C01_reflected_npscalar_refuted : exists self v,
  Forall (fun z => in62 z = true) (payload self) /\ in62 (v * factor (tunit self)) = true /\
  reflected_npscalar RAdd self v <> binop_exact RAdd self [v * factor (tunit self)] true.
Proof.
  exists (mk_tarr [1000000000000] Us true), 5. split; [|split].
  - simpl. constructor; [reflexivity|constructor].
  - reflexivity.
  - cbv. intros H. discriminate H.
Qed.
Print Assumptions C01_reflected_npscalar_refuted.

(* non-vacuity: the hypotheses are met well above 2^53 ps, where float64 is no longer exact *)
Example C01_nonvacuous_above_2p53 :
  Forall (fun n => in62 (n * factor Ums) = true) [9007200; 9007201] /\
  2 ^ 53 < 9007200 * factor Ums /\
  binop_arith Sub (mk_tarr [9007199254740993] Ums true) (OTime (mk_tarr [9007199254740992] Uns true))
  = Ok (mk_tarr [1] Ums true).
Proof.
  split; [|split].
  - constructor; [reflexivity|constructor; [reflexivity|constructor]].
  - reflexivity.
  - reflexivity.
Qed.
Example C01_float_tie_example :
  ctor (UArg Ups) (DFloats false [2.5%float; 3.5%float; (-2.5)%float]) = Ok (mk_tarr [2; 4; -2] Ups false).
Proof. vm_compute. reflexivity. Qed.
