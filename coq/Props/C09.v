(* Props/C09.v — property C09: the cached, sparse and seed coherence paths equal the dense
   all-pairs Welch computation for the same pairs and bins.

   Statements only; every proof is `exact <lemma of Proofs/CacheP.v>`.  The model (Model/Cache.v)
   follows nitime/algorithms/cohere.py cache_fft / cache_to_* and analysis/coherence.py
   Sparse/SeedCoherenceAnalyzer as they are after the fix commits a877b11 (default overlap) and
   874e1e9 (cache_to_psd halving), and the dense path get_spectra(welch) + coherency with the contract
   of matplotlib.mlab.csd.  `dft` (the FFT of one windowed segment) is universally quantified: no
   property of the Fourier transform is needed.  A coherency value pxy / sqrt(pxx * pyy) is kept
   symbolic (`CDivSqrt`); "equal" is stated (a) as: the two symbolic values differ by a common
   positive factor (`cval_scaled`), (b) as: exactly the same numbers satisfy the characterising
   relation of the quotient (`is_coherency`), (c) for the coherence |.|^2, as equality in Q.

   Common hypotheses: the overlap in effect is < NFFT (else both paths raise), all channels have the
   same length n (shorter than, equal to or longer than NFFT), listed indices are valid rows,
   Fs > 0, the window is not identically zero, the band [lbi, ubi) lies inside the one-sided
   spectrum.  ovl = None means "default overlap" on both sides. *)
From Coq Require Import QArith List Arith ZArith Bool.
From NT Require Import QC Sums Cache CacheP.
Import ListNotations.
Open Scope Q_scope.

(* ---------------------------------------------------------------- zero padding, segmentation, band *)
Theorem C09_zero_pad_spec : forall x nfft,
  length (zero_pad x nfft) = Nat.max (length x) nfft /\
  (forall t, (t < length x)%nat -> nth t (zero_pad x nfft) 0 = nth t x 0) /\
  (forall t, (length x <= t)%nat -> nth t (zero_pad x nfft) 0 = 0) /\
  ((nfft <= length x)%nat -> zero_pad x nfft = x).
Proof.
  intros x nfft. exact (conj (zero_pad_length x nfft) (conj (zero_pad_nth_data x nfft)
                        (conj (zero_pad_nth_tail x nfft) (zero_pad_long x nfft)))).
Qed.
Print Assumptions C09_zero_pad_spec.

(* range(0, n-NFFT+1, NFFT-overlap) cuts exactly mlab's every-(NFFT-noverlap)-th sliding window, every
   segment lies inside the (padded) data, there is at least one, and their number is the Welch count *)
Theorem C09_segments_agree : forall n nfft ovl, (ovl < nfft)%nat ->
  cache_starts n nfft ovl = dense_starts n nfft ovl.
Proof. exact segments_agree. Qed.
Theorem C09_segments_in_range : forall n nfft ovl t, (ovl < nfft)%nat -> (nfft <= n)%nat ->
  In t (cache_starts n nfft ovl) -> (t + nfft <= n)%nat /\ exists q, t = (q * (nfft - ovl))%nat.
Proof. exact starts_in_range. Qed.
Theorem C09_segments_count : forall n nfft ovl, (ovl < nfft)%nat -> (nfft <= n)%nat ->
  length (cache_starts n nfft ovl) = ((n - nfft) / (nfft - ovl) + 1)%nat.
Proof. exact starts_count. Qed.
(* both paths use the same default overlap, for every NFFT (odd ones too: fix a877b11) *)
Theorem C09_default_overlap_agree : forall nfft, cache_default_overlap nfft = dense_default_overlap nfft.
Proof. exact default_overlap_agree. Qed.
Print Assumptions C09_segments_agree.

(* the cached bins are exactly the bins of the (sorted) frequency vector that lie in [lb, ub] *)
Theorem C09_band_indices_spec : forall f lb ub k, sortedQ f -> (k < length f)%nat ->
  let (lbi, ubi) := get_bounds f lb (Some ub) in
  ((lbi <= k < ubi)%nat <-> lb <= nth k f 0 /\ nth k f 0 <= ub).
Proof. exact band_indices_spec. Qed.
Theorem C09_band_indices_open : forall f lb k, sortedQ f -> (k < length f)%nat ->
  let (lbi, ubi) := get_bounds f lb None in
  ((lbi <= k < ubi)%nat <-> lb <= nth k f 0).
Proof. exact band_indices_open. Qed.
Print Assumptions C09_band_indices_spec.

(* ---------------------------------------------------------------- the four branches *)
(* prefer_speed_over_memory in {True, False} x (more than one window | a single window): all four
   loops of cache_to_coherency produce the same three numbers, the Welch averages U scaled by 1/norm_val *)
Theorem C09_four_branches_equal :
  forall dft (ts : list (list Q)) n wv nfft ovl fs sbf psm lbi ubi (ij : list (Z * Z)),
  (oeff nfft ovl < nfft)%nat ->
  (forall x, In x ts -> length x = n) ->
  (forall p, In p ij -> (0 <= fst p < Z.of_nat (length ts))%Z /\ (0 <= snd p < Z.of_nat (length ts))%Z) ->
  (ubi <= mlab_numfreqs nfft)%nat ->
  forall i j, In (Z.of_nat i, Z.of_nat j) ij ->
  forall k, (k < ubi - lbi)%nat ->
  exists pxy pxx pyy,
    coh_entry (cache_fft dft (tsz ts) ij wv nfft ovl fs sbf psm lbi ubi) (Z.of_nat i) (Z.of_nat j) k
      = CDivSqrt pxy pxx pyy /\
    pxy =c= cscale (/ norm_val wv fs sbf) (U dft wv nfft (oeff nfft ovl) (nth i ts []) (nth j ts []) (nwin nfft (oeff nfft ovl) n) (lbi + k)) /\
    pxx =c= cscale (/ norm_val wv fs sbf) (U dft wv nfft (oeff nfft ovl) (nth i ts []) (nth i ts []) (nwin nfft (oeff nfft ovl) n) (lbi + k)) /\
    pyy =c= cscale (/ norm_val wv fs sbf) (U dft wv nfft (oeff nfft ovl) (nth j ts []) (nth j ts []) (nwin nfft (oeff nfft ovl) n) (lbi + k)).
Proof. exact cache_entry_uniform. Qed.
Print Assumptions C09_four_branches_equal.

(* ---------------------------------------------------------------- coherency and coherence *)
(* for every pair list (repeated, self and reversed pairs included), every listed pair, any band, any
   number of windows >= 1, both memory settings, both scale_by_freq settings, both parities of NFFT *)
Theorem C09_cache_coherency_scaled :
  forall dft (ts : list (list Q)) n wv nfft ovl fs sbf psm lbi ubi (ij : list (Z * Z)),
  (oeff nfft ovl < nfft)%nat ->
  (forall x, In x ts -> length x = n) ->
  (forall p, In p ij -> (0 <= fst p < Z.of_nat (length ts))%Z /\ (0 <= snd p < Z.of_nat (length ts))%Z) ->
  0 < fs -> 0 < sumsq wv -> (ubi <= mlab_numfreqs nfft)%nat ->
  forall i j, In (Z.of_nat i, Z.of_nat j) ij ->
  forall k, (k < ubi - lbi)%nat ->
  cval_scaled (coh_entry (cache_fft dft (tsz ts) ij wv nfft ovl fs sbf psm lbi ubi) (Z.of_nat i) (Z.of_nat j) k)
              (dense_coh dft ts wv nfft ovl fs i j (lbi + k)).
Proof. exact cache_coherency_scaled. Qed.
Print Assumptions C09_cache_coherency_scaled.

Theorem C09_cache_coherency_eq_dense :
  forall dft (ts : list (list Q)) n wv nfft ovl fs sbf psm lbi ubi (ij : list (Z * Z)),
  (oeff nfft ovl < nfft)%nat ->
  (forall x, In x ts -> length x = n) ->
  (forall p, In p ij -> (0 <= fst p < Z.of_nat (length ts))%Z /\ (0 <= snd p < Z.of_nat (length ts))%Z) ->
  0 < fs -> 0 < sumsq wv -> (ubi <= mlab_numfreqs nfft)%nat ->
  forall i j, In (Z.of_nat i, Z.of_nat j) ij ->
  forall k c, (k < ubi - lbi)%nat ->
  (is_coherency c (coh_entry (cache_fft dft (tsz ts) ij wv nfft ovl fs sbf psm lbi ubi) (Z.of_nat i) (Z.of_nat j) k)
   <-> is_coherency c (dense_coh dft ts wv nfft ovl fs i j (lbi + k))).
Proof. exact cache_coherency_eq_dense. Qed.
Print Assumptions C09_cache_coherency_eq_dense.

Theorem C09_cache_coherence_eq_dense :
  forall dft (ts : list (list Q)) n wv nfft ovl fs sbf psm lbi ubi (ij : list (Z * Z)),
  (oeff nfft ovl < nfft)%nat ->
  (forall x, In x ts -> length x = n) ->
  (forall p, In p ij -> (0 <= fst p < Z.of_nat (length ts))%Z /\ (0 <= snd p < Z.of_nat (length ts))%Z) ->
  0 < fs -> 0 < sumsq wv -> (ubi <= mlab_numfreqs nfft)%nat ->
  forall i j, In (Z.of_nat i, Z.of_nat j) ij ->
  forall k, (k < ubi - lbi)%nat ->
  ~ radicand (dense_coh dft ts wv nfft ovl fs i j (lbi + k)) == 0 ->      (* no 0/0: both dense spectra non-zero *)
  coherence_of (coh_entry (cache_fft dft (tsz ts) ij wv nfft ovl fs sbf psm lbi ubi) (Z.of_nat i) (Z.of_nat j) k)
  == coherence_of (dense_coh dft ts wv nfft ovl fs i j (lbi + k)).
Proof. exact cache_coherence_eq_dense. Qed.
Print Assumptions C09_cache_coherence_eq_dense.

(* the symbolic values mean what they should: scaling by a common positive factor keeps the set of
   numbers that satisfy the characterisation of pxy / sqrt (pxx * pyy) *)
Theorem C09_scaled_values_denote_the_same : forall c v v', cval_scaled v v' -> (is_coherency c v <-> is_coherency c v').
Proof. exact scaled_is_coherency. Qed.

(* ... and that characterisation determines the number: at most one c satisfies it *)
Theorem C09_coherency_value_unique : forall c c' v, is_coherency c v -> is_coherency c' v -> c =c= c'.
Proof. exact is_coherency_unique. Qed.
Print Assumptions C09_coherency_value_unique.

(* the result array: a listed cell holds the pair's entry (whatever else the list contains, in any
   order, with repetitions), every other cell is the zero it was initialised with *)
Theorem C09_array_listed : forall ch ij i j k,
  (forall p, In p ij -> (0 <= fst p)%Z /\ (0 <= snd p)%Z) -> In (Z.of_nat i, Z.of_nat j) ij ->
  cache_to_coherency ch ij i j k = coh_entry ch (Z.of_nat i) (Z.of_nat j) k.
Proof. exact cache_to_coherency_listed. Qed.
Theorem C09_array_unlisted : forall ch ij i j k,
  (forall p, In p ij -> (0 <= fst p)%Z /\ (0 <= snd p)%Z) -> ~ In (Z.of_nat i, Z.of_nat j) ij ->
  cache_to_coherency ch ij i j k = CZero.
Proof. exact cache_to_coherency_unlisted. Qed.

(* ---------------------------------------------------------------- power spectra *)
(* with scale_by_freq (the only mode of the dense path): any band, any number of windows >= 1, both
   parities of NFFT (after fix 874e1e9; before it this held only for full band, >= 2 windows, even NFFT) *)
Theorem C09_cache_psd_eq_dense :
  forall dft (ts : list (list Q)) n wv nfft ovl fs sbf psm lbi ubi (ij : list (Z * Z)),
  (oeff nfft ovl < nfft)%nat ->
  (forall x, In x ts -> length x = n) ->
  (forall p, In p ij -> (0 <= fst p < Z.of_nat (length ts))%Z /\ (0 <= snd p < Z.of_nat (length ts))%Z) ->
  0 < fs -> 0 < sumsq wv -> (ubi <= mlab_numfreqs nfft)%nat ->
  forall i j, In (Z.of_nat i, Z.of_nat j) ij ->
  forall k, sbf = true -> (0 < nfft)%nat -> (k < ubi - lbi)%nat ->
  cache_to_psd (cache_fft dft (tsz ts) ij wv nfft ovl fs sbf psm lbi ubi) (Z.of_nat i) k
  =c= dense_fxy dft ts wv nfft ovl fs i i (lbi + k).
Proof. exact cache_psd_eq_dense. Qed.
Print Assumptions C09_cache_psd_eq_dense.

(* scale_by_freq = False: the cached spectrum is NOT the dense one (the dense path has no such mode;
   witness: one channel [1,1], NFFT 2, rectangular window, Fs 2: cache 1, dense 1/2).
   Known finding C09/cache_to_psd/scale_by_freq=False. *)
Theorem C09_cache_psd_noscale_refuted :
  exists dft (ts : list (list Q)) wv nfft ovl fs psm lbi ubi (ij : list (Z * Z)) i k,
    (oeff nfft ovl < nfft)%nat /\ 0 < fs /\ 0 < sumsq wv /\ (ubi <= mlab_numfreqs nfft)%nat /\
    In (Z.of_nat i, Z.of_nat i) ij /\ (k < ubi - lbi)%nat /\
    ~ cache_to_psd (cache_fft dft (tsz ts) ij wv nfft ovl fs false psm lbi ubi) (Z.of_nat i) k
      =c= dense_fxy dft ts wv nfft ovl fs i i (lbi + k).
Proof. exact psd_noscale_refuted. Qed.
Print Assumptions C09_cache_psd_noscale_refuted.

(* ---------------------------------------------------------------- relative phase *)
(* one window: cache_to_relative_phase takes the angle of a positive multiple of the dense cross-spectrum *)
Theorem C09_relphase_single_window_eq_dense :
  forall dft (ts : list (list Q)) n wv nfft ovl fs sbf psm lbi ubi (ij : list (Z * Z)),
  (oeff nfft ovl < nfft)%nat ->
  (forall x, In x ts -> length x = n) ->
  (forall p, In p ij -> (0 <= fst p < Z.of_nat (length ts))%Z /\ (0 <= snd p < Z.of_nat (length ts))%Z) ->
  0 < fs -> 0 < sumsq wv -> (ubi <= mlab_numfreqs nfft)%nat ->
  forall i j, In (Z.of_nat i, Z.of_nat j) ij ->
  forall k, (k < ubi - lbi)%nat -> (i <= j)%nat -> nwin nfft (oeff nfft ovl) n = 1%nat ->
  exists z l, relphase_entry (cache_fft dft (tsz ts) ij wv nfft ovl fs sbf psm lbi ubi) (Z.of_nat i) (Z.of_nat j) k = PAngle z /\
              0 < l /\ z =c= cscale l (dense_fxy dft ts wv nfft ovl fs i j (lbi + k)).
Proof. exact relphase_single_window. Qed.
Print Assumptions C09_relphase_single_window_eq_dense.

(* several windows: cache_to_relative_phase averages the per-window angles (its docstring says so), which
   is not the angle of the averaged cross-spectrum.  Witness: two windows whose products are 1 (angle 0)
   and 100 i (angle pi/2): the mean angle is pi/4, direction (1, 1); the dense cross-spectrum is
   (1/4, 25), direction (1, 100).  (That the mean of the angles 0 and pi/2 is pi/4 is the one step not
   formalised.)  Known finding C09/cache_to_relative_phase/multi-window. *)
Theorem C09_relphase_multiwindow_refuted :
  exists dft (ts : list (list Q)) wv nfft ovl fs sbf psm lbi ubi (ij : list (Z * Z)) i j k z0 z1 d,
    relphase_entry (cache_fft dft (tsz ts) ij wv nfft ovl fs sbf psm lbi ubi) (Z.of_nat i) (Z.of_nat j) k
      = PMeanAngle [z0; z1] /\
    (im z0 == 0 /\ 0 < re z0) /\ (re z1 == 0 /\ 0 < im z1) /\
    d =c= dense_fxy dft ts wv nfft ovl fs i j (lbi + k) /\ ~ re d == im d.
Proof. exact relphase_multiwindow_refuted. Qed.
Print Assumptions C09_relphase_multiwindow_refuted.

(* ---------------------------------------------------------------- the seed analyzer *)
(* SeedCoherenceAnalyzer.coherency[s, t, k] (seed injected under key -1, row -1 of a one-row array)
   is the dense coherency of the stacked channels [seeds; targets] at (s, n_seeds + t), bin lbi + k *)
Theorem C09_seed_rows_eq_dense :
  forall dft (seeds targets : list (list Q)) n wv nfft ovl fs sbf psm lbi ubi,
  (oeff nfft ovl < nfft)%nat ->
  (forall x, In x (seeds ++ targets) -> length x = n) ->
  0 < fs -> 0 < sumsq wv -> (ubi <= mlab_numfreqs nfft)%nat ->
  forall s t k, (s < length seeds)%nat -> (t < length targets)%nat -> (k < ubi - lbi)%nat ->
  cval_scaled (seed_coherency dft (fun c => nth (Z.to_nat c) targets []) (length targets) (nth s seeds [])
                              wv nfft ovl fs sbf psm lbi ubi t k)
              (dense_coh dft (seeds ++ targets) wv nfft ovl fs s (length seeds + t) (lbi + k)).
Proof. exact seed_rows_scaled. Qed.
Print Assumptions C09_seed_rows_eq_dense.

(* ---------------------------------------------------------------- non-vacuity *)
(* a concrete configuration meeting every hypothesis of the theorems above: 3 channels of 7 samples,
   NFFT 4, default overlap (2 windows; 1 window for 3 samples), band bins [1, 3), pairs incl. a repeated, a self and a reversed one *)
Example C09_nonvacuous : nonvac_statement.
Proof. exact nonvac_proof. Qed.
(* and one where the coherency exists in Q[i] (a self pair: the value 1) *)
Example C09_is_coherency_inhabited : is_coherency c1 nonvac_self_entry.
Proof. exact nonvac_self_is_one. Qed.
