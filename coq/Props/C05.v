(* Props/C05.v — property C05: frequency axes are the true bin frequencies in Hz.
   Statements only, each closed by a lemma of Proofs/FreqsP.v.  `leq` is pointwise equality of
   two grids as rationals, which includes equality of their lengths.  The specification is
   `true_bins Fs NFFT sides` = [k * Fs / NFFT | k < nbins], nbins = NFFT/2+1 (one-sided), NFFT
   (two-sided).  All arithmetic is exact (Q); float rounding is outside these statements and is
   covered by the 1e-12 tolerance of the correspondence (Check/C05K.v). *)
From Coq Require Import QArith List Bool Arith ZArith Sorted.
From NT Require Import TimeArray Freqs FreqsP.
Import ListNotations.
Open Scope Q_scope.

(* ---- the specification is what the statement says: one-sided bins lie in [0, Fs/2],
        two-sided bins cover [0, Fs) *)
Theorem C05_true_bins_shape : forall Fs N s x, 0 < Fs -> (0 < N)%nat ->
  length (true_bins Fs N s) = nbins N s /\
  (In x (true_bins Fs N s) ->
   0 <= x /\ match s with OneSided => x <= Fs / 2 | TwoSided => x < Fs end).
Proof. intros; split; [apply true_bins_length|apply true_bins_range; assumption]. Qed.
Print Assumptions C05_true_bins_shape.

(* ---- estimators: every N / NFFT > 0 of both parities, every Fs, both sides *)
Theorem C05_periodogram_freqs_ok : forall Fs N s, (0 < N)%nat ->
  leq (periodogram_freqs Fs N s) (true_bins Fs N s).
Proof. exact periodogram_freqs_ok. Qed.
Print Assumptions C05_periodogram_freqs_ok.

Theorem C05_periodogram_csd_freqs_ok : forall Fs N s, (0 < N)%nat ->
  leq (pcsd_freqs Fs N s) (true_bins Fs N s).
Proof. exact pcsd_freqs_ok. Qed.
Print Assumptions C05_periodogram_csd_freqs_ok.

Theorem C05_multi_taper_freqs_ok : forall Fs N NFFT s, (0 < N)%nat ->
  leq (mt_freqs Fs (mt_nfft N NFFT) s) (true_bins Fs (mt_nfft N NFFT) s).
Proof. intros. apply mt_freqs_ok. pose proof (mt_nfft_ge N NFFT). Lia.lia. Qed.
Print Assumptions C05_multi_taper_freqs_ok.

(* ---- what the fix commits repaired (37cc574, 13642d9, 345aa76, b6b0312), kept as theorems about
        the old expressions *)
Theorem C05_old_pcsd_twosided_wrong : forall Fs N, ~ Fs == 0 -> (2 <= N)%nat ->
  ~ leq (old_pcsd_freqs Fs N TwoSided) (true_bins Fs N TwoSided).
Proof. exact old_pcsd_twosided_wrong. Qed.
Theorem C05_old_onesided_linspace_wrong_iff_odd : forall Fs N, ~ Fs == 0 -> (2 <= N)%nat ->
  (leq (old_pcsd_freqs Fs N OneSided) (true_bins Fs N OneSided) <-> Nat.even N = true) /\
  (leq (old_mt_freqs Fs N OneSided) (true_bins Fs N OneSided) <-> Nat.even N = true).
Proof. intros; split; apply get_freqs_iff_even; assumption. Qed.
Theorem C05_old_get_spectra_rescale_wrong : forall twopi Fs N,
  ~ twopi == 0 -> ~ Fs == 0 -> ~ Fs == twopi -> (2 <= N)%nat ->
  ~ leq (circle_to_hz twopi (true_bins Fs N OneSided) Fs) (true_bins Fs N OneSided).
Proof. exact rescale_hz_wrong. Qed.
Print Assumptions C05_old_get_spectra_rescale_wrong.

(* ---- utils.get_freqs = linspace(0, Fs/2, int(n/2+1)): right exactly for even n *)
Theorem C05_get_freqs_ok_iff_even : forall Fs n, ~ Fs == 0 -> (2 <= n)%nat ->
  (leq (get_freqs Fs n) (true_bins Fs n OneSided) <-> Nat.even n = true).
Proof. exact get_freqs_iff_even. Qed.
Print Assumptions C05_get_freqs_ok_iff_even.

Theorem C05_get_freqs_even_ok : forall Fs n, (0 < n)%nat -> Nat.even n = true ->
  leq (get_freqs Fs n) (true_bins Fs n OneSided).
Proof. exact get_freqs_even_ok. Qed.

(* full statement: forall Fs n > 0, leq (get_freqs Fs n) (true_bins Fs n OneSided).
   The faithful model violates it for EVERY odd n >= 3 (known finding C05/get_freqs/odd-n) *)
Theorem C05_get_freqs_odd_refuted :
  (forall Fs n, ~ Fs == 0 -> (3 <= n)%nat -> Nat.even n = false ->
     ~ leq (get_freqs Fs n) (true_bins Fs n OneSided)) /\
  (exists Fs n, ~ leq (get_freqs Fs n) (true_bins Fs n OneSided)).
Proof.
  split; [exact get_freqs_odd_wrong|].
  exists 2, 9%nat. apply get_freqs_odd_wrong; [discriminate|Lia.lia|reflexivity].
Qed.
Print Assumptions C05_get_freqs_odd_refuted.

(* ---- circle_to_hz maps the circle grid 2 pi k / N to k Fs / N (2 pi: any non-zero constant) *)
Theorem C05_circle_to_hz_spec : forall twopi Fs N s, ~ twopi == 0 -> (0 < N)%nat ->
  leq (circle_to_hz twopi (map (fun k => twopi * qn k / qn N) (seq 0 (nbins N s))) Fs)
      (true_bins Fs N s).
Proof. exact circle_to_hz_spec. Qed.
Print Assumptions C05_circle_to_hz_spec.

(* ---- get_bounds on a sorted grid keeps exactly lb <= f <= ub *)
Theorem C05_get_bounds_spec : forall f lb ub, StronglySorted Qle f ->
  forall i x, nth_error f i = Some x ->
  ((fst (get_bounds f lb ub) <= i < snd (get_bounds f lb ub))%nat <-> in_band lb ub x = true).
Proof. exact get_bounds_spec. Qed.
Print Assumptions C05_get_bounds_spec.

(* ---- band selection (cache_fft, Sparse/SeedCoherenceAnalyzer, filtered_fourier): exactly the
        bins whose true frequency lies in the band — for even NFFT *)
Theorem C05_band_bins_even_ok : forall Fs NFFT lb ub, 0 <= Fs -> (0 < NFFT)%nat -> Nat.even NFFT = true ->
  cache_fft_bins Fs NFFT lb ub = true_band_bins Fs NFFT lb ub /\
  leq (band_freqs Fs NFFT lb ub) (true_band_freqs Fs NFFT lb ub) /\
  ff_keep Fs NFFT lb ub = true_ff_keep Fs NFFT lb ub.
Proof.
  intros; split; [apply band_bins_even|split; [apply band_freqs_even|apply ff_keep_even]]; assumption.
Qed.
Print Assumptions C05_band_bins_even_ok.

(* full statement: the same for every NFFT.  Refuted for odd NFFT (the grid of get_freqs is
   stretched by NFFT/(NFFT-1), so a bin just outside the band is kept): witness Fs = 2, NFFT = 9,
   band [0.23, 0.6]: bin 1 (true 0.222 Hz, reported 0.25 Hz) is kept. *)
Theorem C05_band_odd_refuted : exists Fs NFFT lb ub, 0 < Fs /\ (0 < NFFT)%nat /\
  cache_fft_bins Fs NFFT lb ub <> true_band_bins Fs NFFT lb ub /\
  ~ leq (band_freqs Fs NFFT lb ub) (true_band_freqs Fs NFFT lb ub) /\
  ff_keep Fs NFFT lb ub <> true_ff_keep Fs NFFT lb ub.
Proof.
  exists 2, 9%nat, (23 # 100), (Some (6 # 10)).
  destruct w_band_odd as [A B]. destruct w_ff_keep_odd as [C D].
  split; [reflexivity|split; [Lia.lia|split; [|split]]].
  - rewrite A, B. discriminate.
  - apply leqb_false_not_leq. exact w_band_freqs_odd.
  - rewrite C, D. discriminate.
Qed.
Print Assumptions C05_band_odd_refuted.

(* cache_fft returns the WHOLE grid next to band-limited FFT slices: the frequency vector does not
   describe the cached spectrum (known finding C05/cache_fft/band-limited-returned-grid) *)
Theorem C05_cache_fft_returned_grid_refuted : exists Fs NFFT lb ub,
  Nat.even NFFT = true /\
  length (cache_fft_freqs Fs NFFT) <> length (cache_fft_bins Fs NFFT lb ub) /\
  ~ leq (cache_fft_freqs Fs NFFT) (true_band_freqs Fs NFFT lb ub).
Proof.
  exists 1, 16%nat, (1 # 10), (Some (3 # 10)). destruct w_cache_grid as [A B].
  split; [reflexivity|split].
  - rewrite A, B. discriminate.
  - apply leqb_false_not_leq. exact w_cache_grid_leqb.
Qed.

(* ---- SpectralAnalyzer.spectrum_fourier on complex data: linspace(-Fs/2, Fs/2, n) is not the
        axis of fftshift(fft(x)) — both parities (known finding) *)
Theorem C05_fourier_complex_refuted :
  (forall Fs m, ~ Fs == 0 -> (1 <= m)%nat ->
     ~ leq (fourier_complex_freqs Fs (m + 1)) (true_shifted_bins Fs (m + 1))) /\
  (exists Fs n, Nat.even n = true /\ ~ leq (fourier_complex_freqs Fs n) (true_shifted_bins Fs n)) /\
  (exists Fs n, Nat.even n = false /\ ~ leq (fourier_complex_freqs Fs n) (true_shifted_bins Fs n)).
Proof.
  split; [exact fourier_complex_wrong|].
  split; [exists 10, 4%nat|exists 10, 5%nat]; (split; [reflexivity|]);
    apply leqb_false_not_leq; [exact w_fourier_complex_even|exact w_fourier_complex_odd].
Qed.
Print Assumptions C05_fourier_complex_refuted.

(* ---- GrangerAnalyzer.frequencies = get_freqs(Fs, n_freqs) reaches Fs/2, the causality spectra
        are evaluated on freqz's grid k*pi/(n_freqs//2+1) which stops short of pi: never equal *)
Theorem C05_granger_axis_refuted : forall pi Fs n, ~ pi == 0 -> ~ Fs == 0 -> (2 <= n)%nat ->
  ~ leq (granger_reported Fs n) (granger_true pi Fs n).
Proof. exact granger_axis_wrong. Qed.
Print Assumptions C05_granger_axis_refuted.

(* ---- Fs taken from a series is 10^12 / (interval in ps) Hz whatever the unit *)
Theorem C05_fs_unit_free : forall d1 u1 d2 u2, ~ d1 == 0 -> ~ d2 == 0 ->
  d1 * inject_Z (factor u1) == d2 * inject_Z (factor u2) ->
  fs_of_interval d1 u1 == fs_of_interval d2 u2 /\
  fs_of_interval d1 u1 == inject_Z (factor Us) / (d1 * inject_Z (factor u1)).
Proof. intros; split; [apply fs_unit_free; assumption|apply fs_is_hz; assumption]. Qed.
Theorem C05_fs_of_rate : forall r u, fs_of_rate r u == r.
Proof. exact fs_of_rate_id. Qed.
Print Assumptions C05_fs_unit_free.

(* ---- one method dict object handed to several Coherence / SparseCoherence / SeedCoherence analyzers.
        full statement: every analyzer uses the rate of ITS OWN series,
          forall rates, shared_dict_fs None rates = rates.
        It holds when the dict is not shared or all series have one rate; otherwise every analyzer uses
        the rate of the FIRST one (known finding C05/method-dict/shared-between-analyzers). *)
Theorem C05_shared_method_dict_ok_guarded : forall r rates,
  shared_dict_fs None [r] = [r] /\
  ((forall x, In x rates -> x = r) -> shared_dict_fs None rates = rates).
Proof. intros; split; [reflexivity|apply shared_dict_same_rate]. Qed.
Theorem C05_shared_method_dict_refuted :
  (forall r t, shared_dict_fs None (r :: t) = map (fun _ => r) (r :: t)) /\
  (exists rates, shared_dict_fs None rates <> rates).
Proof.
  split; [exact shared_dict_first|]. exists [10; 2]. rewrite w_shared_dict. discriminate.
Qed.
Print Assumptions C05_shared_method_dict_refuted.

(* ---- the table: every estimator / analyzer site returns the true frequencies of the bins of the
        spectrum it returns, on all inputs outside the refuted classes (site_good) — given the
        library contract of matplotlib.mlab for the Welch sites *)
Theorem C05_site_ok : forall s e,
  site_good s e = true -> 0 < eff_Fs e -> (0 < eN e)%nat -> (0 < eNFFT e)%nat -> lib_contract e ->
  leq (site_freqs s e) (site_true s e).
Proof. exact site_ok. Qed.
Print Assumptions C05_site_ok.

(* ---- non-vacuity *)
Definition ex_env (N NFFT : nat) (sd : sides) : env :=
  mk_env (5 # 2) true N NFFT sd (3 # 10) (Some (9 # 10)) 12 (true_bins (5 # 2) NFFT sd) (355 # 113).

Example C05_ex_site_hyps : forall s,
  0 < eff_Fs (ex_env 12 16 OneSided) /\ lib_contract (ex_env 12 16 OneSided) /\
  (site_good s (ex_env 12 16 OneSided) = true \/
   s = S_cache_fft \/ s = A_Spec_fourier_complex \/ s = A_Granger).
Proof.
  intros s. split; [reflexivity|split; [apply leq_refl|]].
  destruct s; simpl; auto.
Qed.
Example C05_ex_odd_sites_good :
  site_good S_pcsd (ex_env 15 15 TwoSided) = true /\ site_good A_MTCoh (ex_env 15 15 OneSided) = true /\
  length (site_true S_mt_psd (ex_env 15 9 OneSided)) = 8%nat.
Proof. repeat split. Qed.
(* the unshifted two-sided estimators behind an analyzer (complex data or sides='twosided'):
   bins k = 0..NFFT-1 on [0, Fs), also with NFFT > N and odd sizes *)
Example C05_ex_twosided_analyzer_sites :
  site_good A_Coh_pcsd (ex_env 15 21 TwoSided) = true /\ site_good A_Coh_mt (ex_env 15 9 TwoSided) = true /\
  site_good A_Spec_periodogram (ex_env 15 15 TwoSided) = true /\
  length (site_true A_Coh_pcsd (ex_env 15 21 TwoSided)) = 21%nat /\
  length (site_true A_Coh_mt (ex_env 15 9 TwoSided)) = 15%nat /\
  nth_error (site_true A_Coh_pcsd (ex_env 15 21 TwoSided)) 20 = Some (bin_freq (5 # 2) 21 20).
Proof. repeat split. Qed.
Example C05_ex_band_nonempty : true_band_bins (5 # 2) 16 (3 # 10) (Some (9 # 10)) = [2; 3; 4; 5]%nat.
Proof. vm_compute. reflexivity. Qed.
Example C05_ex_sorted : StronglySorted Qle (get_freqs 3 8) /\ nth_error (get_freqs 3 8) 2 = Some (0 + qn 2 * ((3 / 2 - 0) / qn 4)).
Proof.
  split; [|reflexivity]. rewrite get_freqs_eq by Lia.lia.
  apply (sorted_map_seq (gf 3 8)). apply gf_mono; [discriminate|Lia.lia].
Qed.
Example C05_ex_fs_units : 2 * inject_Z (factor Ums) == 2000 * inject_Z (factor Uus) /\
  fs_of_interval 2 Ums == 500.
Proof. split; vm_compute; reflexivity. Qed.
