(* Props/C07.v — property C07: Slepian tapers are orthonormal, optimally concentrated, correctly
   ordered; sign convention; interpolated tapers unit-norm; the tridiagonal solver returns the
   solution of its linear system in both its compiled and pure-Python forms.

   FULL STATEMENT (properties.jsonl): for every admissible N, NW, K the returned tapers are
   mutually orthonormal, taper k is the k-th eigenvector of the band-limiting (sinc kernel)
   operator with the returned concentration as its eigenvalue, concentrations lie in (0,1) and are
   non-increasing in k, even-order tapers have positive mean and odd-order tapers start with a
   positive lobe; they agree with an independent reference, interpolated tapers are unit-norm,
   and the tridiagonal solver underneath returns the solution of its linear system.

   THIS IS A PARTIAL PROOF.  Proved here, for every size, over the models Model/Tridi.v and
   Model/Dpss.v (nitime's own discrete / algebraic logic):
     - the solver: C07_tridisolve_correct (+ uniqueness, + the shifted solve of inverse iteration);
     - ordering of the eigenvalues handed to the inverse iterations; sign convention as coded;
       the concentration formula = v^T S v; low_bias selection; rescaling; set-up symmetry;
     - C07_dpss_partial: IF the inverse iterations deliver unit eigenvectors of the sinc kernel
       THEN what dpss_windows returns are unit eigenvectors, the returned numbers are their
       eigenvalues, and the sign convention (non-strict) holds.
   MISSING (not provable here, validated numerically by the harness and labelled as tests):
     that LAPACK eigvals_banded + tridi_inverse_iteration converge to eigenvectors of the
     tridiagonal matrix, that those are the eigenvectors of the sinc kernel in the same order
     (Slepian's commutation argument), hence orthonormality, concentrations in (0,1) and
     non-increasing, strict positivity in the sign convention, agreement with a reference.
   REFUTED: without the guard "all pivots non-zero" the solver does not solve every nonsingular
   system (C07_tridisolve_unguarded_refuted) — on the implementation this is the known finding
   C07/tridisolve/zero-pivot and, inside the quantifier of C07, C07/dpss_windows/zero-pivot.

   Only statements here; proofs in Proofs/TridiP.v and Proofs/DpssP.v. *)
From Coq Require Import QArith List Arith Bool Lia.
From NT Require Import Sums Tridi Dpss TridiP DpssP.
Import ListNotations.
Open Scope Q_scope.

(* ------------------------------------------------------------------ the solver *)
(* tridisolve(d, e, b) as written (work vectors, three loops), any n = len(b): when all pivots
   are non-zero the output x has length n and T(d,e) x = b, row by row. *)
Theorem C07_tridisolve_correct : forall d e b,
  length d = length b -> (length b - 1 <= length e)%nat ->
  (forall k, (k < length b)%nat -> ~ pivot d e k == 0) ->
  length (tridisolve d e b) = length b /\
  forall k, (k < length b)%nat -> Trow d e (tridisolve d e b) (length b) k == get b k.
Proof. exact tridisolve_correct. Qed.
Print Assumptions C07_tridisolve_correct.

(* ... and it is THE solution: with non-zero pivots T is injective *)
Theorem C07_tridisolve_unique : forall d e z N,
  (forall k, (k < N)%nat -> ~ pivot d e k == 0) ->
  (forall k, (k < N)%nat -> TrowF d e z N k == 0) ->
  forall k, (k < N)%nat -> z k == 0.
Proof. exact tridi_kernel_trivial. Qed.
Print Assumptions C07_tridisolve_unique.

(* the pivots named in the guard are the values the code divides by (its work vector dw) *)
Theorem C07_pivots_are_the_divisors : forall d e N k,
  (0 < N)%nat -> length d = N -> (N - 1 <= length e)%nat -> (k < N)%nat ->
  get (fst (loop1 N d e)) k == pivot d e k.
Proof. exact loop1_pivots. Qed.

(* one pass of tridi_inverse_iteration: the new iterate x' solves (T - w I) x' = x0 *)
Theorem C07_inverse_iteration_solve : forall d e w x0,
  length d = length x0 -> (length x0 - 1 <= length e)%nat ->
  (forall k, (k < length x0)%nat -> ~ pivot (shift d w) e k == 0) ->
  forall k, (k < length x0)%nat ->
    Trow d e (inviter_solve d e w x0) (length x0) k == w * get (inviter_solve d e w x0) k + get x0 k.
Proof. exact inviter_solve_spec. Qed.
Print Assumptions C07_inverse_iteration_solve.

(* REFUTED without the guard: a solvable (nonsingular) system whose leading pivot is zero *)
Lemma refute_sys_solvable :
  forall k, (k < 2)%nat -> Trow [0; 0] [1; 0] [1; 1] 2 k == get [1; 1] k.
Proof. intros [|[|k]] H; [reflexivity|reflexivity|lia]. Qed.
Lemma refute_sys_output : tridisolve [0; 0] [1; 0] [1; 1] = [0; 0].
Proof. vm_compute. reflexivity. Qed.
Theorem C07_tridisolve_unguarded_refuted :
  exists d e b x,
    length d = length b /\ (length b - 1 <= length e)%nat /\
    (forall k, (k < length b)%nat -> Trow d e x (length b) k == get b k) /\
    ~ (forall k, (k < length b)%nat -> Trow d e (tridisolve d e b) (length b) k == get b k).
Proof.
  exists [0; 0], [1; 0], [1; 1], [1; 1]. split; [reflexivity|]. split; [simpl; lia|].
  split; [exact refute_sys_solvable|].
  intros H. specialize (H 0%nat ltac:(simpl; lia)). rewrite refute_sys_output in H.
  vm_compute in H. discriminate H.
Qed.
Print Assumptions C07_tridisolve_unguarded_refuted.

(* ------------------------------------------------------------------ dpss_windows: discrete logic *)
(* w = eigvals_banded(...)[::-1] : ascending (LAPACK's contract) becomes non-increasing *)
Theorem C07_reverse_ascending_descending : forall l, asc l -> desc (rev l).
Proof. exact rev_asc_desc. Qed.
Print Assumptions C07_reverse_ascending_descending.

(* after the sign flips: row k is +- the row it was; even k: sum >= 0; odd k: the partial sum up
   to the first largest peak of the first half (the code's "leading lobe") >= 0; norm kept *)
Theorem C07_fix_sign_spec : forall N rows k v',
  nth_error (fix_signs N rows) k = Some v' ->
  exists v, nth_error rows k = Some v /\
    (v' = v \/ v' = neg v) /\
    (Nat.even k = true -> 0 <= lsum v') /\
    (Nat.even k = false -> 0 <= lobe N v') /\
    sumsq v' == sumsq v /\ length v' = length v.
Proof. exact fix_sign_spec. Qed.
Print Assumptions C07_fix_sign_spec.

(* the peak index p used for odd rows is np.argmax(np.abs(.)): the FIRST index of the largest magnitude *)
Theorem C07_argmax_abs_spec : forall l,
  l <> [] ->
  (argmax_abs l < length l)%nat /\
  (forall i, (i < length l)%nat -> Qabsq (get l i) <= Qabsq (get l (argmax_abs l))) /\
  (forall i, (i < argmax_abs l)%nat -> Qabsq (get l i) < Qabsq (get l (argmax_abs l))).
Proof. exact argmax_abs_spec. Qed.

(* MODEL-LEVEL OBSERVATION about the sign code (a latent gap, NOT a finding on the implementation):
   the code cannot flip an odd-order row whose largest first-half magnitude sits at index 0 —
   p = 0, the tested sum is over an empty slice — so a row whose whole first half is negative is
   returned unchanged; i.e. the sign code alone does not establish the strict convention.  This
   state is not reachable through dpss_windows' public interface in any run we found (N = 8..4096):
   with the code's own start vector every taper already comes out of the inverse iteration with
   the right sign.  The harness reaches it only by handing a negated inverse-iteration result back,
   which is used for the model/code tie (K) of the flip logic and is never judged by the oracle. *)
Lemma refute_fix_odd : fix_odd 4 [-3; -1; 1; 3] = [-3; -1; 1; 3].
Proof. vm_compute. reflexivity. Qed.
Theorem C07_fix_odd_peak_at_edge_refuted :
  exists N v, length v = N /\ (forall i, (i < N / 2)%nat -> get v i < 0) /\ fix_odd N v = v.
Proof.
  exists 4%nat, [-3; -1; 1; 3]. split; [reflexivity|]. split; [|exact refute_fix_odd].
  intros [|[|i]] H; [reflexivity|reflexivity|simpl in H; lia].
Qed.
Print Assumptions C07_fix_odd_peak_at_edge_refuted.

Theorem C07_flip_keeps_eigen_relation : forall (S : nat -> nat -> Q) v lam N,
  (forall i, (i < N)%nat -> matvec S (get v) N i == lam * get v i) ->
  forall i, (i < N)%nat -> matvec S (get (neg v)) N i == lam * get (neg v) i.
Proof. exact neg_eigen. Qed.
Theorem C07_flip_keeps_orthogonality : forall u v, dot (neg u) v == - dot u v.
Proof. exact dot_neg_l. Qed.

(* eigvals = (autocorr(dpss) * N) . r  with r = 4W sinc(2W n), r[0] = 2W  is  v^T S v  for the
   sinc kernel S[i,j] = 2W sinc(2W(i-j)) — for ANY v, any N (sinc values: library, sinc 0 = 1) *)
Theorem C07_concentration_is_quadratic_form : forall W sinc v N,
  sinc 0%nat == 1 ->
  conc W sinc v N == quadform (sinc_kernel W sinc) v N.
Proof. exact concentration_is_quadratic_form. Qed.
Print Assumptions C07_concentration_is_quadratic_form.

(* ... so IF v is a unit eigenvector of S the returned number is its eigenvalue *)
Theorem C07_concentration_of_unit_eigenvector : forall W sinc v lam N,
  sinc 0%nat == 1 ->
  (forall i, (i < N)%nat -> matvec (sinc_kernel W sinc) v N i == lam * v i) ->
  sumn (fun i => v i * v i) N == 1 ->
  conc W sinc v N == lam.
Proof. exact conc_of_unit_eigenvector. Qed.
Print Assumptions C07_concentration_of_unit_eigenvector.

(* low_bias: exactly the (taper, eigenvalue) pairs with eigenvalue > 0.9 (the float64 0.9), order kept *)
Theorem C07_low_bias_filter : forall (dpss : list (list Q)) ev,
  combine (fst (low_bias dpss ev)) (snd (low_bias dpss ev))
  = filter (fun pr => gtb thr09 (snd pr)) (combine dpss ev).
Proof. exact (@low_bias_filter (list Q)). Qed.
Theorem C07_low_bias_exact : forall (dpss : list (list Q)) ev v lam,
  In (v, lam) (combine (fst (low_bias dpss ev)) (snd (low_bias dpss ev)))
  <-> In (v, lam) (combine dpss ev) /\ thr09 < lam.
Proof. exact (@low_bias_exact (list Q)). Qed.
(* with non-increasing eigenvalues what is kept is a prefix: the first K' tapers *)
Theorem C07_low_bias_prefix : forall (ev : list Q) (l : list (list Q)),
  desc ev -> select (mask09 ev) l = firstn (length (select (mask09 ev) l)) l.
Proof. exact (@low_bias_prefix (list Q)). Qed.
Print Assumptions C07_low_bias_prefix.

(* interpolated tapers: d_temp / sqrt(sum d_temp^2) has unit norm (nrm: the value of the sqrt) *)
Theorem C07_rescale_unit_norm : forall v nrm,
  nrm * nrm == sumsq v -> ~ nrm == 0 -> sumsq (rescale v nrm) == 1.
Proof. exact rescale_unit_norm. Qed.
Theorem C07_rescale_sumsq : forall v nrm,
  ~ nrm == 0 -> sumsq (rescale v nrm) * (nrm * nrm) == sumsq v.
Proof. exact rescale_sumsq. Qed.
Print Assumptions C07_rescale_unit_norm.

(* the tridiagonal matrix set up by the code is centro-symmetric (why eigenvectors are even / odd) *)
Theorem C07_setup_centrosymmetric : forall N c k,
  (k < N)%nat ->
  diag_entry N c k == diag_entry N c (N - 1 - k) /\
  ((S k < N)%nat -> offdiag_entry N k == offdiag_entry N (N - 2 - k)).
Proof. exact setup_centrosymmetric. Qed.

(* PARTIAL: the pipeline after the inverse iterations.  Assumed (NOT proved: numerical
   convergence): row k delivered by the inverse iteration is a unit eigenvector of the sinc kernel
   for lam.  Conclusion: so is the returned row, the returned concentration is lam, and the sign
   convention holds in its non-strict form. *)
Theorem C07_dpss_partial : forall N W sinc rows k v' lam,
  sinc 0%nat == 1 ->
  nth_error (fix_signs N rows) k = Some v' ->
  (forall v, nth_error rows k = Some v ->
     (forall i, (i < N)%nat -> matvec (sinc_kernel W sinc) (get v) N i == lam * get v i) /\
     sumn (fun i => get v i * get v i) N == 1) ->
  (forall i, (i < N)%nat -> matvec (sinc_kernel W sinc) (get v') N i == lam * get v' i) /\
  sumn (fun i => get v' i * get v' i) N == 1 /\
  conc W sinc (get v') N == lam /\
  (Nat.even k = true -> 0 <= lsum v') /\ (Nat.even k = false -> 0 <= lobe N v').
Proof. exact dpss_pipeline_partial. Qed.
Print Assumptions C07_dpss_partial.

(* ------------------------------------------------------------------ non-vacuity *)
(* a 4x4 indefinite system: lengths and non-zero pivots hold, the solver's output is written out *)
Definition ex_d : list Q := [2; -3; 1; 4].
Definition ex_e : list Q := [1; 2; -1; 7].          (* last entry unused *)
Definition ex_b : list Q := [1; 2; 3; 4].
Lemma ex_piv0 : ~ pivot ex_d ex_e 0 == 0. Proof. vm_compute. discriminate. Qed.
Lemma ex_piv1 : ~ pivot ex_d ex_e 1 == 0. Proof. vm_compute. discriminate. Qed.
Lemma ex_piv2 : ~ pivot ex_d ex_e 2 == 0. Proof. vm_compute. discriminate. Qed.
Lemma ex_piv3 : ~ pivot ex_d ex_e 3 == 0. Proof. vm_compute. discriminate. Qed.
Example C07_ex_tridisolve_hypotheses :
  length ex_d = length ex_b /\ (length ex_b - 1 <= length ex_e)%nat /\
  (forall k, (k < length ex_b)%nat -> ~ pivot ex_d ex_e k == 0).
Proof.
  split; [reflexivity|]. split; [simpl; lia|].
  intros [|[|[|[|k]]]] H; [exact ex_piv0|exact ex_piv1|exact ex_piv2|exact ex_piv3|simpl in H; lia].
Qed.
Example C07_ex_tridisolve_output : tridisolve ex_d ex_e ex_b = [-1 # 53; 55 # 53; 136 # 53; 87 # 53].
Proof. vm_compute. reflexivity. Qed.

(* sign flips: an even row with negative sum and an odd row with a negative leading lobe are flipped,
   rows already conforming are kept *)
Example C07_ex_fix_signs :
  fix_signs 6 [[-1; -2; -3; -2; -1; -1]; [-1; -3; -1; 1; 3; 1]; [1; 2; 3; 2; 1; 1]; [1; 3; 1; -1; -3; -1]]
  = [[1; 2; 3; 2; 1; 1]; [1; 3; 1; -1; -3; -1]; [1; 2; 3; 2; 1; 1]; [1; 3; 1; -1; -3; -1]].
Proof. vm_compute. reflexivity. Qed.

(* ascending list with a repeated value *)
Example C07_ex_asc : asc [1 # 2; 3 # 4; 3 # 4; 2].
Proof.
  intros i j H. simpl in H.
  destruct i as [|[|[|[|i]]]]; destruct j as [|[|[|[|j]]]]; try lia; vm_compute; discriminate.
Qed.

(* a unit eigenvector over Q: W = 1/2 makes sinc(2 W n) = sinc(n) = 0 for n >= 1, S = identity *)
Definition ex_sinc (n : nat) : Q := match n with O => 1 | _ => 0 end.
Definition ex_v (i : nat) : Q := match i with O => 3 # 5 | S O => 4 # 5 | _ => 0 end.
Example C07_ex_unit_eigenvector :
  ex_sinc 0%nat == 1 /\
  (forall i, (i < 2)%nat -> matvec (sinc_kernel (1 # 2) ex_sinc) ex_v 2 i == 1 * ex_v i) /\
  sumn (fun i => ex_v i * ex_v i) 2 == 1.
Proof.
  split; [reflexivity|]. split; [|reflexivity].
  intros [|[|i]] H; [reflexivity|reflexivity|lia].
Qed.
(* and a non-trivial instance of the quadratic-form identity (W = 1/4: sinc(n/2) values 1, 2/pi~, 0, ... replaced by rationals) *)
Example C07_ex_conc_value :
  conc (1 # 4) (fun n => match n with O => 1 | S O => 2 # 3 | _ => 0 end)
       (fun i => match i with O => 1 | S O => 2 | S (S O) => -1 | _ => 0 end) 3
  == quadform (sinc_kernel (1 # 4) (fun n => match n with O => 1 | S O => 2 # 3 | _ => 0 end))
       (fun i => match i with O => 1 | S O => 2 | S (S O) => -1 | _ => 0 end) 3.
Proof. vm_compute. reflexivity. Qed.

(* low_bias on non-increasing eigenvalues incl. the float 0.9 itself (rejected: strict >) *)
Example C07_ex_low_bias :
  desc [1; 19 # 20; thr09; 1 # 2] /\
  low_bias [[1]; [2]; [3]; [4]] [1; 19 # 20; thr09; 1 # 2] = ([[1]; [2]], [1; 19 # 20]).
Proof.
  split; [|vm_compute; reflexivity].
  intros i j H. simpl in H.
  destruct i as [|[|[|[|i]]]]; destruct j as [|[|[|[|j]]]]; try lia; vm_compute; discriminate.
Qed.

Example C07_ex_rescale : 5 * 5 == sumsq [3; 4] /\ ~ 5 == 0 /\ rescale [3; 4] 5 = [3 / 5; 4 / 5].
Proof. split; [reflexivity|]. split; [discriminate|reflexivity]. Qed.

(* the hypotheses of C07_dpss_partial are met by a row that needs the flip (S = identity, lam = 1) *)
Definition ex_rows : list (list Q) := [[-3 # 5; -4 # 5]].
Example C07_ex_dpss_partial_hypotheses :
  ex_sinc 0%nat == 1 /\
  nth_error (fix_signs 2 ex_rows) 0 = Some [3 # 5; 4 # 5] /\
  (forall v, nth_error ex_rows 0 = Some v ->
     (forall i, (i < 2)%nat -> matvec (sinc_kernel (1 # 2) ex_sinc) (get v) 2 i == 1 * get v i) /\
     sumn (fun i => get v i * get v i) 2 == 1).
Proof.
  split; [reflexivity|]. split; [vm_compute; reflexivity|].
  intros v Hv. injection Hv as <-. split; [|reflexivity].
  intros [|[|i]] H; [reflexivity|reflexivity|lia].
Qed.

(* the shifted system of one inverse-iteration pass: pivots of (ex_d - 1/2, ex_e) are non-zero *)
Lemma ex_spiv0 : ~ pivot (shift ex_d (1 # 2)) ex_e 0 == 0. Proof. vm_compute. discriminate. Qed.
Lemma ex_spiv1 : ~ pivot (shift ex_d (1 # 2)) ex_e 1 == 0. Proof. vm_compute. discriminate. Qed.
Lemma ex_spiv2 : ~ pivot (shift ex_d (1 # 2)) ex_e 2 == 0. Proof. vm_compute. discriminate. Qed.
Lemma ex_spiv3 : ~ pivot (shift ex_d (1 # 2)) ex_e 3 == 0. Proof. vm_compute. discriminate. Qed.
Example C07_ex_inverse_iteration_hypotheses :
  length ex_d = length ex_b /\ (length ex_b - 1 <= length ex_e)%nat /\
  (forall k, (k < length ex_b)%nat -> ~ pivot (shift ex_d (1 # 2)) ex_e k == 0).
Proof.
  split; [reflexivity|]. split; [simpl; lia|].
  intros [|[|[|[|k]]]] H; [exact ex_spiv0|exact ex_spiv1|exact ex_spiv2|exact ex_spiv3|simpl in H; lia].
Qed.
