(* Props/C03.v — property C03: indexing by time agrees with indexing by sample position.
   Only statements, each closed by `exact <lemma>` from Proofs/IndexP.v, followed by
   Print Assumptions; non-vacuity Examples at the end.  Times are picosecond integers; the
   guards `in62` (|ps| < 2^62, about 53 days) exclude int64 wrap-around, `axis_guard` says the
   interval is positive and the axis fits.  A time argument `d` (number in the unit of the object,
   or a time object in ANY unit) is read by C01's constructor: a hypothesis
   `ctor (UArg u) d = Ok (mk_tarr [t] _ _)` / `as_query u d = Ok (mk_tarr [t] _ _)` says "d denotes
   the instant t". *)
From Coq Require Import ZArith List Bool Sorted PrimFloat.
From NT Require Import F2Z TimeArray TimeArrayP Index IndexP.
Import ListNotations.
Open Scope Z_scope.

(* ------------------------------------------------------------------ uniform axes *)
(* on the well-formed axis t0 + i*dt (i < n): t is looked up as i  iff  t_i <= t < t_i + dt and i < n *)
Theorem C03_uindex_spec : forall t0 dt n u t i, axis_guard t0 dt n -> in62 t = true ->
  (uindex1 (uaxis_of t0 dt n u) t = XOk i <->
   0 <= i < Z.of_nat n /\ t0 + i * dt <= t < t0 + (i + 1) * dt).
Proof. exact uindex_spec. Qed.
Print Assumptions C03_uindex_spec.

(* instants outside [t0, t0 + n*dt) are refused (ValueError) *)
Theorem C03_uindex_outside_refused : forall t0 dt n u t, axis_guard t0 dt n ->
  t < t0 \/ t0 + Z.of_nat n * dt <= t -> uindex1 (uaxis_of t0 dt n u) t = XErr XValue.
Proof. exact uindex_outside. Qed.

(* the time of sample k is looked up as k *)
Theorem C03_uindex_sample : forall t0 dt n u k x, axis_guard t0 dt n ->
  nth_error (u_samples (uaxis_of t0 dt n u)) k = Some x -> uindex1 (uaxis_of t0 dt n u) x = XOk (Z.of_nat k).
Proof. exact uindex_nth. Qed.
Print Assumptions C03_uindex_sample.

(* UniformTime.index_at(d) for a scalar argument d denoting the instant t is that lookup;
   for a time object the unit it is expressed in is irrelevant *)
Theorem C03_uindex_at_scalar : forall ax d t u',
  ctor (UArg (u_unit ax)) d = Ok (mk_tarr [t] u' true) ->
  uindex_at ax d false = match uindex1 ax t with XOk i => XOk (UScalar i) | XErr e => XErr e end.
Proof. exact uindex_at_scalar. Qed.
Theorem C03_uindex_at_unit_irrelevant : forall ax p eu eu' sc b,
  uindex_at ax (DTime (mk_tarr p eu sc)) b = uindex_at ax (DTime (mk_tarr p eu' sc)) b.
Proof. exact uindex_at_unit_irrelevant. Qed.
(* a list of instants: all inside -> their bins, one outside -> refused *)
Theorem C03_uindex_at_list : forall ax d x l u',
  ctor (UArg (u_unit ax)) d = Ok (mk_tarr (x :: l) u' false) ->
  uindex_at ax d false =
  if forallb (fun t => in_range ax t t) (x :: l) then XOk (UList (map (ubin ax) (x :: l))) else XErr XValue.
Proof. exact uindex_at_list. Qed.

(* slice_during / during, epoch [s, p) with both ends inside the covered range: exactly the
   samples with s <= t_k < p (epochs between samples, empty, reversed included) *)
Theorem C03_uslice_spec : forall t0 dt n u s p off eu,
  axis_guard t0 dt n -> in62 s = true -> in62 p = true ->
  t0 <= s < t0 + Z.of_nat n * dt -> t0 <= p < t0 + Z.of_nat n * dt ->
  let ax := uaxis_of t0 dt n u in
  exists a b, uslice_during ax (mk_epochs [s] [p] true off eu) = XOk (a, b) /\
    0 <= a <= Z.of_nat n /\ 0 <= b <= Z.of_nat n /\
    (forall k, (k < n)%nat -> (a <= Z.of_nat k < b <-> s <= t0 + Z.of_nat k * dt < p)) /\
    pyslice a b (u_samples ax) = filter (in_epoch s p) (u_samples ax).
Proof. exact uslice_spec. Qed.
Print Assumptions C03_uslice_spec.
Theorem C03_uduring_spec : forall t0 dt n u s p off eu,
  axis_guard t0 dt n -> in62 s = true -> in62 p = true ->
  t0 <= s < t0 + Z.of_nat n * dt -> t0 <= p < t0 + Z.of_nat n * dt ->
  let ax := uaxis_of t0 dt n u in
  uduring ax (mk_epochs [s] [p] true off eu) = XOk (filter (in_epoch s p) (u_samples ax)).
Proof. exact uduring_spec. Qed.
(* an epoch with an end outside the covered range is refused (as coded: also stop = t0 + n*dt) *)
Theorem C03_uslice_outside_refused : forall t0 dt n u s p off eu, axis_guard t0 dt n ->
  (s < t0 \/ t0 + Z.of_nat n * dt <= s \/ p < t0 \/ t0 + Z.of_nat n * dt <= p) ->
  uslice_during (uaxis_of t0 dt n u) (mk_epochs [s] [p] true off eu) = XErr XValue.
Proof. exact uslice_outside. Qed.
Theorem C03_uat_scalar : forall t0 dt n u d t u' k,
  axis_guard t0 dt n -> in62 t = true -> ctor (UArg u) d = Ok (mk_tarr [t] u' true) ->
  (k < n)%nat -> t0 + Z.of_nat k * dt <= t < t0 + (Z.of_nat k + 1) * dt ->
  uat (uaxis_of t0 dt n u) d = XOk (mk_tarr [t0 + Z.of_nat k * dt] u true).
Proof. exact uat_scalar. Qed.
(* the boolean well-formedness test evaluated in the correspondence implies the hypothesis above *)
Theorem C03_wf_axisb_sound : forall ax, wf_axisb ax = true ->
  0 < u_dt ax /\ ax = uaxis_of (u_t0 ax) (u_dt ax) (length (u_samples ax)) (u_unit ax).
Proof. exact wf_axisb_sound. Qed.

(* ------------------------------------------------------------------ arbitrary time arrays *)
(* closest: exactly the positions with |t_k - t| <= tol, ascending (tol = None: one picosecond) *)
Theorem C03_closest_spec : forall self d tol t u' sc' tau u2 sc2,
  as_query (tunit self) d = Ok (mk_tarr [t] u' sc') ->
  let l := payload self in
  Forall (fun x => in62 x = true) l -> in62 t = true ->
  ctor (UArg (tunit self)) (match tol with None => DTime clock_tick | Some x => x end) = Ok (mk_tarr [tau] u2 sc2) ->
  exists r, index_at self d tol Closest = XOk (IList r) /\ StronglySorted lt r /\
    forall k, In k r <-> exists x, nth_error l k = Some x /\ Z.abs (x - t) <= tau.
Proof. exact index_at_closest_spec. Qed.
Print Assumptions C03_closest_spec.
Theorem C03_default_tolerance : forall u, ctor (UArg u) (DTime clock_tick) = Ok (mk_tarr [1] u true).
Proof. exact clock_tick_tol. Qed.

(* before: no sample <= t -> empty; else the FIRST position of the largest sample <= t *)
Theorem C03_before_spec : forall self d tol t u' sc',
  as_query (tunit self) d = Ok (mk_tarr [t] u' sc') ->
  let l := payload self in
  ((forall x, In x l -> t < x) /\ index_at self d tol Before = XOk (IList []))
  \/ exists k v, index_at self d tol Before = XOk (IScalar k) /\ nth_error l k = Some v /\ v <= t /\
       forall j y, nth_error l j = Some y -> y <= t -> y <= v /\ ((j < k)%nat -> y < v).
Proof. exact index_at_before_spec. Qed.
Print Assumptions C03_before_spec.
(* after: no sample >= t -> empty; else the FIRST position of the smallest sample >= t *)
Theorem C03_after_spec : forall self d tol t u' sc',
  as_query (tunit self) d = Ok (mk_tarr [t] u' sc') ->
  let l := payload self in
  ((forall x, In x l -> x < t) /\ index_at self d tol After = XOk (IList []))
  \/ exists k v, index_at self d tol After = XOk (IScalar k) /\ nth_error l k = Some v /\ t <= v /\
       forall j y, nth_error l j = Some y -> t <= y -> v <= y /\ ((j < k)%nat -> v < y).
Proof. exact index_at_after_spec. Qed.
Theorem C03_bad_mode_refused : forall self d tol t,
  as_query (tunit self) d = Ok t -> index_at self d tol BadMode = XErr XValue.
Proof. exact index_at_bad_mode. Qed.
(* the instant denoted by a time object does not depend on its unit *)
Theorem C03_query_unit_irrelevant : forall u p eu eu' sc,
  as_query u (DTime (mk_tarr p eu sc)) = as_query u (DTime (mk_tarr p eu' sc)).
Proof. exact as_query_unit_irrelevant. Qed.

(* slice_during / during on a time-sorted array, DUPLICATES ALLOWED (code after fix 26ee0a6):
   exactly the samples with s <= t < p, for any epoch (between samples, partly or wholly outside,
   empty, reversed) *)
Theorem C03_tslice_spec : forall self s p off eu, StronglySorted Z.le (payload self) ->
  exists lo hi, tslice_during self (mk_epochs [s] [p] true off eu) = XOk (lo, hi) /\
    slice_nat lo hi (payload self) = filter (in_epoch s p) (payload self).
Proof. exact tslice_spec_sorted. Qed.
Print Assumptions C03_tslice_spec.
Theorem C03_tduring_spec : forall self s p off eu, StronglySorted Z.le (payload self) ->
  tarr_during self (mk_epochs [s] [p] true off eu) =
  XOk (mk_tarr (filter (in_epoch s p) (payload self)) (tunit self) false).
Proof. exact tarr_during_spec_sorted. Qed.
Theorem C03_in_epoch_spec : forall s p x, in_epoch s p x = true <-> s <= x < p.
Proof. exact in_epoch_spec. Qed.

(* the rule before the fix (`i_stop += 1` after the first arg-max) is refuted on sorted arrays with
   duplicates: [1,3,3,5] ms, epoch [1,4) ms gives the slice [0:2] = [1,3], required [1,3,3].
   The fixed code returns [0:3] (C03_tslice_dup_fixed). *)
Theorem C03_tslice_old_dup_refuted :
  exists self s p off eu lo hi, StronglySorted Z.le (payload self) /\
    tslice_during_old self (mk_epochs [s] [p] true off eu) = XOk (lo, hi) /\
    slice_nat lo hi (payload self) <> filter (in_epoch s p) (payload self).
Proof. exact tslice_old_dup_refuted. Qed.
Theorem C03_tslice_dup_fixed : tslice_during dup_self dup_epoch = XOk (0%nat, 3%nat).
Proof. exact dup_new. Qed.

(* integer selection self[k] (Python int or any numpy integer scalar, code after fix f2c2916): the time
   stored at Python position k, as a 0-d time object in the unit of self; outside -> IndexError *)
Theorem C03_tarr_getint : forall self k,
  let n := Z.of_nat (length (payload self)) in
  (0 <= k < n -> exists x, nth_error (payload self) (Z.to_nat k) = Some x /\ tarr_getint self k = XOk (mk_tarr [x] (tunit self) true)) /\
  (- n <= k < 0 -> exists x, nth_error (payload self) (Z.to_nat (k + n)) = Some x /\ tarr_getint self k = XOk (mk_tarr [x] (tunit self) true)) /\
  (k < - n \/ n <= k -> tarr_getint self k = XErr XIndex).
Proof. exact tarr_getint_spec. Qed.
Theorem C03_uaxis_getint_sample : forall t0 dt n u k, (k < n)%nat ->
  uaxis_getint (uaxis_of t0 dt n u) (Z.of_nat k) = XOk (mk_tarr [t0 + Z.of_nat k * dt] u true).
Proof. exact uaxis_getint_sample. Qed.

(* at(): the samples at the positions index_at returns *)
Theorem C03_tat_gather : forall self d tol r, index_at self d tol Closest = XOk (IList r) ->
  tarr_at self d tol = (do v <- gather (payload self) r; XOk (mk_tarr v (tunit self) false)).
Proof. exact tarr_at_gather. Qed.

(* ------------------------------------------------------------------ time series (any data type A = any
   leading dimensions / dtype: a column is data[..., k]) *)
Theorem C03_series_time_wf : forall A (s : series A),
  axis_guard (s_t0 s) (s_dt s) (length (s_data s)) ->
  series_time s = uaxis_of (s_t0 s) (s_dt s) (length (s_data s)) (s_unit s).
Proof. exact @series_time_wf. Qed.

Theorem C03_series_at_data : forall A (s : series A) d t u' k,
  axis_guard (s_t0 s) (s_dt s) (length (s_data s)) -> in62 t = true ->
  ctor (UArg (s_unit s)) d = Ok (mk_tarr [t] u' true) ->
  (k < length (s_data s))%nat -> s_t0 s + Z.of_nat k * s_dt s <= t < s_t0 s + (Z.of_nat k + 1) * s_dt s ->
  exists a, nth_error (s_data s) k = Some a /\ series_at s d = XOk (SOne a).
Proof. exact @series_at_scalar. Qed.
Print Assumptions C03_series_at_data.
Theorem C03_series_at_outside_refused : forall A (s : series A) d t u',
  axis_guard (s_t0 s) (s_dt s) (length (s_data s)) ->
  ctor (UArg (s_unit s)) d = Ok (mk_tarr [t] u' true) ->
  t < s_t0 s \/ s_t0 s + Z.of_nat (length (s_data s)) * s_dt s <= t ->
  series_at s d = XErr XValue.
Proof. exact @series_at_outside. Qed.

(* integer selection: Python's index rule on the positions *)
Theorem C03_series_getint : forall A (s : series A) k,
  let n := Z.of_nat (length (s_data s)) in
  (0 <= k < n -> series_getint s k = getn (s_data s) (Z.to_nat k)) /\
  (- n <= k < 0 -> series_getint s k = getn (s_data s) (Z.to_nat (k + n))) /\
  (k < - n \/ n <= k -> series_getint s k = XErr XIndex).
Proof. exact @series_getint_spec. Qed.

(* during(scalar epoch [s0, p) inside the series): the data returned are exactly the data at the
   positions whose time satisfies s0 <= t_k < p, in order; t0 of the result = the epoch's offset
   (as coded), its sampling interval = the series' (exact since fix 237b5b4), in the series' unit *)
Theorem C03_series_during_data : forall A (s : series A) s0 p off eu,
  axis_guard (s_t0 s) (s_dt s) (length (s_data s)) -> in62 s0 = true -> in62 p = true ->
  let lo := s_t0 s in let hi := s_t0 s + Z.of_nat (length (s_data s)) * s_dt s in
  lo <= s0 < hi -> lo <= p < hi ->
  series_during s (mk_epochs [s0] [p] true off eu) =
  XOk (mk_dout (DOne (map snd (filter (fun tx => in_epoch s0 p (fst tx))
                                      (combine (u_samples (series_time s)) (s_data s)))))
               (head_ps off) (s_dt s) (s_unit s)).
Proof. exact @series_during_scalar. Qed.
Print Assumptions C03_series_during_data.
Theorem C03_series_during_outside_refused : forall A (s : series A) s0 p off eu,
  axis_guard (s_t0 s) (s_dt s) (length (s_data s)) ->
  let lo := s_t0 s in let hi := s_t0 s + Z.of_nat (length (s_data s)) * s_dt s in
  (s0 < lo \/ hi <= s0 \/ p < lo \/ hi <= p) ->
  series_during s (mk_epochs [s0] [p] true off eu) = XErr XValue.
Proof. exact @series_during_scalar_outside. Qed.

(* during(epoch array): whenever a result is returned it has one row per epoch, all rows of one
   length, row j = the data at the positions whose time lies in epoch j; t0 = the offset *)
Theorem C03_series_during_rows_data : forall A (s : series A) e r,
  axis_guard (s_t0 s) (s_dt s) (length (s_data s)) ->
  Forall (fun x => in62 x = true) (e_start e) -> Forall (fun x => in62 x = true) (e_stop e) ->
  e_scalar e = false -> series_during s e = XOk r ->
  d_t0 r = head_ps (e_offset e) /\ d_dt r = s_dt s /\ d_unit r = s_unit s /\
  exists rows, d_sel r = DRows rows /\ all_same_len rows = true /\
    Forall2 (fun ep row => exists s0 p, e_start ep = [s0] /\ e_stop ep = [p] /\
               row = map snd (filter (fun tx => in_epoch s0 p (fst tx)) (combine (u_samples (series_time s)) (s_data s))))
            (epoch_list e) rows.
Proof. exact @series_during_rows_data. Qed.
Print Assumptions C03_series_during_rows_data.

(* ------------------------------------------------------------------ events (A = the per-event record: all keys,
   any trailing dimensions) *)
(* integer key (code after fix 3add054): the time and the record stored at that position *)
Theorem C03_events_int : forall A (ev : events A) k r,
  length (ev_data ev) = length (payload (ev_time ev)) ->
  events_get ev (KInt k) = XOk r ->
  exists i x d, py_index (length (payload (ev_time ev))) k = Some i /\
    nth_error (payload (ev_time ev)) i = Some x /\ nth_error (ev_data ev) i = Some d /\
    ev_time r = mk_tarr [x] (tunit (ev_time ev)) false /\ ev_data r = [d].
Proof. exact @events_get_int. Qed.
Theorem C03_events_int_total : forall A (ev : events A) k i x d,
  length (ev_data ev) = length (payload (ev_time ev)) ->
  py_index (length (payload (ev_time ev))) k = Some i ->
  nth_error (payload (ev_time ev)) i = Some x -> nth_error (ev_data ev) i = Some d ->
  events_get ev (KInt k) = XOk (mk_events (mk_tarr [x] (tunit (ev_time ev)) false) [d]).
Proof. exact @events_get_int_ok. Qed.
(* float key: times and records at the same positions, those index_at returns *)
Theorem C03_events_float : forall A (ev : events A) x r,
  events_get ev (KFloat x) = XOk r ->
  exists l, index_at (ev_time ev) (DFloats true [x]) None Closest = XOk (IList l) /\
    gather (payload (ev_time ev)) l = XOk (payload (ev_time r)) /\
    gather (ev_data ev) l = XOk (ev_data r) /\ tunit (ev_time r) = tunit (ev_time ev).
Proof. exact @events_get_float. Qed.
(* epoch key: the same slice of times and records ... *)
Theorem C03_events_epochs : forall A (ev : events A) e r,
  events_get ev (KEpochs e) = XOk r ->
  exists lo hi, tslice_during (ev_time ev) e = XOk (lo, hi) /\
    payload (ev_time r) = slice_nat lo hi (payload (ev_time ev)) /\
    ev_data r = slice_nat lo hi (ev_data ev) /\ tunit (ev_time r) = tunit (ev_time ev).
Proof. exact @events_get_epochs. Qed.
(* ... which for time-sorted events (duplicates allowed) is exactly the events in [s, p) *)
Theorem C03_events_select_data : forall A (ev : events A) s p off eu,
  StronglySorted Z.le (payload (ev_time ev)) -> length (ev_data ev) = length (payload (ev_time ev)) ->
  events_get ev (KEpochs (mk_epochs [s] [p] true off eu)) =
  XOk (mk_events (mk_tarr (filter (in_epoch s p) (payload (ev_time ev))) (tunit (ev_time ev)) false)
                 (map snd (filter (fun tx => in_epoch s p (fst tx)) (combine (payload (ev_time ev)) (ev_data ev))))).
Proof. exact @events_select_data. Qed.
Print Assumptions C03_events_select_data.

(* ------------------------------------------------------------------ Epochs construction *)
(* Epochs(t0 = times, offset = o, duration = d): start = t0 - o, stop = start + d, offset kept *)
Theorem C03_epochs_t0_offset_duration : forall ua xs u0 o u1 d u2,
  ua <> UArgBad ->
  Forall (fun x => in62 x = true) xs -> in62 o = true -> in62 d = true ->
  Forall (fun x => in62 (x - o) = true) xs ->
  epochs_ctor (mk_eargs (Some (DTime (mk_tarr xs u0 false))) None (Some (DTime (mk_tarr [o] u1 true)))
                        None (Some (DTime (mk_tarr [d] u2 true))) ua) =
  XOk (mk_epochs (map (fun x => x - o) xs) (map (fun x => x - o + d) xs) false
                 (mk_tarr [o] (ua_unit ua u1) true) (ua_unit ua u0)).
Proof. exact epochs_t0_offset_duration. Qed.
Print Assumptions C03_epochs_t0_offset_duration.
Theorem C03_epochs_start_stop : forall ua ss u0 ps u1 sc,
  ua <> UArgBad -> length ss = length ps ->
  epochs_ctor (mk_eargs None (Some (DTime (mk_tarr ps u1 sc))) None (Some (DTime (mk_tarr ss u0 sc))) None ua) =
  XOk (mk_epochs ss ps sc (mk_tarr [0] (ua_unit ua Us) true) (ua_unit ua u0)).
Proof. exact epochs_start_stop. Qed.

(* Epochs(...)[key] (integer, slice, list, boolean mask): the selection keeps the offset and the unit;
   an integer gives the scalar epoch of that Python position; a 0-d epoch cannot be indexed;
   during() with an indexed epoch still starts its time axis at the original offset *)
Theorem C03_epochs_getitem_keeps_offset : forall e k e', epochs_getitem e k = XOk e' ->
  e_offset e' = e_offset e /\ e_unit e' = e_unit e.
Proof. exact epochs_getitem_keeps. Qed.
Print Assumptions C03_epochs_getitem_keeps_offset.
Theorem C03_epochs_getitem_int : forall e z e', length (e_stop e) = length (e_start e) ->
  epochs_getitem e (EInt z) = XOk e' ->
  exists i s p, py_index (length (e_start e)) z = Some i /\ nth_error (e_start e) i = Some s /\
    nth_error (e_stop e) i = Some p /\ e' = mk_epochs [s] [p] true (e_offset e) (e_unit e).
Proof. exact epochs_getitem_int. Qed.
Theorem C03_epochs_getitem_scalar_refused : forall e k, e_scalar e = true -> epochs_getitem e k = XErr XIndex.
Proof. exact epochs_getitem_scalar_refused. Qed.
Theorem C03_series_during_t0 : forall A (s : series A) e r, series_during s e = XOk r ->
  d_t0 r = head_ps (e_offset e) /\ d_dt r = s_dt s /\ d_unit r = s_unit s.
Proof. exact @series_during_t0. Qed.
Theorem C03_series_during_indexed_t0 : forall A (s : series A) e k e' r,
  epochs_getitem e k = XOk e' -> series_during s e' = XOk r -> d_t0 r = head_ps (e_offset e).
Proof. exact @series_during_indexed_t0. Qed.
Print Assumptions C03_series_during_indexed_t0.

(* ------------------------------------------------------------------ non-vacuity: the hypotheses are met by
   concrete non-trivial inputs (negative t0, 7 ps interval, queries in another unit, duplicates,
   2-d data) *)
Definition ex_t0 := -3000000000.     (* -3 ms *)
Definition ex_dt := 2000000000.      (* 2 ms *)
Example C03_ex_guard : axis_guard ex_t0 ex_dt 10.
Proof. repeat split; reflexivity. Qed.
Example C03_ex_uindex : uindex1 (uaxis_of ex_t0 ex_dt 10 Ums) 1500000000 = XOk 2
  /\ uindex1 (uaxis_of ex_t0 ex_dt 10 Ums) 17000000000 = XErr XValue
  /\ uindex_at (uaxis_of ex_t0 ex_dt 10 Ums) (DTime (mk_tarr [1500000000] Uus true)) false = XOk (UScalar 2).
Proof. repeat split; vm_compute; reflexivity. Qed.
Example C03_ex_uat :
  uat (uaxis_of ex_t0 ex_dt 10 Ums) (DFloats true [1.5%float]) = XOk (mk_tarr [1000000000] Ums true)
  /\ ctor (UArg Ums) (DFloats true [1.5%float]) = Ok (mk_tarr [1500000000] Ums true).
Proof. split; vm_compute; reflexivity. Qed.
Example C03_ex_uslice :
  uslice_during (uaxis_of ex_t0 ex_dt 10 Ums) (mk_epochs [500000000] [4500000000] true (mk_tarr [0] Ums true) Ums) = XOk (2, 4)
  /\ uduring (uaxis_of ex_t0 ex_dt 10 Ums) (mk_epochs [500000000] [4500000000] true (mk_tarr [0] Ums true) Ums)
     = XOk [1000000000; 3000000000].
Proof. split; vm_compute; reflexivity. Qed.
Example C03_ex_closest :
  index_at dup_self (DInts true [2]) (Some (DInts true [1])) Closest = XOk (IList [0; 1; 2]%nat)
  /\ as_query Ums (DInts true [2]) = Ok (mk_tarr [2000000000] Ums false)
  /\ ctor (UArg Ums) (DInts true [1]) = Ok (mk_tarr [1000000000] Ums true).
Proof. repeat split; vm_compute; reflexivity. Qed.
Example C03_ex_before_after :
  index_at dup_self (DTime (mk_tarr [3000000000] Uus true)) None Before = XOk (IScalar 1%nat)
  /\ index_at dup_self (DTime (mk_tarr [3000000000] Uus true)) None After = XOk (IScalar 1%nat)
  /\ index_at dup_self (DInts true [0]) None Before = XOk (IList [])
  /\ index_at dup_self (DInts true [4]) None Before = XOk (IScalar 1%nat).
Proof. repeat split; vm_compute; reflexivity. Qed.
Example C03_ex_tslice_sorted : StronglySorted Z.le (payload dup_self).
Proof. exact dup_sorted. Qed.
Definition ex_series : series (list Z) :=
  mk_series [[0; 10]; [1; 11]; [2; 12]; [3; 13]; [4; 14]] (-7) 7 Ups.   (* 2 channels x 5 samples, 7 ps *)
Example C03_ex_series :
  axis_guard (s_t0 ex_series) (s_dt ex_series) (length (s_data ex_series))
  /\ series_during ex_series (mk_epochs [-1] [20] true (mk_tarr [-5] Uns true) Uns)
     = XOk (mk_dout (DOne [[1; 11]; [2; 12]; [3; 13]]) (-5) 7 Ups)
  /\ series_during ex_series (mk_epochs [-7; 0] [1; 8] false (mk_tarr [3] Ups true) Ups)
     = XOk (mk_dout (DRows [[[0; 10]; [1; 11]]; [[1; 11]; [2; 12]]]) 3 7 Ups)
  /\ series_at ex_series (DInts true [6]) = XOk (SOne [1; 11]).
Proof. split; [repeat split; reflexivity|]. repeat split; vm_compute; reflexivity. Qed.
Definition ex_events : events (list Z) :=
  mk_events dup_self [[10; 0; 1]; [20; 2; 3]; [30; 4; 5]; [40; 6; 7]].  (* a: 1-d, b: (4,2) *)
Example C03_ex_events :
  events_get ex_events (KInt 2) = XOk (mk_events (mk_tarr [3000000000] Ums false) [[30; 4; 5]])
  /\ events_get ex_events (KInt (-1)) = XOk (mk_events (mk_tarr [5000000000] Ums false) [[40; 6; 7]])
  /\ events_get ex_events (KFloat 3%float)
     = XOk (mk_events (mk_tarr [3000000000; 3000000000] Ums false) [[20; 2; 3]; [30; 4; 5]])
  /\ events_get ex_events (KEpochs dup_epoch)
     = XOk (mk_events (mk_tarr [1000000000; 3000000000; 3000000000] Ums false) [[10; 0; 1]; [20; 2; 3]; [30; 4; 5]]).
Proof. repeat split; vm_compute; reflexivity. Qed.
Example C03_ex_epochs :
  epochs_ctor (mk_eargs (Some (DTime (mk_tarr [1000; 2000] Uns false))) None (Some (DTime (mk_tarr [-500] Ups true)))
                        None (Some (DTime (mk_tarr [4] Uns true))) UArgNone)
  = XOk (mk_epochs [1500; 2500] [1504; 2504] false (mk_tarr [-500] Ups true) Uns).
Proof. vm_compute. reflexivity. Qed.
Definition ex_eps : epochs := mk_epochs [-7; 0; 7] [1; 8; 15] false (mk_tarr [-3] Ups true) Ups.
Example C03_ex_epochs_getitem :
  epochs_getitem ex_eps (EInt (-2)) = XOk (mk_epochs [0] [8] true (mk_tarr [-3] Ups true) Ups)
  /\ epochs_getitem ex_eps (ESlice (Some 1) None) = XOk (mk_epochs [0; 7] [8; 15] false (mk_tarr [-3] Ups true) Ups)
  /\ epochs_getitem ex_eps (EMask [true; false; true]) = XOk (mk_epochs [-7; 7] [1; 15] false (mk_tarr [-3] Ups true) Ups)
  /\ series_during ex_series (mk_epochs [0] [8] true (mk_tarr [-3] Ups true) Ups)
     = XOk (mk_dout (DOne [[1; 11]; [2; 12]]) (-3) 7 Ups).
Proof. repeat split; vm_compute; reflexivity. Qed.
Example C03_ex_getint : tarr_getint dup_self (-1) = XOk (mk_tarr [5000000000] Ums true)
  /\ tarr_getint dup_self 4 = XErr XIndex
  /\ uaxis_getint (uaxis_of ex_t0 ex_dt 10 Ums) 9 = XOk (mk_tarr [15000000000] Ums true).
Proof. repeat split; vm_compute; reflexivity. Qed.
