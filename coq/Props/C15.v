(* Props/C15.v — property C15: analyzers and file readers are faithful, unit-aware front ends.

   FULL STATEMENT (properties.jsonl): each analyzer result equals the underlying algorithm on the
   series' data with Fs in Hz taken from the series (1 ms interval means 1000 Hz whatever the time
   unit); results that are time series have the input's sampling interval, number of samples and time
   unit and start at the input's start time (or at the documented lag/offset for correlation and
   event-locked results, zero lag at time zero); reading series from image files returns exactly the
   voxel data at the requested coordinates with TR as sampling interval; concatenating runs =
   concatenating the data in time.

   PARTIAL BY DESIGN (DESIGN.md §6 C15, §7).  Proved here, for all inputs, over Model/FrontEnd.v:
   the axis-descriptor logic of every analyzer output, the unit handling of the rate (in exact
   arithmetic), the reader's selection / ROI / file-order logic and concatenation.  NOT a theorem:
   "analyzer output = algorithm output on series.data" is implementation-vs-implementation
   differential validation done by the harness (harness/vt/props/c15.py, labelled so in the
   evidence), and the binary64 rounding of the rate hand-over is carried bit-exactly by the model
   and compared with the code in K, but its exactness (interval -> rate -> interval returns the same
   picosecond count) is a hypothesis `rate_ok` of the axis theorems, decidable per input
   (`rate_okb`), met by every generated input below 2^49 ps and REFUTED above (witness below).
   Only statements here; proofs are in Proofs/FrontEndP.v. *)
From Coq Require Import ZArith List Bool QArith PrimFloat.
From NT Require Import F2Z TimeArray FrontEnd FrontEndP.
Import ListNotations.
Open Scope Z_scope.

(* ------------------------------------------------------------------ Fs is unit-aware *)
(* In exact arithmetic the rate the constructor computes for sampling_interval=x in unit u is
   10^12 / (interval in ps): 1 ms means 1000 Hz. *)
Theorem C15_fs_is_1e12_over_interval_ps : forall x u, ~ (x == 0)%Q ->
  (rate_of_interval_g QA x u == inject_Z (10 ^ 12) / ps_of_g QA x u)%Q.
Proof. exact rate_of_interval_Q. Qed.
Print Assumptions C15_fs_is_1e12_over_interval_ps.

(* … so it does not depend on the unit the interval is expressed in (all 9 x 9 unit pairs) *)
Theorem C15_fs_unit_free_partial : forall x1 u1 x2 u2, ~ (x1 == 0)%Q -> ~ (x2 == 0)%Q ->
  (ps_of_g QA x1 u1 == ps_of_g QA x2 u2)%Q ->
  (rate_of_interval_g QA x1 u1 == rate_of_interval_g QA x2 u2)%Q.
Proof. exact fs_unit_free_Q. Qed.
Print Assumptions C15_fs_unit_free_partial.
(* partial: the statement is about the code's formulas read over Q; the binary64 reading of the
   same formulas (FA) is what K compares bit for bit with the implementation. *)

Theorem C15_rate_from_time_interval_unit_free : forall dt u, ~ (dt == 0)%Q ->
  (rate_of_ps_g QA dt u == inject_Z (10 ^ 12) / dt)%Q.
Proof. exact rate_of_ps_Q. Qed.

(* the hand-over chain interval -> Frequency -> to_period -> interval in another unit -> ps is the
   identity in exact arithmetic, for every pair of units *)
Theorem C15_handover_chain_exact : forall x u v, ~ (x == 0)%Q ->
  (ps_of_g QA (interval_of_period_g QA (period_g QA (rate_of_interval_g QA x u)) v) v == ps_of_g QA x u)%Q.
Proof. exact handover_chain_Q. Qed.
Print Assumptions C15_handover_chain_exact.

(* every analyzer hands the series' own sampling_rate attribute to the algorithm layer *)
Theorem C15_fs_to_algorithm_is_series_rate : forall s, fs_to_algorithm s = s_fs s.
Proof. reflexivity. Qed.

(* binary64 reading: 1 ms written in s, ms, us gives exactly 1000 Hz and 10^9 ps *)
Example C15_one_ms_is_1000_Hz :
  map (fun i => match build_input i with
                | Some s => (ax_dt (s_axis s), feqb (s_fs s) 1000%float)
                | None => (0, false) end)
      [InInterval 0x1.0624dd2f1a9fcp-10%float 2.5%float Us 8;
       InInterval 1%float 2500%float Ums 8;
       InInterval 1000%float 2500000%float Uus 8]
  = [(10 ^ 9, true); (10 ^ 9, true); (10 ^ 9, true)].
Proof. vm_compute. reflexivity. Qed.

(* ------------------------------------------------------------------ outputs built from the rate *)
(* percent_change, z_score, Hilbert/wavelet analytic and derived signals, iir/fourier/boxcar/fir
   filter outputs (any number of fir passes), signal_noise: the input's axis and rate *)
Theorem C15_rate_outputs_axis_ok : forall o s, rate_ok s ->
  match o with ONorm | OAnalytic | ODerived | OFilt | OSnr | OFir _ => True | _ => False end ->
  out_series o s = Some s.
Proof. exact out_rate_ok. Qed.
Print Assumptions C15_rate_outputs_axis_ok.

(* without the hypothesis: start time, unit, number of samples and rate are still the input's *)
Theorem C15_rate_outputs_keep_t0_unit_n : forall o s s',
  match o with ONorm | OAnalytic | ODerived | OFilt | OSnr | OFir _ => True | _ => False end ->
  out_series o s = Some s' ->
  ax_t0 (s_axis s') = ax_t0 (s_axis s) /\ ax_unit (s_axis s') = ax_unit (s_axis s) /\
  ax_n (s_axis s') = ax_n (s_axis s) /\ s_fs s' = s_fs s.
Proof. exact out_rate_keeps. Qed.
Print Assumptions C15_rate_outputs_keep_t0_unit_n.

Theorem C15_rate_ok_decidable : forall s, rate_okb s = true <-> rate_ok s.
Proof. exact rate_okb_spec. Qed.

(* non-vacuity: inputs in s / ms / us with non-zero t0 meet rate_ok, and all six kinds of output
   reproduce the input axis *)
Example C15_rate_ok_inhabited :
  forallb (fun i => match build_input i with
                    | Some s => rate_okb s && negb (ax_t0 (s_axis s) =? 0)
                                && forallb (fun o => match out_series o s with
                                                     | Some s' => (ax_dt (s_axis s') =? ax_dt (s_axis s))
                                                                  && (ax_t0 (s_axis s') =? ax_t0 (s_axis s))
                                                     | None => false end)
                                           [ONorm; OAnalytic; ODerived; OFilt; OFir 2; OSnr]
                    | None => false end)
    [InInterval 0x1.a0624dd2f1a9fp-1%float 1.5%float Us 64;     (* 0.81327 s *)
     InInterval 2%float 5000%float Ums 64;
     InInterval 2000%float 5000000%float Uus 64;
     InRate 0x1.921fb54442d18p+1%float 4.25%float Us 10] = true.
Proof. vm_compute. reflexivity. Qed.

(* The faithful model REFUTES "same sampling interval" for very long intervals: a series sampled
   every 7634 s comes back from the normalisation (or any rate hand-over) with 7633999999999999 ps. *)
Theorem C15_rate_roundtrip_refuted : exists x u t0 n s s',
  build_input (InInterval x t0 u n) = Some s /\ out_series ONorm s = Some s' /\
  ax_dt (s_axis s') <> ax_dt (s_axis s).
Proof.
  exists 7634%float, Us, 0%float, 8.
  eexists. eexists. split; [vm_compute; reflexivity|]. split; [vm_compute; reflexivity|].
  simpl. discriminate.
Qed.
Print Assumptions C15_rate_roundtrip_refuted.

(* ------------------------------------------------------------------ the keyword table *)
(* every output is built by the constructor call(s) its row of `handover_of` describes (the rows are
   compared with the running code by the generated-fact lemma G_handover) … *)
Theorem C15_outputs_follow_keyword_table : forall o s,
  out_series o s =
  iter_opt (fun x => construct (handover_of o) x (out_t0 o (s_axis x)) (out_n o (s_axis x))) (out_calls o) s.
Proof. exact out_series_is_construct. Qed.
(* … a call that passes the (consistent) rate or the interval, t0= and time_unit= yields exactly the axis
   (t0, input interval, input unit, n); every row of the table is of that kind … *)
Theorem C15_complete_call_keeps_axis : forall h s t0 n,
  ho_t0 h = true -> ho_unit h = true ->
  (ho_rate h = true /\ rate_ok s) \/ (ho_rate h = false /\ ho_interval h = true) ->
  exists fs', construct h s t0 n =
    Some (mk_series (mk_axis t0 (ax_dt (s_axis s)) (ax_unit (s_axis s)) n) fs').
Proof. exact construct_keeps. Qed.
Theorem C15_table_rows_complete : forall o, ho_t0 (handover_of o) = true /\ ho_unit (handover_of o) = true /\
  (ho_rate (handover_of o) = true \/ (ho_rate (handover_of o) = false /\ ho_interval (handover_of o) = true)).
Proof. exact handover_complete. Qed.
(* … whereas a call without t0= restarts at 0 and a call without time_unit= is labelled in seconds (the
   defects of the normalisation, Hilbert, wavelet, correlation and signal_noise outputs repaired by
   the C15 fix commits: a row with a `false` in it breaks G_handover) *)
Theorem C15_call_without_t0_restarts_at_0 : forall h s t0 n s',
  ho_t0 h = false -> construct h s t0 n = Some s' -> ax_t0 (s_axis s') = 0.
Proof. exact construct_without_t0. Qed.
Theorem C15_call_without_unit_is_seconds : forall h s t0 n s',
  ho_unit h = false -> construct h s t0 n = Some s' -> ax_unit (s_axis s') = Us.
Proof. exact construct_without_unit. Qed.
Print Assumptions C15_outputs_follow_keyword_table.
Print Assumptions C15_complete_call_keeps_axis.

(* ------------------------------------------------------------------ correlation: lag axis *)
(* xcorr / xcorr_norm: 2n-1 samples, the input's interval and unit, sample k labelled
   (k - (n-1)) * dt; the zero-lag sample of np.correlate(…, 'full') (index n-1) is at time 0 *)
Theorem C15_xcorr_lag_axis : forall s s' k, out_series OXcorr s = Some s' ->
  axis_time (s_axis s') k = (k - zero_lag_index (ax_n (s_axis s))) * ax_dt (s_axis s) /\
  ax_dt (s_axis s') = ax_dt (s_axis s) /\ ax_unit (s_axis s') = ax_unit (s_axis s) /\
  ax_n (s_axis s') = 2 * ax_n (s_axis s) - 1.
Proof. exact xcorr_lag_labels. Qed.
Theorem C15_xcorr_zero_lag_at_zero : forall s s', out_series OXcorr s = Some s' ->
  axis_time (s_axis s') (zero_lag_index (ax_n (s_axis s))) = 0.
Proof. exact xcorr_zero_lag. Qed.
Theorem C15_xcorr_defined : forall s, exists s', out_series OXcorr s = Some s'.
Proof. intros s. destruct (out_xcorr_axis s) as [fs' H]. eexists. exact H. Qed.
Print Assumptions C15_xcorr_lag_axis.

(* ------------------------------------------------------------------ event-locked outputs *)
(* FIR, xcorr_eta (rate hand-over) and eta, ets, et_data (interval hand-over): sample k is at
   (offset + k) * dt, so the event itself (k = -offset) is at time 0 *)
Theorem C15_event_axis : forall s s' offset n_out k,
  out_series (OEvInterval offset n_out) s = Some s' \/
  (rate_ok s /\ out_series (OEvRate offset n_out) s = Some s') ->
  axis_time (s_axis s') k = (offset + k) * ax_dt (s_axis s) /\
  ax_dt (s_axis s') = ax_dt (s_axis s) /\ ax_unit (s_axis s') = ax_unit (s_axis s) /\
  ax_n (s_axis s') = n_out.
Proof. exact ev_time_labels. Qed.
Theorem C15_event_zero_at_event : forall s s' offset n_out,
  out_series (OEvInterval offset n_out) s = Some s' \/
  (rate_ok s /\ out_series (OEvRate offset n_out) s = Some s') ->
  axis_time (s_axis s') (- offset) = 0.
Proof.
  intros s s' offset n_out H. destruct (ev_time_labels s s' offset n_out (- offset) H) as [E _].
  rewrite E. ring.
Qed.
Print Assumptions C15_event_axis.

(* ------------------------------------------------------------------ concatenation *)
(* concatenating runs = appending the data along time: for any number of runs of any lengths with
   the same number of channels, channel i of the result is channel i of every run, in order *)
Theorem C15_concat_data : forall (A : Type) (first : @rows A) rest i,
  Forall (fun b => length b = length first) rest ->
  length (hcat first rest) = length first /\
  nth i (hcat first rest) [] = concat (map (fun b => nth i b []) (first :: rest)).
Proof. intros A first rest i H. split; [apply hcat_length, H|apply hcat_rows, H]. Qed.
(* … and sample j of run k sits right after all samples of the runs before it *)
Theorem C15_concat_sample_position : forall (A : Type) (ls : list (list A)) k j d,
  (k < length ls)%nat -> (j < length (nth k ls []))%nat ->
  nth (length (concat (firstn k ls)) + j) (concat ls) d = nth j (nth k ls []) d.
Proof. intros A. exact concat_block_nth. Qed.
(* the time axis of the result: starts at 0, the interval of the last run, as many samples as all
   runs together, sample k at k * dt (it continues uniformly across the run boundaries) *)
Theorem C15_concat_axis : forall first rest s, concat_axis first rest = Some s ->
  ax_t0 (s_axis s) = 0 /\ ax_dt (s_axis s) = ax_dt (s_axis (last rest first)) /\
  ax_n (s_axis s) = sum_n first rest /\
  forall k, axis_time (s_axis s) k = k * ax_dt (s_axis (last rest first)).
Proof. exact concat_axis_spec. Qed.
Print Assumptions C15_concat_data.
Print Assumptions C15_concat_axis.

(* ------------------------------------------------------------------ reading from files *)
(* data[x, y, z]: one row per requested voxel, in the order requested, each the time course stored
   at (x, y, z); explicit bounds (no default values) *)
Theorem C15_coords_select : forall (A : Type) (v : @volume A) cs r, select v cs = Some r ->
  length r = length cs /\
  forall i c, nth_error cs i = Some c -> exists row, nth_error r i = Some row /\ vol_at v c = Some row.
Proof. intros A v cs r H. split; [eapply select_length, H|eapply select_nth, H]. Qed.
Theorem C15_voxel_lookup : forall (A : Type) (v : @volume A) x y z r, vol_at v (x, y, z) = Some r ->
  0 <= x /\ 0 <= y /\ 0 <= z /\
  exists p q, nth_error v (Z.to_nat x) = Some p /\ nth_error p (Z.to_nat y) = Some q /\
              nth_error q (Z.to_nat z) = Some r.
Proof. intros A. exact vol_at_spec. Qed.
Theorem C15_select_defined_in_bounds : forall (A : Type) (v : @volume A) cs,
  Forall (fun c => vol_at v c <> None) cs -> exists r, select v cs = Some r.
Proof. intros A. exact select_defined. Qed.
(* one or several files: voxel i of the ROI carries its time courses of all files in file order *)
Theorem C15_reader_data : forall (A : Type) (v0 : @volume A) vs cs r, reader_data v0 vs cs = Some r ->
  length r = length cs /\
  forall i c, nth_error cs i = Some c ->
  exists l, Forall2 (fun v row => vol_at v c = Some row) (v0 :: vs) l /\ nth i r [] = concat l.
Proof. intros A. exact reader_data_spec. Qed.
(* a list of ROIs is read ROI by ROI, in the order given *)
Theorem C15_reader_rois : forall (A : Type) (v0 : @volume A) vs rois out,
  reader_data_rois v0 vs rois = Some out ->
  Forall2 (fun roi r => reader_data v0 vs roi = Some r) rois out.
Proof. intros A. exact reader_rois_spec. Qed.
Print Assumptions C15_coords_select.
Print Assumptions C15_reader_data.

(* TR is the sampling interval: as a time object exactly, as a number in seconds *)
Theorem C15_reader_TR_time : forall ps u n s, tr_series (TRtime ps u) n = Some s ->
  ax_dt (s_axis s) = ps /\ ax_t0 (s_axis s) = 0 /\ ax_n (s_axis s) = n.
Proof. exact tr_series_time. Qed.
Theorem C15_reader_TR_seconds : forall x n s, tr_series (TRfloat x) n = Some s ->
  ta_float x Us = Some (ax_dt (s_axis s)) /\ ax_t0 (s_axis s) = 0 /\ ax_n (s_axis s) = n /\
  ax_unit (s_axis s) = Us.
Proof. exact tr_series_float. Qed.
(* filter / normalise options keep that axis (rate hand-overs) *)
Theorem C15_reader_options_keep_axis : forall tr f nm n s0, tr_series tr n = Some s0 -> rate_ok s0 ->
  helper_axis tr f nm n = Some s0.
Proof. exact helper_axis_ok. Qed.
(* several files: interval TR, start 0, number of samples = the sum over the files *)
Theorem C15_reader_axis_files : forall ps u n ns s,
  reader_axis false (TRtime ps u) FNone NNone (n :: ns) = Some s ->
  ax_dt (s_axis s) = ps /\ ax_t0 (s_axis s) = 0 /\ ax_n (s_axis s) = n + fold_right Z.add 0 ns.
Proof. exact reader_axis_multi_time. Qed.
Print Assumptions C15_reader_options_keep_axis.
Print Assumptions C15_reader_axis_files.

(* non-vacuity of the reader theorems: a 2 x 2 x 1 volume with 3 time points in two files *)
Example C15_reader_example :
  reader_data_rois [[[[1; 2; 3]]; [[4; 5; 6]]]; [[[7; 8; 9]]; [[10; 11; 12]]]]
                   [[[[[21; 22]]; [[24; 25]]]; [[[27; 28]]; [[30; 31]]]]]
                   [[(1, 0, 0); (0, 1, 0)]; [(0, 0, 0)]]
  = Some [[[7; 8; 9; 27; 28]; [4; 5; 6; 24; 25]]; [[1; 2; 3; 21; 22]]].
Proof. vm_compute. reflexivity. Qed.
Example C15_reader_axis_example :
  match reader_axis false (TRtime 1500000000 Ums) (FFir 1) NSome [10; 12; 7] with
  | Some s => (ax_dt (s_axis s), ax_t0 (s_axis s), ax_n (s_axis s))
  | None => (0, 0, 0) end = (1500000000, 0, 29).
Proof. vm_compute. reflexivity. Qed.

(* ------------------------------------------------------------------ re-use: set_input, shared method dicts *)
(* "Fs taken from the series" for the series being analysed NOW: in any world (after any history of
   constructions on shared method dicts, reads and set_inputs) every read of a SpectralAnalyzer (psd,
   cpsd, periodogram, spectrum_fourier, spectrum_multi_taper) uses the rate of its current input … *)
Theorem C15_spectral_read_uses_current_rate : forall w a r an,
  nth_error (w_ans w) a = Some an -> an_cls an = ASpectral -> attr_of ASpectral r = true ->
  snd (step w (OpRead a r)) = Some (s_fs (an_input an), ax_dt (s_axis (an_input an))).
Proof. exact spectral_read_current. Qed.
(* … the current input is the one of the last set_input and no other operation touches it … *)
Theorem C15_set_input_sets_current : forall w a s an, nth_error (w_ans w) a = Some an ->
  nth_error (w_ans (fst (step w (OpSetInput a s)))) a = Some (mk_an (an_cls an) (an_dict an) s).
Proof. exact set_input_sets. Qed.
Theorem C15_other_steps_keep_input : forall w o b an, nth_error (w_ans w) b = Some an ->
  (forall s, o <> OpSetInput b s) -> nth_error (w_ans (fst (step w o))) b = Some an.
Proof. exact step_keeps_inputs. Qed.
(* … hence after set_input(B) a SpectralAnalyzer reads with B's rate. *)
Theorem C15_spectral_after_set_input : forall w a sB an r,
  nth_error (w_ans w) a = Some an -> an_cls an = ASpectral -> attr_of ASpectral r = true ->
  snd (step (fst (step w (OpSetInput a sB))) (OpRead a r)) = Some (s_fs sB, ax_dt (s_axis sB)).
Proof. exact spectral_after_set_input. Qed.
Print Assumptions C15_spectral_after_set_input.

Definition sA15 : series := mk_series (mk_axis 0 2000000000 Ums 128) 500%float.
Definition sB15 : series := mk_series (mk_axis 0 1000000000000 Us 100) 1%float.
(* non-vacuity: a shared dict without 'Fs', cpsd of the first analyzer writes A's rate into it, the psd
   of the second analyzer (on B) still uses B's rate; and re-use through set_input *)
Example C15_spectral_histories :
  run_ops world0 [OpNewDict None; OpInit ASpectral (Some 0%nat) sA15; OpInit ASpectral (Some 0%nat) sB15;
                  OpRead 0 RCpsd; OpRead 1 RPsd; OpSetInput 0 sB15; OpRead 0 RPsd]
  = [None; None; None; Some (500%float, 2000000000); Some (1%float, 1000000000000); None;
     Some (1%float, 1000000000000)].
Proof. vm_compute. reflexivity. Qed.

(* The faithful model REFUTES the same claim for the coherence family (method['Fs'] is a snapshot taken
   by the constructor): known findings C15/set_input/… and C15/method-dict/… (the C15 faces of the
   C14 / C05 findings). *)
Theorem C15_coherence_set_input_refuted : exists c ops sB f dt,
  (c = ACoherence \/ c = ASparse) /\
  last (run_ops world0 (OpInit c None sA15 :: OpSetInput 0 sB :: ops)) None = Some (f, dt) /\
  f <> s_fs sB.
Proof.
  exists ACoherence, [OpRead 0 RFrequencies], sB15, 500%float, 1000000000000.
  split; [left; reflexivity|]. split; [vm_compute; reflexivity|].
  intros H. assert (E : PrimFloat.eqb 500%float (s_fs sB15) = true) by (rewrite H; reflexivity).
  vm_compute in E. discriminate E.
Qed.
Theorem C15_coherence_shared_dict_refuted : exists ops f dt,
  last (run_ops world0 (OpNewDict None :: OpInit ACoherence (Some 0%nat) sA15 ::
                        OpInit ACoherence (Some 0%nat) sB15 :: ops)) None = Some (f, dt) /\
  f <> s_fs sB15 /\ ops = [OpRead 1 RSpectrum].
Proof.
  exists [OpRead 1 RSpectrum], 500%float, 1000000000000.
  split; [vm_compute; reflexivity|]. split; [|reflexivity].
  intros H. assert (E : PrimFloat.eqb 500%float (s_fs sB15) = true) by (rewrite H; reflexivity).
  vm_compute in E. discriminate E.
Qed.
Print Assumptions C15_coherence_set_input_refuted.

(* ------------------------------------------------------------------ events given as an Events object *)
(* the sample an event is locked to is the exact integer quotient of picosecond counts: an on-grid event
   (k * dt) is locked to sample k itself — not k-1 — for EVERY k and interval, and in general to the
   sample whose bin contains the event; with C15_event_zero_at_event that sample is the one at time 0 *)
Theorem C15_event_sample_on_grid : forall k dt, 0 < dt -> event_sample (k * dt) dt = k.
Proof. exact event_sample_on_grid. Qed.
Theorem C15_event_sample_bin : forall ev dt, 0 < dt ->
  event_sample ev dt * dt <= ev < (event_sample ev dt + 1) * dt.
Proof. exact event_sample_bin. Qed.
Print Assumptions C15_event_sample_on_grid.
