(* Props/C02.v — property C02: every valid sampling specification yields one well-formed
   uniform time axis.  Statements only (proofs in Proofs/UniformP.v), Print Assumptions,
   refutations with witnesses, non-vacuity Examples.

   Reading guide.  `ut_new` = UniformTime.__new__, `ts_new` = TimeSeries.__init__, `ts_time` =
   the lazily built TimeSeries.time, as transliterated in Model/Uniform.v (float steps in the
   kernel's binary64).  A result `TOk ax` is an axis with ax_n samples ax_sample ax i,
   attributes ax_t0 / ax_dt / ax_dur (ps), ax_rate (Hz).  `TScope` marks calls outside the
   property's quantifier (some time value reaches 2^62 ps). *)
From Coq Require Import ZArith List Bool PrimFloat.
From NT Require Import F2Z TimeArray TimeArrayP Uniform UniformP.
Import ListNotations.
Open Scope Z_scope.

(* 1. Every accepted UniformTime specification — any argument kinds, with or without a given
      axis — yields a well-formed axis: non-zero whole-picosecond interval, number of samples
      = max(0, ceil(duration / interval)) computed exactly, all attributes inside 2^62 ps. *)
Theorem C02_axis_wellformed : forall a ax, ut_new a = TOk ax -> wellformed ax.
Proof. exact ut_new_wellformed. Qed.
Print Assumptions C02_axis_wellformed.

(*    sample i lies exactly at t0 + i*interval (no int64 wrap-around) and before t0 + duration *)
Theorem C02_arange_spec : forall ax i,
  wellformed ax -> 0 < ax_dt ax -> 0 <= i < ax_n ax -> 0 < ax_dur ax ->
  ax_sample ax i = ax_t0 ax + i * ax_dt ax /\ ax_t0 ax <= ax_sample ax i < ax_t0 ax + ax_dur ax.
Proof. exact samples_in_range. Qed.
Print Assumptions C02_arange_spec.

(*    when a duration decides: the samples are exactly the multiples of the interval that fit
      before it *)
Theorem C02_duration_fits : forall a ax,
  ut_new a = TOk ax -> 0 < ax_dt ax ->
  forall i, 0 <= i -> (i < ax_n ax <-> i * ax_dt ax < ax_dur ax).
Proof. exact ut_new_fits. Qed.
Print Assumptions C02_duration_fits.

(* 2. Exactly the requested number of samples, duration covering exactly the n intervals:
      interval + length and rate + length, for EVERY kind of interval / rate argument (whole or
      fractional picoseconds, float, time object, Frequency), every unit, every t0. *)
Theorem C02_interval_length : forall si l t0 un ax,
  ut_new (mk_ut_args None (Some l) None None (Some si) t0 un) = TOk ax ->
  0 < ax_dt ax -> 0 <= l -> ax_n ax = l /\ ax_dur ax = l * ax_dt ax.
Proof. exact ut_interval_length. Qed.
Theorem C02_rate_length : forall r l t0 un ax,
  ut_new (mk_ut_args None (Some l) None (Some r) None t0 un) = TOk ax ->
  0 < ax_dt ax -> 0 <= l -> ax_n ax = l /\ ax_dur ax = l * ax_dt ax.
Proof. exact ut_rate_length. Qed.
Print Assumptions C02_interval_length.
Print Assumptions C02_rate_length.

(*    whole numbers of the unit: interval, t0, duration are the exact integer products *)
Theorem C02_axis_int_path : forall k l z u ax,
  ut_new (mk_ut_args None (Some l) None None (Some (VInt k)) (Some (VInt z)) (UArg u)) = TOk ax ->
  0 < k -> 0 <= l ->
  ax_n ax = l /\ ax_dt ax = k * factor u /\ ax_t0 ax = z * factor u /\
  ax_dur ax = l * (k * factor u) /\ ax_unit ax = u.
Proof. exact ut_int_path. Qed.
Print Assumptions C02_axis_int_path.

(*    a fractional interval is stored as a nearest whole picosecond to its float64 product with
      the unit (the C01 constructor) *)
Theorem C02_float_interval_nearest : forall u f p,
  to_ps u (VFlt f) = TOk p ->
  exists m e, f2ze (PrimFloat.mul f (z2f (factor u))) = Some (m, e) /\ nearest p m e.
Proof. exact to_ps_float. Qed.

(* 3. A time series: len(series.time) = data length for every accepted series specification
      (any of the argument patterns, a given time axis, any unit), at the series' own t0 and
      interval, duration = n * interval. *)
Theorem C02_series_time_len : forall a s ax,
  ts_new a = TOk s -> ts_time s = TOk ax -> 0 < se_dt s -> 0 <= s_len a ->
  ax_n ax = s_len a /\ ax_dt ax = se_dt s /\ ax_t0 ax = se_t0 s /\ ax_dur ax = s_len a * se_dt s.
Proof. exact series_time_len. Qed.
Print Assumptions C02_series_time_len.

(*    data of any dimensionality: the series depends on the data only through the length of the LAST axis
      (channels, trials, ... in front play no role), and len(series.time) is that length *)
Theorem C02_series_shape_only : forall sh1 sh2 a,
  last sh1 0 = last sh2 0 -> ts_new (with_shape sh1 a) = ts_new (with_shape sh2 a).
Proof. exact ts_shape_only. Qed.
Theorem C02_series_time_len_any_shape : forall sh a s ax,
  ts_new (with_shape sh a) = TOk s -> ts_time s = TOk ax -> 0 < se_dt s -> 0 <= last sh 0 ->
  ax_n ax = last sh 0 /\ ax_dt ax = se_dt s /\ ax_t0 ax = se_t0 s /\ ax_dur ax = last sh 0 * se_dt s.
Proof. intros sh a s ax H1 H2 H3 H4. exact (series_time_len (with_shape sh a) s ax H1 H2 H3 H4). Qed.
Print Assumptions C02_series_time_len_any_shape.
Example C02_series_multichannel :
  match ts_new (with_shape [3; 8] (mk_ts_args 0 None None None (Some (VInt 2)) None (UArg Us))) with
  | TOk s => (se_dt s =? 250000000000) && (se_len s =? 8)
  | _ => false end = true.
Proof. vm_compute. reflexivity. Qed.

(* 3b. Specifications that describe the same sampling in another unit yield the same axis:
       a time-object interval/start displayed under any time_unit; whole numbers of two units
       that denote the same picoseconds (2 ms = 2000 us). *)
Theorem C02_unit_independent : forall ps su l t0ps tu u1 u2,
  match ut_new (mk_ut_args None (Some l) None None (Some (VTime ps su)) (Some (VTime t0ps tu)) (UArg u1)),
        ut_new (mk_ut_args None (Some l) None None (Some (VTime ps su)) (Some (VTime t0ps tu)) (UArg u2)) with
  | TOk a, TOk b => same_axis a b /\ ax_unit a = u1 /\ ax_unit b = u2
  | TErr e, TErr e' => e = e'
  | TScope, TScope => True
  | _, _ => False
  end.
Proof. exact ut_unit_independent. Qed.
Theorem C02_same_sampling_any_unit : forall k1 u1 k2 u2 z1 z2 l,
  k1 * factor u1 = k2 * factor u2 -> z1 * factor u1 = z2 * factor u2 ->
  forall a b,
  ut_new (mk_ut_args None (Some l) None None (Some (VInt k1)) (Some (VInt z1)) (UArg u1)) = TOk a ->
  ut_new (mk_ut_args None (Some l) None None (Some (VInt k2)) (Some (VInt z2)) (UArg u2)) = TOk b ->
  0 < k1 -> 0 < k2 -> 0 <= l ->
  ax_n a = ax_n b /\ ax_t0 a = ax_t0 b /\ ax_dt a = ax_dt b /\ ax_dur a = ax_dur b.
Proof. exact ut_same_sampling_any_unit. Qed.
Print Assumptions C02_unit_independent.
Print Assumptions C02_same_sampling_any_unit.
(*     an axis rebuilt from a self-consistent axis is that axis (start, interval, duration, rate, unit) *)
Theorem C02_from_axis_identical : forall d ax,
  0 < ax_dt d -> ax_dur d = ax_n d * ax_dt d -> 0 <= ax_n d ->
  ut_new (mk_ut_args (Some d) None None None None None UArgNone) = TOk ax ->
  ax_n ax = ax_n d /\ ax_t0 ax = ax_t0 d /\ ax_dt ax = ax_dt d /\ ax_dur ax = ax_dur d /\
  ax_rate ax = ax_rate d /\ ax_unit ax = ax_unit d.
Proof. exact ut_from_axis_identical. Qed.
Print Assumptions C02_from_axis_identical.
(*     NOT proved (float reasoning): that an interval and its reciprocal rate yield identical axes;
       this is carried by the oracle and the correspondence only, and is refuted above 2^50 ps. *)

(* 4. Incomplete / over-determined argument combinations are rejected (ValueError); the table
      itself is tied to the code by the generated-fact lemma of the check (G). *)
Theorem C02_invalid_rejected : forall a,
  ut_tspec_ok (is_some (u_data a)) (ut_pat a) = false -> ut_new a = TErr ValueError.
Proof. exact ut_invalid_rejected. Qed.
Theorem C02_series_invalid_rejected : forall a,
  s_time a = None -> s_unit a <> UArgBad ->
  ts_tspec_ok (is_some (s_si a), is_some (s_rate a), is_some (s_duration a)) = false ->
  ts_new a = TErr ValueError.
Proof. exact ts_invalid_rejected. Qed.
Theorem C02_bad_unit_rejected : forall a,
  u_data a = None -> u_unit a = UArgBad -> ut_tspec_ok false (ut_pat a) = true -> ut_new a = TErr ValueError.
Proof. exact ut_bad_unit_rejected. Qed.
(* the documented table: (interval, length) (interval, duration) (rate, length) (rate, duration)
   (length, duration); with an axis also nothing or any single one *)
Theorem C02_tspec_table_documented : forall d si r l du,
  ut_tspec_ok d (si, r, l, du) =
  (   (si && negb r && l && negb du) || (si && negb r && negb l && du)
   || (negb si && r && l && negb du) || (negb si && r && negb l && du)
   || (negb si && negb r && l && du)
   || (d && negb (si || r || l || du))
   || (d && (   (si && negb r && negb l && negb du) || (negb si && r && negb l && negb du)
             || (negb si && negb r && l && negb du) || (negb si && negb r && negb l && du)))).
Proof. intros [|] [|] [|] [|] [|]; reflexivity. Qed.
Print Assumptions C02_invalid_rejected.

(* 5. Rate -> interval.  Full claim: |interval - 10^12/rate| <= 1 ps.
      This statement (_partial, no guard, closed over the primitive floats only): the period is a
      NEAREST integer to the float64 value of (1/f)*10^12 (so within 1/2 ps of it).
      The missing part — how far that float64 value is from the real 10^12/f — is supplied by
      C02_rate_interval_bound (5b below) under the guard period < 2^50 ps, which gives the full claim
      there.  Above 2^50 ps the full claim is false for rates that came from an interval (refuted
      below), so the guard cannot be dropped. *)
Theorem C02_rate_interval_partial : forall f p,
  to_period f = TOk p ->
  exists m e, f2ze (PrimFloat.mul (PrimFloat.div one_f f) (freq_scale Ups)) = Some (m, e) /\ nearest p m e.
Proof. exact to_period_nearest. Qed.
Print Assumptions C02_rate_interval_partial.

(* 5b. The full claim under an explicit guard on the INPUT rate: for every finite rate f with
       10^12/2^50 < f <= 2^1000 Hz (i.e. a period below 2^50 ps; f2R is the exact real value of the float64,
       read through the same f2ze as everywhere else) the stored period is within 1 ps of the REAL 10^12/f.
       Proof (Proofs/RateBound.v): the two float64 operations (1/f, then *10^12) are two roundings to nearest
       with relative error <= 2^-53 each (Flocq: div_equiv/mul_equiv, Bdiv_correct/Bmult_correct,
       relative_error_N_FLT_ex), so the float64 product is within (3*2^-53)*2^50 = 3/8 ps of 10^12/f, and the
       rounding to an integer adds at most 1/2 ps.  Above 2^50 ps the claim fails (C02_rate_roundtrip_refuted);
       the proof itself would still go through up to about 2^51 ps.
       Uses Coq's Reals and Flocq: see Print Assumptions (classical real-number axioms and the standard
       library's primitive-float specification axioms; none declared by this development). *)
From Coq Require Import Reals.
From NT Require RateBound.
Theorem C02_rate_interval_bound : forall f p,
  ffinite f = true ->
  (10 ^ 12 / 2 ^ 50 < RateBound.f2R f <= 2 ^ 1000)%R ->
  to_period f = TOk p ->
  (Rabs (IZR p - 10 ^ 12 / RateBound.f2R f) < 1)%R.
Proof. exact RateBound.rate_interval_bound_pow. Qed.
Print Assumptions C02_rate_interval_bound.
(*     the guard is met by ordinary rates: 1000 Hz -> 10^9 ps, 3.3 Hz (0x1.a666666666666p+1) -> 303030303030 ps *)
Example C02_rate_interval_bound_1000Hz :
  ffinite 1000%float = true /\ (10 ^ 12 / 2 ^ 50 < RateBound.f2R 1000%float <= 2 ^ 1000)%R /\
  to_period 1000%float = TOk 1000000000.
Proof. exact RateBound.guard_example_1000. Qed.
Example C02_rate_interval_bound_3p3Hz :
  ffinite 0x1.a666666666666p+1%float = true /\
  (10 ^ 12 / 2 ^ 50 < RateBound.f2R 0x1.a666666666666p+1%float <= 2 ^ 1000)%R /\
  to_period 0x1.a666666666666p+1%float = TOk 303030303030.
Proof. exact RateBound.guard_example_3p3. Qed.

(* 6. REFUTED sub-claims; each witness is replayed on the implementation by the check. *)

(* length + duration: "exactly the requested number of samples" fails — the interval
   duration/length is rounded to whole picoseconds and the given duration is kept, so one more
   multiple can fit: duration 10 s, length 3 -> interval 3333333333333 ps -> 4 samples. *)
Definition w_len_dur := mk_ut_args None (Some 3) (Some (VInt 10)) None None None UArgNone.
Lemma w_len_dur_eval : match ut_new w_len_dur with TOk ax => (ax_n ax =? 4) && (ax_dt ax =? 3333333333333) | _ => false end = true.
Proof. vm_compute. reflexivity. Qed.
Theorem C02_length_duration_refuted : exists a ax,
  ut_new a = TOk ax /\ u_length a = Some 3 /\ u_data a = None /\ ax_n ax = 4.
Proof.
  pose proof w_len_dur_eval as H. exists w_len_dur.
  destruct (ut_new w_len_dur) as [ax| |]; try discriminate.
  exists ax. apply andb_prop in H as [H1 _]. apply Z.eqb_eq in H1. repeat split; assumption.
Qed.
Print Assumptions C02_length_duration_refuted.

(* interval -> rate -> interval does not return the interval above 2^50 ps: the float64 rate
   no longer determines the picosecond.  30140627534990390 ps -> rate -> 30140627534990388 ps. *)
Definition w_big_dt : Z := 30140627534990390.
Definition w_rate_of (dt : Z) : float :=
  match ut_new (mk_ut_args None (Some 2) None None (Some (VInt dt)) None (UArg Ups)) with
  | TOk ax => ax_rate ax | _ => 0%float end.
Lemma w_roundtrip_eval :
  (2 ^ 50 <? w_big_dt) &&
  match ut_new (mk_ut_args None (Some 2) None (Some (VFreq (w_rate_of w_big_dt))) None None (UArg Ups)) with
  | TOk ax => negb (ax_dt ax =? w_big_dt) && (ax_dt ax =? 30140627534990388)
  | _ => false end = true.
Proof. vm_compute. reflexivity. Qed.
Theorem C02_rate_roundtrip_refuted : exists dt ax,
  2 ^ 50 < dt /\
  ut_new (mk_ut_args None (Some 2) None (Some (VFreq (w_rate_of dt))) None None (UArg Ups)) = TOk ax /\
  ax_dt ax <> dt.
Proof.
  pose proof w_roundtrip_eval as H. apply andb_prop in H as [H0 H].
  exists w_big_dt.
  destruct (ut_new (mk_ut_args None (Some 2) None (Some (VFreq (w_rate_of w_big_dt))) None None (UArg Ups))) as [ax| |];
    try discriminate.
  exists ax. apply andb_prop in H as [H1 _]. apply Z.ltb_lt in H0.
  split; [exact H0|]. split; [reflexivity|]. intros E. rewrite E, Z.eqb_refl in H1. discriminate.
Qed.
Print Assumptions C02_rate_roundtrip_refuted.

(* a series given a duration next to an interval or rate: the duration attribute is the given one,
   not the extent of series.time (4 samples at 5 Hz, duration=10: 10 s reported, 0.8 s covered) *)
Definition w_series_dur := mk_ts_args 4 None None (Some (VInt 5)) (Some (VInt 10)) None (UArg Us).
Lemma w_series_dur_eval :
  match ts_new w_series_dur with
  | TOk s => match ts_time s with
             | TOk ax => (se_dur s =? 10000000000000) && (ax_n ax * ax_dt ax =? 800000000000) && (ax_n ax =? 4)
             | _ => false end
  | _ => false end = true.
Proof. vm_compute. reflexivity. Qed.
Theorem C02_series_duration_refuted : exists a s ax,
  ts_new a = TOk s /\ ts_time s = TOk ax /\ ax_n ax = s_len a /\ se_dur s <> ax_n ax * ax_dt ax.
Proof.
  pose proof w_series_dur_eval as H. exists w_series_dur.
  destruct (ts_new w_series_dur) as [s| |]; try discriminate. exists s.
  destruct (ts_time s) as [ax| |]; try discriminate. exists ax.
  apply andb_prop in H as [H H3]. apply andb_prop in H as [H1 H2].
  apply Z.eqb_eq in H1, H2, H3. split; [reflexivity|]. split; [reflexivity|].
  split; [exact H3|]. rewrite H1, H2. discriminate.
Qed.
Print Assumptions C02_series_duration_refuted.

(* 7. Non-vacuity and the formerly failing inputs (now fixed in /repo). *)
(* 2.2 min x 100: 100 samples, duration = 100 * 132000000000000 ps *)
Example C02_float_interval_times_length :
  match ut_new (mk_ut_args None (Some 100) None None (Some (VFlt 2.2%float)) None (UArg Um)) with
  | TOk ax => (ax_n ax =? 100) && (ax_dt ax =? 132000000000000) && (ax_dur ax =? 13200000000000000)
  | _ => false end = true.
Proof. vm_compute. reflexivity. Qed.
(* 0.81327 s -> rate -> interval: same interval *)
Example C02_rate_roundtrip_small :
  match ut_new (mk_ut_args None (Some 5) None (Some (VFreq (w_rate_of 813270000000))) None None (UArg Us)) with
  | TOk ax => (ax_dt ax =? 813270000000) && (ax_n ax =? 5)
  | _ => false end = true.
Proof. vm_compute. reflexivity. Qed.
(* a series built from a fractional interval in ms, t0 = -1.25 ms: time axis of the data length *)
Example C02_series_nonvacuous :
  match ts_new (mk_ts_args 7 (Some (VFlt (-1.25)%float)) (Some (VFlt 0.81327%float)) None None None (UArg Ums)) with
  | TOk s => match ts_time s with
             | TOk ax => (0 <? se_dt s) && (ax_n ax =? 7) && (ax_t0 ax =? -1250000000) && (ax_dt ax =? 813270000)
             | _ => false end
  | _ => false end = true.
Proof. vm_compute. reflexivity. Qed.
(* a whole-picosecond axis longer than 2^53 ps (np.arange's float length gave one sample more) *)
Example C02_long_axis :
  match ut_new (mk_ut_args None (Some 30453) None None (Some (VInt 62695324818303)) None (UArg Ups)) with
  | TOk ax => (ax_n ax =? 30453) && (2 ^ 53 <? ax_dur ax)
  | _ => false end = true.
Proof. vm_compute. reflexivity. Qed.
(* rebuilt from an axis: t0 kept, rate read in Hz *)
Example C02_from_axis :
  let d := mk_axis 5 3000000000 2000000000 10000000000 500%float Ums in
  match ut_new (mk_ut_args (Some d) None None None None None UArgNone),
        ut_new (mk_ut_args (Some d) None None (Some (VInt 5)) None None UArgNone) with
  | TOk a1, TOk a2 => (ax_t0 a1 =? 3000000000) && (ax_n a1 =? 5) && (ax_dt a1 =? 2000000000) &&
                      (ax_dt a2 =? 200000000000) && (ax_t0 a2 =? 3000000000)
  | _, _ => false end = true.
Proof. vm_compute. reflexivity. Qed.
