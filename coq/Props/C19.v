(* Props/C19.v — property C19: event-related estimators recover the true response of a noise-free
   linear system.  Statements only; proofs in Proofs/EventRelated*.v.

   Vocabulary (Model/EventRelated.v, Proofs/EventRelated*.v):
     synth_at resp ev len off t   the noise-free linear system: sum over the occurrences i (code ev[i] <> 0)
                                  of resp (ev[i]) (t - i - off), 0 <= t - i - off < len   (lag index k = lag off+k)
     inside ev len off            every response lies inside the series: i + off + len <= n for each event i
     separated ev len             two distinct events (of any type) are at least len samples apart
     pinv_contract pinv           the library oracle: for a non-singular square integer matrix G (one having a
                                  left inverse over Q), pinv G is square and (pinv G) G = I
     nonsingular n G              G (n x n) has a left inverse  — "the design is full rank": G = X^T X
     expected resp bc t k         resp t k, minus resp t 0 when correct_baseline is set
   Results are lists [channel][event type in sorted code order][lag index]; `==` is equality of rationals. *)
From Coq Require Import ZArith QArith List Bool Sorted.
From NT Require Import EventRelated EventRelatedBase EventRelatedDesign EventRelatedFir EventRelatedAvg
                       EventRelatedPad EventRelatedP.
Import ListNotations.
Open Scope Z_scope.

(* ---- results are ordered by sorted event code; exactly the non-zero codes appear, once each *)
Theorem C19_order_sorted_codes : forall ev,
  StronglySorted Z.lt (event_types ev) /\ NoDup (event_types ev) /\
  (forall c, In c (event_types ev) <-> In c ev /\ c <> 0).
Proof. exact order_sorted_codes. Qed.
Print Assumptions C19_order_sorted_codes.

(* ---- design_apply: X . h is the sum of the responses placed at the event onsets (positive codes; any number
        of types, any overlaps); with arbitrary codes every response enters with the sign of its code *)
Theorem C19_design_apply : forall ev len resp r,
  (0 < len)%nat -> (forall c, In c ev -> 0 <= c) ->
  (mv (design ev len) (design_cols ev len) (hvec (event_types ev) (Z.of_nat len) resp) r ==
   synth_at resp ev len 0 r)%Q.
Proof. exact design_apply. Qed.
Print Assumptions C19_design_apply.

Theorem C19_design_apply_signed : forall ev len resp r,
  (0 < len)%nat ->
  (mv (design ev len) (design_cols ev len) (hvec (event_types ev) (Z.of_nat len) resp) r ==
   synth_at (signed resp) ev len 0 r)%Q.
Proof. exact design_apply_signed. Qed.

(* ---- the algebraic core of FIR: for ANY design X and ANY h, if y = X h and X^T X is non-singular then
        pinv(X^T X) X^T y = h *)
Theorem C19_fir_recovery_core : forall pinv (X : mat) (rows cols : nat) (y : list Q) (h : Z -> Q),
  pinv_contract pinv -> length y = rows ->
  (forall r, 0 <= r < Z.of_nat rows -> (getQ y r == mv X cols h r)%Q) ->
  nonsingular cols (gramT (tabulateT X rows cols)) ->
  length (fir pinv y (tabulateT X rows cols)) = cols /\
  forall j, 0 <= j < Z.of_nat cols -> (getQ (fir pinv y (tabulateT X rows cols)) j == h j)%Q.
Proof. exact fir_recovery_core. Qed.
Print Assumptions C19_fir_recovery_core.

(* ---- fir_exact_recovery, end to end through EventRelatedAnalyzer.FIR (padding by offset/len_et, np.roll,
        fir_design_matrix, least squares, reshape by event type), 1-d data, positive codes, ANY overlaps:
        row bi of the result is the response of the bi-th sorted code *)
Theorem C19_fir_exact_recovery : forall pinv (y : list Q) ev (len b : nat) resp,
  pinv_contract pinv -> (0 < len)%nat -> length y = length ev ->
  (forall c, In c ev -> 0 <= c) ->
  inside ev len (Z.of_nat b) ->
  (forall t, 0 <= t < zlen ev -> (getQ y t == synth_at resp ev len (Z.of_nat b) t)%Q) ->
  (let evr := roll (pad 0 b len ev) (Z.of_nat b) in
   nonsingular (design_cols evr len) (gramT (tabulateT (design evr len) (length evr) (design_cols evr len)))) ->
  exists rows,
    FIR pinv [y] (Ev1 ev) len (Z.of_nat b) = Ok [rows] /\
    length rows = length (event_types ev) /\
    forall bi k, 0 <= bi < zlen (event_types ev) -> 0 <= k < Z.of_nat len ->
      (getQ (nth (Z.to_nat bi) rows []) k == resp (getZ (event_types ev) bi) k)%Q.
Proof. exact FIR_exact_1d. Qed.
Print Assumptions C19_fir_exact_recovery.

(* per channel (the analyzer maps this over the channels), any sign of the codes: the block of code t is
   sign(t) * response(t) *)
Theorem C19_fir_signed_recovery : forall pinv (y : list Q) ev (len b : nat) resp,
  pinv_contract pinv -> (0 < len)%nat -> length y = length ev ->
  inside ev len (Z.of_nat b) ->
  (forall t, 0 <= t < zlen ev -> (getQ y t == synth_at resp ev len (Z.of_nat b) t)%Q) ->
  (let evr := roll (pad 0 b len ev) (Z.of_nat b) in
   nonsingular (design_cols evr len) (gramT (tabulateT (design evr len) (length evr) (design_cols evr len)))) ->
  exists rows,
    fir_channel pinv len (Z.of_nat b) (pad 0%Q b len y, pad 0 b len ev) = Ok rows /\
    length rows = length (event_types ev) /\
    forall bi k, 0 <= bi < zlen (event_types ev) -> 0 <= k < Z.of_nat len ->
      (getQ (nth (Z.to_nat bi) rows []) k ==
       inject_Z (Z.sgn (getZ (event_types ev) bi)) * resp (getZ (event_types ev) bi) k)%Q.
Proof. exact fir_channel_signed. Qed.
Print Assumptions C19_fir_signed_recovery.

(* FULL-STRENGTH CLAIM (property text: "1..3 event types (including negative codes)" must recover the true
   response): C19_fir_exact_recovery without the hypothesis `forall c, In c ev -> 0 <= c`.
   The faithful model refutes it: a negative code enters the design with -1 entries (np.sign(t)), the
   estimate is the negated response.  Witness: events [0,-1,0,0,0,-1,0,0], len_et 2, response (3/2, 2).
   Known finding C19/FIR/negative-code. *)
Theorem C19_negative_code_refuted :
  exists pinv ev len resp y,
    (0 < len)%nat /\ inside ev len 0 /\ y = synth resp ev len 0 /\ event_types ev = [-1] /\
    (let evr := roll (pad 0 0 len ev) 0 in
     left_inverse (design_cols evr len) (Pf (pinv (gramT (tabulateT (design evr len) (length evr) (design_cols evr len)))))
                  (gramT (tabulateT (design evr len) (length evr) (design_cols evr len)))) /\
    exists r0 r1, FIR pinv [y] (Ev1 ev) len 0 = Ok [[[r0; r1]]] /\
      (r0 == - resp (-1)%Z 0%Z)%Q /\ (r1 == - resp (-1)%Z 1%Z)%Q /\ ~ (r0 == resp (-1)%Z 0%Z)%Q.
Proof. exact negative_code_refuted. Qed.
Print Assumptions C19_negative_code_refuted.

(* ---- eta_exact / ets_zero, event-coded series (per channel; codes of any sign): separated events with
        responses inside the series: the average over the occurrences of a type is the planted response
        (minus its first sample under correct_baseline); the standard error of every type that occurs at
        least twice is exactly 0 (the model carries the squared standard error; with a single occurrence
        scipy's sem is nan — the model's None, lemma ets_of_single) *)
Theorem C19_eta_exact : forall resp ev (y : list Q) (len b : nat) bc,
  (0 < len)%nat -> length y = length ev -> separated ev len -> inside ev len (Z.of_nat b) ->
  (forall t, 0 <= t < zlen ev -> (getQ y t == synth_at resp ev len (Z.of_nat b) t)%Q) ->
  exists rows,
    per_type (fun s => eta_of s len) bc len (Z.of_nat b) (pad 0%Q b len y, pad 0 b len ev) = Ok rows /\
    length rows = length (event_types ev) /\
    forall bi k, 0 <= bi < zlen (event_types ev) -> 0 <= k < Z.of_nat len ->
      (getQ (nth (Z.to_nat bi) rows []) k == expected resp bc (getZ (event_types ev) bi) k)%Q.
Proof. exact eta_channel_exact. Qed.
Print Assumptions C19_eta_exact.

Theorem C19_ets_zero : forall resp ev (y : list Q) (len b : nat) bc,
  (0 < len)%nat -> length y = length ev -> separated ev len -> inside ev len (Z.of_nat b) ->
  (forall t, 0 <= t < zlen ev -> (getQ y t == synth_at resp ev len (Z.of_nat b) t)%Q) ->
  exists rows,
    per_type (fun s => ets_of s len) bc len (Z.of_nat b) (pad 0%Q b len y, pad 0 b len ev) = Ok rows /\
    length rows = length (event_types ev) /\
    forall bi k, 0 <= bi < zlen (event_types ev) -> 0 <= k < Z.of_nat len ->
      (2 <= length (positions ev (getZ (event_types ev) bi)))%nat ->
      exists v, nth (Z.to_nat k) (nth (Z.to_nat bi) rows []) None = Some v /\ (v == 0)%Q.
Proof. exact ets_channel_zero. Qed.
Print Assumptions C19_ets_zero.

(* the analyzer's eta / ets on 1-d input are exactly that per-channel computation *)
Theorem C19_eta_ts_1d : forall y ev len (b : nat) bc zs,
  eta_ts [y] (Ev1 ev) len (Z.of_nat b) bc zs =
  rbind (per_type (fun s => eta_of s len) bc len (Z.of_nat b) (pad 0%Q b len y, pad 0 b len ev)) (fun r => Ok [r]).
Proof. exact eta_ts_1d. Qed.
Theorem C19_ets_ts_1d : forall y ev len (b : nat) bc zs,
  ets_ts [y] (Ev1 ev) len (Z.of_nat b) bc zs =
  rbind (per_type (fun s => ets_of s len) bc len (Z.of_nat b) (pad 0%Q b len y, pad 0 b len ev)) (fun r => Ok [r]).
Proof. exact ets_ts_1d. Qed.

(* ---- the same for a list of event times (offset of either sign; the data are not padded there) *)
Theorem C19_eta_events_exact : forall resp ev (y : list Q) len offset bc zs times dt c,
  (0 < len)%nat -> length y = length ev -> separated ev len -> inside_z ev len offset ->
  (forall t, 0 <= t < zlen ev -> (getQ y t == synth_at resp ev len offset t)%Q) ->
  c <> 0 ->
  (forall tm, In tm times -> 0 <= ev_idx dt tm < zlen ev /\ getZ ev (ev_idx dt tm) = c) ->
  times <> [] ->
  exists row, eta_events [y] times dt len offset bc zs = Ok [row] /\ length row = len /\
    forall k, 0 <= k < Z.of_nat len -> (getQ row k == expected resp bc c k)%Q.
Proof. exact eta_events_exact. Qed.
Print Assumptions C19_eta_events_exact.

Theorem C19_ets_events_zero : forall resp ev (y : list Q) len offset bc zs times dt c,
  (0 < len)%nat -> length y = length ev -> separated ev len -> inside_z ev len offset ->
  (forall t, 0 <= t < zlen ev -> (getQ y t == synth_at resp ev len offset t)%Q) ->
  c <> 0 ->
  (forall tm, In tm times -> 0 <= ev_idx dt tm < zlen ev /\ getZ ev (ev_idx dt tm) = c) ->
  (2 <= length times)%nat ->
  exists row, ets_events [y] times dt len offset bc zs = Ok [row] /\ length row = len /\
    forall k, 0 <= k < Z.of_nat len -> exists v, nth (Z.to_nat k) row None = Some v /\ (v == 0)%Q.
Proof. exact ets_events_zero. Qed.

(* ---- events_repr_equiv: event times that are whole multiples of the sampling interval give the sample
        indices of the coded series, and then eta and ets are IDENTICAL for the two representations, for any
        data and both flags (after the fix: commit 3fa97a5) *)
Theorem C19_event_time_index : forall dt i l, 0 < dt ->
  ev_idx dt (i * dt) = i /\ map (ev_idx dt) (map (fun i => i * dt) l) = l.
Proof. intros dt i l H. split; [apply ev_idx_multiple|apply ev_idx_multiples]; exact H. Qed.
Theorem C19_event_time_bin : forall dt i t, 0 < dt -> 0 <= i -> i * dt <= t < (i + 1) * dt -> ev_idx dt t = i.
Proof. exact ev_idx_bin. Qed.

Theorem C19_events_repr_equiv : forall (y : list Q) ev len (b : nat) bc zs times dt c,
  (0 < len)%nat -> c <> 0 -> event_types ev = [c] -> map (ev_idx dt) times = positions ev c ->
  length y = length ev -> inside ev len (Z.of_nat b) ->
  (exists row, eta_ts [y] (Ev1 ev) len (Z.of_nat b) bc zs = Ok [[row]] /\
               eta_events [y] times dt len (Z.of_nat b) bc zs = Ok [row]) /\
  (exists row, ets_ts [y] (Ev1 ev) len (Z.of_nat b) bc zs = Ok [[row]] /\
               ets_events [y] times dt len (Z.of_nat b) bc zs = Ok [row]).
Proof. exact events_repr_equiv. Qed.
Print Assumptions C19_events_repr_equiv.

(* ---- linear_in_data (per channel: every channel is computed from its own data only, by `map`) *)
Theorem C19_fir_linear : forall pinv XT a b (y y1 y2 : list Q),
  length y = length y1 -> length y = length y2 -> lincomb a b y y1 y2 ->
  forall j, (getQ (fir pinv y XT) j == a * getQ (fir pinv y1 XT) j + b * getQ (fir pinv y2 XT) j)%Q.
Proof. exact fir_linear. Qed.
Print Assumptions C19_fir_linear.

Theorem C19_eta_linear : forall a b y y1 y2 len bc starts k,
  (0 < len)%nat -> lincomb a b y y1 y2 -> 0 <= k < Z.of_nat len ->
  (getQ (eta_of (apply_baseline bc (map (seg_fun y len) starts)) len) k ==
   a * getQ (eta_of (apply_baseline bc (map (seg_fun y1 len) starts)) len) k +
   b * getQ (eta_of (apply_baseline bc (map (seg_fun y2 len) starts)) len) k)%Q.
Proof. exact eta_of_linear. Qed.

Theorem C19_eta_events_linear : forall a b y y1 y2 len offset bc zs times dt,
  (0 < len)%nat -> lincomb a b y y1 y2 -> length y = length y1 -> length y = length y2 ->
  (forall tm, In tm times -> 0 <= ev_idx dt tm + offset /\ ev_idx dt tm + offset + Z.of_nat len <= zlen y) ->
  exists r r1 r2,
    eta_events [y] times dt len offset bc zs = Ok [r] /\
    eta_events [y1] times dt len offset bc zs = Ok [r1] /\
    eta_events [y2] times dt len offset bc zs = Ok [r2] /\
    forall k, 0 <= k < Z.of_nat len -> (getQ r k == a * getQ r1 k + b * getQ r2 k)%Q.
Proof. exact eta_events_linear. Qed.
Print Assumptions C19_eta_events_linear.

(* scaling of the data by any factor a (in particular an exact power of two, the re-run of every oracle case):
   FIR and eta scale by a, for every design / placement; special case b = 0 of linearity *)
Theorem C19_fir_scale : forall pinv XT a (y y1 : list Q),
  length y = length y1 -> scaled a y y1 ->
  forall j, (getQ (fir pinv y XT) j == a * getQ (fir pinv y1 XT) j)%Q.
Proof. exact fir_scale. Qed.
Theorem C19_eta_scale : forall a y y1 len bc starts k,
  (0 < len)%nat -> scaled a y y1 -> 0 <= k < Z.of_nat len ->
  (getQ (eta_of (apply_baseline bc (map (seg_fun y len) starts)) len) k ==
   a * getQ (eta_of (apply_baseline bc (map (seg_fun y1 len) starts)) len) k)%Q.
Proof. exact eta_scale. Qed.
Print Assumptions C19_fir_scale.

(* per channel: with multi-channel data and one coded series, channel i of FIR / eta / ets is the
   single-channel computation on data[i] (so all the statements above hold channel by channel) *)
Theorem C19_FIR_per_channel : forall pinv data ev len (b n : nat) rows,
  Forall2 (fun y r => fir_channel pinv len (Z.of_nat b) (pad 0%Q b len y, pad 0 b len ev) = Ok r /\ length r = n)
          data rows ->
  FIR pinv data (Ev1 ev) len (Z.of_nat b) = Ok rows.
Proof. exact FIR_per_channel. Qed.
Theorem C19_eta_per_channel : forall data ev len (b n : nat) bc zs rows,
  Forall2 (fun y r => per_type (fun s => eta_of s len) bc len (Z.of_nat b) (pad 0%Q b len y, pad 0 b len ev) = Ok r
                      /\ length r = n) data rows ->
  eta_ts data (Ev1 ev) len (Z.of_nat b) bc zs = Ok rows.
Proof. exact eta_per_channel. Qed.
Theorem C19_ets_per_channel : forall data ev len (b n : nat) bc zs rows,
  Forall2 (fun y r => per_type (fun s => ets_of s len) bc len (Z.of_nat b) (pad 0%Q b len y, pad 0 b len ev) = Ok r
                      /\ length r = n) data rows ->
  ets_ts data (Ev1 ev) len (Z.of_nat b) bc zs = Ok rows.
Proof. exact ets_per_channel. Qed.
Print Assumptions C19_FIR_per_channel.

(* ---- axis_offset and flags *)
Theorem C19_axis_offset : forall offset dt, out_t0 offset dt = offset * dt /\ out_dt dt = dt /\ out_t0 0 dt = 0.
Proof. exact axis_offset. Qed.
Theorem C19_zscore_irrelevant : forall data ev len offset bc times dt,
  eta_ts data ev len offset bc true = eta_ts data ev len offset bc false /\
  ets_ts data ev len offset bc true = ets_ts data ev len offset bc false /\
  eta_events data times dt len offset bc true = eta_events data times dt len offset bc false /\
  ets_events data times dt len offset bc true = ets_events data times dt len offset bc false.
Proof. exact zscore_irrelevant. Qed.
Theorem C19_negative_offset_coded : forall pinv data ev len offset bc zs, offset < 0 ->
  FIR pinv data ev len offset = Err ValueError /\ eta_ts data ev len offset bc zs = Err ValueError /\
  ets_ts data ev len offset bc zs = Err ValueError.
Proof. exact negative_offset_coded. Qed.

(* ==================================================================== non-vacuity *)
(* FIR: two event types, OVERLAPPING responses (events at bins 0 and 1, len 2), offset 1; the Gram matrix of
   the rolled design has the explicit inverse ex_B, so `nonsingular` holds; data = the planted system *)
Example C19_ex_fir_hypotheses_met :
  let ev := ex_fir_ev in let len := 2%nat in let b := 1%nat in
  (forall c, In c ev -> 0 <= c) /\ inside ev len (Z.of_nat b) /\
  length (synth ex_resp ev len (Z.of_nat b)) = length ev /\
  (forall t, 0 <= t < zlen ev ->
     (getQ (synth ex_resp ev len (Z.of_nat b)) t == synth_at ex_resp ev len (Z.of_nat b) t)%Q) /\
  (let evr := roll (pad 0 b len ev) (Z.of_nat b) in
   nonsingular (design_cols evr len) (gramT (tabulateT (design evr len) (length evr) (design_cols evr len)))) /\
  event_types ev = [1; 2].
Proof. exact ex_fir_hypotheses. Qed.

(* eta / ets: three separated events of two types (one of them negative), offset 1, type 1 occurs twice *)
Example C19_ex_eta_hypotheses_met :
  let ev := ex_eta_ev in let len := 3%nat in let b := 1%nat in
  separated ev len /\ inside ev len (Z.of_nat b) /\
  length (synth ex_resp ev len (Z.of_nat b)) = length ev /\
  (forall t, 0 <= t < zlen ev ->
     (getQ (synth ex_resp ev len (Z.of_nat b)) t == synth_at ex_resp ev len (Z.of_nat b) t)%Q) /\
  event_types ev = [-2; 1] /\ (2 <= length (positions ev 1))%nat.
Proof. exact ex_eta_hypotheses. Qed.

(* event times with a NEGATIVE offset, and the equivalence of the two representations *)
Example C19_ex_events_hypotheses_met :
  let ev := ex_evt_ev in let len := 3%nat in let dt := 2000000000000 in
  separated ev len /\ inside_z ev len (-1) /\
  (forall tm, In tm [1 * dt; 7 * dt] -> 0 <= ev_idx dt tm < zlen ev /\ getZ ev (ev_idx dt tm) = 1) /\
  (let ev1 := ex_one_ev in
   event_types ev1 = [1] /\ map (ev_idx dt) [1 * dt; 5 * dt] = positions ev1 1 /\ inside ev1 len 1).
Proof. exact ex_events_hypotheses. Qed.
