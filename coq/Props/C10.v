(* Props/C10.v — property C10: autoregressive estimates solve the Yule-Walker equations of the data.
   Statements only; proofs in Proofs/ARP.v, model in Model/AR.v.  R is the autocorrelation sequence
   the estimators work from (supplied, or utils.autocorr(x) — its correctness is property C20);
   all statements hold for every order and every complex sequence R meeting the stated guards. *)
From Coq Require Import QArith Qcanon List Bool Arith Lia Psatz Lqa.
From NT Require Import QC Sums AR ARP ARGram ARStab.
Import ListNotations.
Open Scope Q_scope.

(* Levinson-Durbin, exactly as the loop is written, returns for EVERY order a solution of the
   Hermitian Toeplitz normal equations  sum_j T[i,j] a_j = R_{i+1},  T = toeplitz(R[:order]).
   Guards: R_0 real (the code reads rxx[0].real) and the prediction errors of the lower orders are
   non-zero (the code divides by them). *)
Theorem C10_LD_solves_YW : forall R order,
  (1 <= order < length R)%nat -> im (nthC R 0) == 0 ->
  (forall q, (q < order)%nat -> ~ ld_err R q == 0) ->
  length (fst (AR_est_LD R order)) = order /\
  forall i, (i < order)%nat ->
    matvec order (toep (firstn order R)) (fst (AR_est_LD R order)) i =c= nthC R (S i).
Proof. exact LD_solves_YW. Qed.
Print Assumptions C10_LD_solves_YW.

(* the reported innovation variance is R(0) - sum a_k conj(R(k)) ... *)
Theorem C10_LD_sigma : forall R order,
  (1 <= order < length R)%nat -> im (nthC R 0) == 0 ->
  (forall q, (q < order)%nat -> ~ ld_err R q == 0) ->
  ofQ (snd (AR_est_LD R order)) =c=
  csub (nthC R 0) (csumn (fun j => cmul (nthC (fst (AR_est_LD R order)) j) (cconj (nthC R (S j)))) order).
Proof. exact LD_sigma. Qed.
Print Assumptions C10_LD_sigma.

(* ... and b_p = b_{p-1} (1 - |k_p|^2) with k_p the last coefficient of the order-p model *)
Theorem C10_LD_sigma_step : forall R q,
  snd (AR_est_LD R (S q)) == ld_err R q * (1 - cnorm2 (nthC (fst (AR_est_LD R (S q))) q)).
Proof. exact LD_sigma_step. Qed.
Print Assumptions C10_LD_sigma_step.

(* positive innovation variance when R_0 > 0 and every reflection coefficient has modulus < 1 *)
Theorem C10_sigma_pos : forall R order,
  (1 <= order)%nat -> 0 < re (nthC R 0) ->
  (forall q, (1 <= q <= order)%nat -> cnorm2 (nthC (fst (AR_est_LD R q)) (q - 1)) < 1) ->
  0 < snd (AR_est_LD R order).
Proof. exact sigma_pos. Qed.
Print Assumptions C10_sigma_pos.

(* positive definite Toeplitz forms (what a biased autocorrelation estimate of a non-zero signal has)
   give a positive innovation variance and reflection coefficients of modulus < 1, for every order:
   the error filter c = (1, -a_1, .., -a_p) has  c^H T c = b_p *)
Theorem C10_sigma_pos_of_pd : forall R order,
  (1 <= order < length R)%nat -> im (nthC R 0) == 0 ->
  (forall m, (1 <= m <= S order)%nat -> pos_def (Rf R) m) ->
  0 < snd (AR_est_LD R order) /\
  forall q, (1 <= q <= order)%nat -> cnorm2 (nthC (fst (AR_est_LD R q)) (q - 1)) < 1.
Proof. exact sigma_pos_of_pd. Qed.
Print Assumptions C10_sigma_pos_of_pd.

(* The biased autocorrelation estimate the code uses, R(k) = (1/N) sum_{t=0}^{N-1-k} x[t+k] conj(x[t])
   (utils.autocorr: crosscov conjugates its second argument, no debias, divided by N; `autocorr_lag`, tied to
   the implementation on every run by the KAC cases), turns the Hermitian Toeplitz form into a Gram form:
   N * c^H T c = sum_t |w_t|^2 with w_t = sum_j c_j conj(y[t-p+j]) for the zero-padded signal y.
   Every signal length, every order, every complex c. *)
Theorem C10_gram_identity : forall (x : list C) c p,
  (0 < length x)%nat ->
  let R := Rd (nthC x) (length x) in
  (forall k, autocorr_lag x k =c= R k) /\
  cscale (NQ (length x)) (hform R c (S p)) =c=
    ofQ (sumn (fun t => cnorm2 (wv (nthC x) c p t)) (length x + p)) /\
  0 <= re (hform R c (S p)) /\ im (hform R c (S p)) == 0.
Proof.
  intros x c p HN R. split; [intros k; apply autocorr_lag_Rd|]. split.
  - apply hform_real; [exact HN|apply pad_nthC].
  - apply gram_psd; [exact HN|apply pad_nthC].
Qed.
Print Assumptions C10_gram_identity.

(* ... strictly positive for a non-zero signal on every c with a non-zero entry (j0 = its lowest one) *)
Theorem C10_gram_positive_definite : forall (x : list C) c p j0,
  (exists t, (t < length x)%nat /\ ~ nthC x t =c= c0) ->
  (j0 <= p)%nat -> ~ c j0 =c= c0 -> (forall j, (j < j0)%nat -> c j =c= c0) ->
  0 < re (hform (Rd (nthC x) (length x)) c (S p)).
Proof.
  intros x c p j0 Hx. apply gram_pd; [|apply pad_nthC|exact Hx].
  destruct Hx as (t & Ht & _). lia.
Qed.
Print Assumptions C10_gram_positive_definite.

(* hence, for EVERY non-zero signal and every order < N, the sequence the estimators compute from the
   data has a real R_0, strictly positive prediction errors of all orders (the guards of
   C10_LD_solves_YW / C10_LD_sigma hold: no division by zero in the loop), a positive reported
   innovation variance and reflection coefficients of modulus < 1 *)
Theorem C10_sigma_pos_data : forall x order,
  (1 <= order < length x)%nat -> (exists t, (t < length x)%nat /\ ~ nthC x t =c= c0) ->
  let R := autocorr_seq x (S order) in
  (1 <= order < length R)%nat /\ im (nthC R 0) == 0 /\
  (forall q, (q <= order)%nat -> 0 < ld_err R q) /\
  (forall q, (q < order)%nat -> ~ ld_err R q == 0) /\
  0 < snd (AR_est_LD R order) /\
  (forall q, (1 <= q <= order)%nat -> cnorm2 (nthC (fst (AR_est_LD R q)) (q - 1)) < 1).
Proof. exact sigma_pos_data. Qed.
Print Assumptions C10_sigma_pos_data.

(* so for data-derived sequences the normal equations hold unconditionally *)
Theorem C10_LD_solves_YW_data : forall x order,
  (1 <= order < length x)%nat -> (exists t, (t < length x)%nat /\ ~ nthC x t =c= c0) ->
  let R := autocorr_seq x (S order) in
  length (fst (AR_est_LD R order)) = order /\
  (forall i, (i < order)%nat ->
     matvec order (toep (firstn order R)) (fst (AR_est_LD R order)) i =c= nthC R (S i)) /\
  ofQ (snd (AR_est_LD R order)) =c=
    csub (nthC R 0) (csumn (fun j => cmul (nthC (fst (AR_est_LD R order)) j) (cconj (nthC R (S j)))) order) /\
  0 < snd (AR_est_LD R order).
Proof.
  intros x order Ho Hx R.
  destruct (sigma_pos_data x order Ho Hx) as (L & H0 & _ & G & P & _). fold R in L, H0, G, P.
  destruct (LD_solves_YW R order L H0 G) as [Len Sv].
  split; [exact Len|]. split; [exact Sv|]. split; [apply LD_sigma; assumption|exact P].
Qed.
Print Assumptions C10_LD_solves_YW_data.

(* STABILITY.  For EVERY ordered extension E of Q (OrdExt: an ordered commutative ring containing Q —
   every ordered field is one: the real algebraic numbers, any real closed field, Coq's R; E[i] = E * E
   then contains all roots of the fitted polynomial) and every z0 in E[i]:
     - a root of z^p - sum a_k z^(p-k) (the polynomial np.roots(r_[1, -ak]) factors) has |z0|^2 < 1,
     - a root of 1 - sum a_k z^k (the denominator AR_psd evaluates at z = e^{-jw}) has |z0|^2 > 1,
   i.e. all poles of the fitted transfer function lie strictly inside the unit circle.
   Guards: R_0 real and the prediction errors of all orders <= p positive (equivalently R_0 > 0 and
   |k_q| < 1, C10_sigma_pos / C10_LD_sigma_step).  Elementary algebraic proof (Proofs/ARStab.v): T is
   positive definite over E[i] by induction on its size through the error filters, and dividing the
   coefficient vector by the linear factor gives sigma = (1 - |z0|^2) b^H T' b. *)
Theorem C10_stable : forall (E : OrdExt) (R : list C) (order : nat),
  (1 <= order < length R)%nat -> im (nthC R 0) == 0 ->
  (forall q, (q <= order)%nat -> 0 < ld_err R q) ->
  forall z0 : ext_C E,
    (ext_peval E (rev (map (ext_embed E) (den_coefs (fst (AR_est_LD R order))))) z0 = ext_zero E ->
       olt E (ext_norm2 E z0) (o1 E)) /\
    (ext_peval E (map (ext_embed E) (den_coefs (fst (AR_est_LD R order)))) z0 = ext_zero E ->
       olt E (o1 E) (ext_norm2 E z0)).
Proof. exact AR_stable. Qed.
Print Assumptions C10_stable.

(* ... and for data no guard is left: every non-zero signal, every order < N, the biased
   autocorrelation estimate the code computes (Gram identity => positive prediction errors) *)
Theorem C10_stable_data : forall (E : OrdExt) (x : list C) (order : nat),
  (1 <= order < length x)%nat -> (exists t, (t < length x)%nat /\ ~ nthC x t =c= c0) ->
  let ak := fst (AR_est_LD (autocorr_seq x (S order)) order) in
  forall z0 : ext_C E,
    (ext_peval E (rev (map (ext_embed E) (den_coefs ak))) z0 = ext_zero E -> olt E (ext_norm2 E z0) (o1 E)) /\
    (ext_peval E (map (ext_embed E) (den_coefs ak)) z0 = ext_zero E -> olt E (o1 E) (ext_norm2 E z0)).
Proof. exact AR_stable_data. Qed.
Print Assumptions C10_stable_data.

(* Formerly PARTIAL — the statement "for any real or complex signal the reported innovation variance is
   positive and the fitted model is stable" is now proved in full for the model: positivity and
   |k_q| < 1 by C10_sigma_pos_data (Gram identity), stability by C10_stable_data / C10_stable (roots in
   any ordered extension of Q, so in particular all complex roots, read in a real closed field).
   What remains outside the proof is only what is outside every C10 theorem: the tie of the model to
   the code (K cases) and float64 rounding; root moduli are still checked numerically per input by the
   oracle.  The all-zero signal is excluded (R_0 = 0, the code divides by it).  The theorem below is
   kept under its old name: positivity from |k_q| < 1 for supplied sequences. *)
Theorem C10_positive_stable_partial : forall R order,
  (1 <= order)%nat -> 0 < re (nthC R 0) ->
  (forall q, (1 <= q <= order)%nat -> cnorm2 (nthC (fst (AR_est_LD R q)) (q - 1)) < 1) ->
  0 < snd (AR_est_LD R order).
Proof. exact sigma_pos. Qed.

(* AR_est_YW: what scipy.linalg.solve returned solves the Toeplitz system (its contract, a Section
   hypothesis on the one call made) -> AR_est_YW's coefficients satisfy the normal equations *)
Theorem C10_YW_solves : forall solve R order,
  solves order (toep (firstn order R)) (tl (firstn (order + 1) R))
         (solve order (toep (firstn order (firstn (order + 1) R))) (tl (firstn (order + 1) R))) ->
  (1 <= order < length R)%nat ->
  length (fst (AR_est_YW solve R order)) = order /\
  forall i, (i < order)%nat ->
    matvec order (toep (firstn order R)) (fst (AR_est_YW solve R order)) i =c= nthC R (S i).
Proof. exact YW_solves. Qed.
Print Assumptions C10_YW_solves.

(* the two estimators return the same coefficients and the same innovation variance when the
   system is non-singular *)
Theorem C10_YW_eq_LD : forall solve R order,
  solves order (toep (firstn order R)) (tl (firstn (order + 1) R))
         (solve order (toep (firstn order (firstn (order + 1) R))) (tl (firstn (order + 1) R))) ->
  (1 <= order < length R)%nat -> im (nthC R 0) == 0 ->
  (forall q, (q < order)%nat -> ~ ld_err R q == 0) ->
  nonsingular order (toep (firstn order R)) ->
  (forall j, (j < order)%nat ->
     nthC (fst (AR_est_YW solve R order)) j =c= nthC (fst (AR_est_LD R order)) j) /\
  snd (AR_est_YW solve R order) == snd (AR_est_LD R order).
Proof. exact YW_eq_LD. Qed.
Print Assumptions C10_YW_eq_LD.

(* given the exact autocovariance of an AR process with coefficients alpha (R obeys alpha's
   Yule-Walker equations), both estimators recover alpha and its innovation variance *)
Theorem C10_exact_recovery : forall solve R order,
  solves order (toep (firstn order R)) (tl (firstn (order + 1) R))
         (solve order (toep (firstn order (firstn (order + 1) R))) (tl (firstn (order + 1) R))) ->
  forall alpha,
  (1 <= order < length R)%nat -> im (nthC R 0) == 0 ->
  (forall q, (q < order)%nat -> ~ ld_err R q == 0) ->
  nonsingular order (toep (firstn order R)) ->
  length alpha = order ->
  (forall i, (i < order)%nat -> matvec order (toep (firstn order R)) alpha i =c= nthC R (S i)) ->
  (forall j, (j < order)%nat -> nthC (fst (AR_est_LD R order)) j =c= nthC alpha j /\
                                nthC (fst (AR_est_YW solve R order)) j =c= nthC alpha j) /\
  ofQ (snd (AR_est_LD R order)) =c=
    csub (nthC R 0) (csumn (fun j => cmul (nthC alpha j) (cconj (nthC R (S j)))) order).
Proof. exact exact_recovery. Qed.
Print Assumptions C10_exact_recovery.

(* the model spectrum is sigma^2 / |1 - sum_k a_k z^k|^2 at z = e^{-jw}, doubled when one-sided *)
Theorem C10_AR_psd_formula : forall s sigma ak onesided z,
  s * s == sigma -> ~ cnorm2 (ar_den ak z) == 0 ->
  AR_psd_pt s ak onesided z == (if onesided then 2 else 1) * (sigma / cnorm2 (ar_den ak z)) /\
  ar_den ak z =c= csub c1 (csumn (fun k => cmul (nthC ak k) (cpow z (S k))) (length ak)).
Proof. intros. split; [apply AR_psd_formula; assumption|apply ar_den_formula]. Qed.
Print Assumptions C10_AR_psd_formula.

(* size of the returned grid for both parities of n_freqs and both sides options *)
Theorem C10_grid_sizes : forall s ak os zs n,
  length (AR_psd s ak os zs) = length zs /\
  real_n (2 * n) true = S n /\ real_n (2 * n + 1) true = S n /\
  real_n (2 * n) false = (2 * n)%nat /\ real_n (2 * n + 1) false = (2 * n + 1)%nat.
Proof. intros. split; [apply AR_psd_length|apply real_n_parity]. Qed.

(* the simulator: given lfilter's contract on the call made, the returned (u, v) obey
   u[n] = sum_k coefs[k] u[n-1-k] + sqrt(sigma) v[n]  for every n >= len(coefs) (and for every n,
   with zero history, when no transients are dropped) *)
Theorem C10_ar_generator_recursion : forall lfilter s coefs drop v,
  lfilter_contract (ar_gen_b s) (ar_gen_a coefs) v (lfilter (ar_gen_b s) (ar_gen_a coefs) v) ->
  let u := fst (fst (ar_generator lfilter s coefs drop v)) in
  let v' := snd (fst (ar_generator lfilter s coefs drop v)) in
  snd (ar_generator lfilter s coefs drop v) = coefs /\ v' = skipn drop v /\
  length u = (length v - drop)%nat /\ length v' = (length v - drop)%nat /\
  forall n, (n < length u)%nat -> (length coefs <= n)%nat \/ drop = 0%nat ->
    nthC u n =c= cadd (cscale s (nthC v' n))
                      (csumn (fun k => cmul (nthC coefs k) (hist u n (S k))) (length coefs)).
Proof. exact ar_generator_recursion. Qed.
Print Assumptions C10_ar_generator_recursion.

(* ------------------------------------------------------------------ non-vacuity *)
(* a complex autocorrelation sequence, order 3 *)
(* the (unnormalised) autocorrelation of x = [1, (1+i)/2, -i/2, 1/4, -1/3+i/5] *)
Definition exR : list C := [(7069#3600, 0); (1#6, 17#40); (1#40, -19#24); (11#60, 4#15); (-1#3, 1#5)].
Lemma exR_err0 : Qeq_bool (ld_err exR 0) 0 = false. Proof. vm_compute. reflexivity. Qed.
Lemma exR_err1 : Qeq_bool (ld_err exR 1) 0 = false. Proof. vm_compute. reflexivity. Qed.
Lemma exR_err2 : Qeq_bool (ld_err exR 2) 0 = false. Proof. vm_compute. reflexivity. Qed.
Lemma exR_k1 : Qle_bool 1 (cnorm2 (nthC (fst (AR_est_LD exR 1)) 0)) = false. Proof. vm_compute. reflexivity. Qed.
Lemma exR_k2 : Qle_bool 1 (cnorm2 (nthC (fst (AR_est_LD exR 2)) 1)) = false. Proof. vm_compute. reflexivity. Qed.
Lemma exR_k3 : Qle_bool 1 (cnorm2 (nthC (fst (AR_est_LD exR 3)) 2)) = false. Proof. vm_compute. reflexivity. Qed.
Lemma Qeq_bool_false_neq x y : Qeq_bool x y = false -> ~ x == y.
Proof. intros H E. apply Qeq_bool_iff in E. congruence. Qed.
Lemma Qle_bool_false_lt x y : Qle_bool x y = false -> y < x.
Proof. intros H. apply Qnot_le_lt. intro L. apply Qle_bool_iff in L. congruence. Qed.

Example C10_LD_hypotheses_met :
  (1 <= 3 < length exR)%nat /\ im (nthC exR 0) == 0 /\
  (forall q, (q < 3)%nat -> ~ ld_err exR q == 0) /\ 0 < re (nthC exR 0) /\
  (forall q, (1 <= q <= 3)%nat -> cnorm2 (nthC (fst (AR_est_LD exR q)) (q - 1)) < 1) /\
  ~ im (nthC exR 1) == 0.
Proof.
  split; [simpl; lia|]. split; [reflexivity|]. split; [|split; [reflexivity|split]].
  - intros q Hq. destruct q as [|[|[|q]]]; try lia; apply Qeq_bool_false_neq;
      [exact exR_err0|exact exR_err1|exact exR_err2].
  - intros q Hq. destruct q as [|[|[|[|q]]]]; try lia; apply Qle_bool_false_lt;
      [exact exR_k1|exact exR_k2|exact exR_k3].
  - intro E. vm_compute in E. discriminate.
Qed.

(* a non-singular order-2 system (concrete complex Toeplitz matrix), the contract of solve met by the
   exact solution, and R the exact autocovariance of alpha = LD's own output *)
Definition exT := toep (firstn 2 exR).
Lemma exT_nonsingular : nonsingular 2 exT.
Proof.
  intros x y Lx Ly H j Hj.
  destruct x as [|[x0r x0i] [|[x1r x1i] [|? ?]]]; try discriminate.
  destruct y as [|[y0r y0i] [|[y1r y1i] [|? ?]]]; try discriminate.
  pose proof (H 0%nat ltac:(lia)) as [A1 A2]. pose proof (H 1%nat ltac:(lia)) as [B1 B2].
  unfold matvec, exT, toep, exR, nthC, cmul, cadd, cconj, c0, re, im in *. simpl in *.
  destruct j as [|[|j]]; try lia; split; unfold re, im; simpl; lra.
Qed.

Definition ex_solve (n : nat) (T : nat -> nat -> C) (y : list C) : list C := fst (AR_est_LD exR 2).
Example C10_YW_hypotheses_met :
  solves 2 (toep (firstn 2 exR)) (tl (firstn (2 + 1) exR))
         (ex_solve 2 (toep (firstn 2 (firstn (2 + 1) exR))) (tl (firstn (2 + 1) exR))) /\
  nonsingular 2 (toep (firstn 2 exR)) /\
  (forall q, (q < 2)%nat -> ~ ld_err exR q == 0).
Proof.
  split; [|split; [exact exT_nonsingular|]].
  - assert (Hb : forall q, (q < 2)%nat -> ~ ld_err exR q == 0).
    { intros q Hq. destruct q as [|[|q]]; try lia; apply Qeq_bool_false_neq; [exact exR_err0|exact exR_err1]. }
    destruct (LD_solves_YW exR 2 ltac:(simpl; lia) ltac:(reflexivity) Hb) as [L Sv].
    split; [exact L|]. intros i Hi. rewrite (Sv i Hi).
    destruct i as [|[|i]]; try lia; reflexivity.
  - intros q Hq. destruct q as [|[|q]]; try lia; apply Qeq_bool_false_neq; [exact exR_err0|exact exR_err1].
Qed.

(* AR_psd at the unit-circle point z = -i with complex coefficients *)
Definition ex_ak : list C := [(1#2, 0); (-1#4, 1#3)].
Lemma ex_den : Qeq_bool (cnorm2 (ar_den ex_ak (0, -1))) 0 = false. Proof. vm_compute. reflexivity. Qed.
Example C10_psd_hypotheses_met : 2 * 2 == 4 /\ ~ cnorm2 (ar_den ex_ak (0, -1)) == 0.
Proof. split; [reflexivity|apply Qeq_bool_false_neq, ex_den]. Qed.

(* the contract of lfilter is met by the reference recursion on a concrete call *)
Definition ex_coefs : list C := [(1#2, 0); (-1#4, 0)].
Definition ex_v : list C := [(1, 0); (0, 0); (2, 0); (-1, 0); (3, 0)].
Example C10_generator_hypothesis_met :
  lfilter_contract (ar_gen_b 2) (ar_gen_a ex_coefs) ex_v (lfilter_ref (ar_gen_b 2) (ar_gen_a ex_coefs) ex_v).
Proof.
  split; [reflexivity|]. intros n Hn.
  do 5 (destruct n as [|n]; [vm_compute; split; reflexivity|]). simpl in Hn. lia.
Qed.

(* positive definiteness hypothesis of C10_sigma_pos_of_pd met by a concrete complex sequence (order 1) *)
Definition exR1 : list C := [(2, 0); (1, 1#2); (1#3, 0)].
Lemma Qsq_nonneg' (x : Q) : 0 <= x * x.
Proof. destruct (Qlt_le_dec x 0) as [H|H].
  - setoid_replace (x*x) with ((-x)*(-x)) by ring. apply Qmult_le_0_compat; lra.
  - apply Qmult_le_0_compat; assumption. Qed.
Example C10_pd_hypothesis_met : forall m, (1 <= m <= 2)%nat -> pos_def (Rf exR1) m.
Proof.
  intros m Hm c [E1 E2]. assert (Hc : m = 1%nat \/ m = 2%nat) by lia.
  destruct (c 0%nat) as [x0 y0] eqn:C0. destruct (c 1%nat) as [x y] eqn:C1.
  unfold c1, re, im in E1, E2; simpl in E1, E2.
  destruct Hc as [-> | ->]; unfold hform, Rlag, Rf, exR1, nthC; simpl; rewrite ?C0, ?C1;
    unfold cmul, cadd, cconj, c0, re, im; simpl; rewrite ?E1, ?E2.
  - reflexivity.
  - pose proof (Qsq_nonneg' (x + (1#2))) as S1. pose proof (Qsq_nonneg' (y + (1#4))) as S2. lra.
Qed.

(* a non-zero complex signal: the hypotheses of C10_sigma_pos_data / C10_LD_solves_YW_data are met *)
Definition ex_x : list C := [(1, 0); (1#2, 1#2); (0, -1#2); (1#4, 0); (-1#3, 1#5)].
Example C10_data_hypotheses_met :
  (1 <= 3 < length ex_x)%nat /\ (exists t, (t < length ex_x)%nat /\ ~ nthC ex_x t =c= c0) /\
  ~ im (nthC (autocorr_seq ex_x 4) 1) == 0.
Proof.
  split; [simpl; lia|]. split.
  - exists 1%nat. split; [simpl; lia|]. intros [E _]. vm_compute in E. discriminate.
  - intro E. vm_compute in E. discriminate.
Qed.

(* the hypotheses of C10_stable are met, with an actual root in E[i], for the instance E := Qc (canonical
   rationals): R = [2, 1+i], order 1, a_1 = (1+i)/2, z0 = a_1 is the root of z - a_1, |z0|^2 = 1/2 *)
Definition exS : list C := [(2, 0); (1, 1)].
Definition exz0 : ext_C Qc_ext := (Q2Qc (1#2), Q2Qc (1#2)).
Lemma exS_err1 : Qlt_le_dec 0 (ld_err exS 1) = left eq_refl. Proof. vm_compute. reflexivity. Qed.
Example C10_stable_hypotheses_met :
  (1 <= 1 < length exS)%nat /\ im (nthC exS 0) == 0 /\ (forall q, (q <= 1)%nat -> 0 < ld_err exS q) /\
  ext_peval Qc_ext (rev (map (ext_embed Qc_ext) (den_coefs (fst (AR_est_LD exS 1))))) exz0 = ext_zero Qc_ext /\
  exz0 <> ext_zero Qc_ext.
Proof.
  split; [simpl; lia|]. split; [reflexivity|]. split; [|split].
  - intros q Hq. destruct q as [|[|q]]; [reflexivity| |lia].
    destruct (Qlt_le_dec 0 (ld_err exS 1)) as [L|L] eqn:E; [exact L|]. rewrite exS_err1 in E. discriminate.
  - apply injective_projections; apply Qc_is_canon; vm_compute; reflexivity.
  - intros E. inversion E.
Qed.
