(* Props/C20.v — property C20: correlation, normalisation and information measures obey their
   definitions.  Only statements, each closed by `exact <lemma>` from Proofs/CorrP.v and
   Proofs/EntropyP.v, followed by Print Assumptions; non-vacuity Examples at the end.

   Part 1 (Model/Corr.v): over Q and Q[i], closed under the global context.  The library FFT is
   represented by its contract (the convolution theorem) — a Section hypothesis in Proofs/CorrP.v,
   hence an explicit premise `conv` here.
   Part 2 (Model/Entropy.v): over R with the real logarithm (axioms of Coq.Reals, printed below). *)
From Coq Require Import QArith List Arith Bool ZArith Reals Permutation.
From NT Require Import QC Sums Corr CorrP CorrAffine Entropy EntropyP.
Import ListNotations.
Open Scope Q_scope.

(* ================================================================= fftconvolve size logic *)
(* the padded FFT size 2 ** ceil(log2 size) is at least the full linear-convolution length (so the
   circular convolution computed through the FFT never wraps), is a power of two and is minimal *)
Theorem C20_fsize_ge : forall size, (size <= fsize size)%nat.
Proof. exact fsize_ge. Qed.
Theorem C20_fsize_minimal : forall size, (1 <= size)%nat -> (fsize size < 2 * size)%nat.
Proof. exact fsize_lt_double. Qed.
Print Assumptions C20_fsize_ge.

(* ================================================================= FFT-based = direct lagged sum *)
Definition conv_contract (kern : nat -> sig -> sig -> sig) : Prop :=
  forall F a b k, (k < F)%nat -> kern F a b k =c= circ_conv F a b k.

(* crosscov, all_lags=True: for EVERY length N and every output index k < 2N-1 the value is the
   direct lagged sum  sum_t x[t+lag] * conj(y[t])  with lag = k-(N-1): the second argument is
   conjugated, zero lag sits at index N-1; `normalize` divides by N *)
Theorem C20_crosscov_is_lagged_sum_all_lags : forall kern, conv_contract kern ->
  forall x y N nm k, (0 < N)%nat -> (k < N + N - 1)%nat ->
  crosscov_fn kern x y N true false nm true k =c= nscale nm N (lagsum x y N k).
Proof. exact crosscov_all_lags. Qed.
Print Assumptions C20_crosscov_is_lagged_sum_all_lags.

(* all_lags=False: index l is lag l >= 0, zero lag at index 0, textbook form of the sum *)
Theorem C20_crosscov_is_lagged_sum : forall kern, conv_contract kern ->
  forall x y N nm l, (l < N)%nat ->
  crosscov_fn kern x y N false false nm true l =c=
  nscale nm N (csumn (fun t => cmul (x (t + l)%nat) (cconj (y t))) (N - l)).
Proof. exact crosscov_pos_lags. Qed.

(* the all-lags layout read as signed lags *)
Theorem C20_lagsum_nonneg_lag : forall x y N l, (l < N)%nat ->
  lagsum x y N (N - 1 + l) =c= csumn (fun t => cmul (x (t + l)%nat) (cconj (y t))) (N - l).
Proof. exact lagsum_pos. Qed.
Theorem C20_lagsum_neg_lag : forall x y N l, (l < N)%nat ->
  lagsum x y N (N - 1 - l) =c= csumn (fun t => cmul (x t) (cconj (y (t + l)%nat))) (N - l).
Proof. exact lagsum_neg. Qed.

(* debias=True: the same sums of the mean-removed signals, whose mean is zero *)
Theorem C20_crosscov_debias : forall kern x y N al nm c k,
  crosscov_fn kern x y N al true nm c k =
  crosscov_fn kern (remove_bias x N) (remove_bias y N) N al false nm c k.
Proof. exact crosscov_debias. Qed.
Theorem C20_remove_bias_mean0 : forall x N, (0 < N)%nat -> csumn (remove_bias x N) N =c= c0.
Proof. exact remove_bias_sum0. Qed.

(* real input (fftconvolve returns `.real`) *)
Theorem C20_crosscov_real : forall kern, conv_contract kern ->
  forall x y N nm k, (0 < N)%nat -> (k < N + N - 1)%nat ->
  (forall t, im (x t) == 0) -> (forall t, im (y t) == 0) ->
  crosscov_fn kern x y N true false nm false k =c= nscale nm N (lagsum x y N k).
Proof. exact crosscov_all_lags_real. Qed.

(* crosscorr / autocov / autocorr are the same sums *)
Theorem C20_crosscorr_is_lagged_sum : forall kern, conv_contract kern ->
  forall x y N nm k, (0 < N)%nat -> (k < N + N - 1)%nat ->
  crosscorr_fn kern x y N true nm true k =c= nscale nm N (lagsum x y N k).
Proof. exact crosscorr_all_lags. Qed.
Theorem C20_autocov_is_lagged_sum : forall kern, conv_contract kern ->
  forall x N db nm k, (0 < N)%nat -> (k < N + N - 1)%nat ->
  autocov_fn kern x N true db nm true k =c=
  let x' := if db then remove_bias x N else x in nscale nm N (lagsum x' x' N k).
Proof. exact autocov_all_lags. Qed.
Theorem C20_autocorr_is_lagged_sum : forall kern, conv_contract kern ->
  forall x N nm k, (0 < N)%nat -> (k < N + N - 1)%nat ->
  autocorr_fn kern x N true nm true k =c= nscale nm N (lagsum x x N k).
Proof. exact autocorr_all_lags. Qed.

(* the autocorrelation is Hermitian about the zero lag *)
Theorem C20_autocorr_herm : forall kern, conv_contract kern ->
  forall x N nm l, (l < N)%nat ->
  autocorr_fn kern x N true nm true (N - 1 - l)%nat =c= cconj (autocorr_fn kern x N true nm true (N - 1 + l)%nat).
Proof. exact autocorr_herm. Qed.
Print Assumptions C20_autocorr_herm.

(* exchanging the two channels reverses the lag axis (and conjugates) *)
Theorem C20_lag_reversal : forall x y N k, (0 < N)%nat -> (k <= N + N - 2)%nat ->
  lagsum y x N (N + N - 2 - k) =c= cconj (lagsum x y N k).
Proof. exact lagsum_swap. Qed.
Print Assumptions C20_lag_reversal.

(* ================================================================= analyzer pair fill *)
(* FULL CLAIM (fails): for all channels i j and all k,
     xcorr_fill corr i j k == rlagsum (X i) (X j) N k,
   i.e. entry (j,i) is the lag reversal of entry (i,j).  The faithful model refutes it: *)
Theorem C20_xcorr_fill_lag_reversed_refuted :
  exists (X : nat -> nat -> Q) (N : nat) (corr : nat -> nat -> nat -> Q) (i j k : nat),
    (forall i j k, corr i j k == rlagsum (X i) (X j) N k) /\ (k < N + N - 1)%nat /\
    ~ xcorr_fill corr i j k == rlagsum (X i) (X j) N k.
Proof. exact xcorr_fill_refuted. Qed.
(* what does hold for every N and every pair: the upper triangle is right, the lower triangle
   holds the lag reversal of what it should hold, so exactly the zero lag is right everywhere *)
Theorem C20_xcorr_fill_upper : forall X N corr, (0 < N)%nat ->
  (forall i j k, (k < N + N - 1)%nat -> corr i j k == rlagsum (X i) (X j) N k) ->
  forall i j k, (i <= j)%nat -> (k < N + N - 1)%nat -> xcorr_fill corr i j k == rlagsum (X i) (X j) N k.
Proof. exact xcorr_fill_upper. Qed.
Theorem C20_xcorr_fill_lower_is_reversal_of_required : forall X N corr, (0 < N)%nat ->
  (forall i j k, (k < N + N - 1)%nat -> corr i j k == rlagsum (X i) (X j) N k) ->
  forall i j k, (j < i)%nat -> (k < N + N - 1)%nat ->
  xcorr_fill corr i j k == rlagsum (X i) (X j) N (N + N - 2 - k).
Proof. exact xcorr_fill_lower. Qed.
Theorem C20_xcorr_fill_zero_lag : forall X N corr, (0 < N)%nat ->
  (forall i j k, (k < N + N - 1)%nat -> corr i j k == rlagsum (X i) (X j) N k) ->
  forall i j, xcorr_fill corr i j (N - 1) == rlagsum (X i) (X j) N (N - 1).
Proof. exact xcorr_fill_zero_lag. Qed.
(* xcorr_norm: the zero-lag entry equals the correlation coefficient handed in *)
Theorem C20_xcorr_norm_zero_lag : forall N corr, (0 < N)%nat -> forall cc i j, (i <= j)%nat -> ~ corr i j (N - 1)%nat == 0 ->
  xcorr_norm_fill corr cc N i j (N - 1) == cc i j.
Proof. exact xcorr_norm_zero_lag. Qed.
Print Assumptions C20_xcorr_fill_lag_reversed_refuted.

(* ================================================================= seed correlation = Pearson *)
Theorem C20_pearson_sq_le_1 : forall seed target N s r, (0 < N)%nat ->
  0 < s -> s * s == seed_xx target N * seed_yy seed N -> r * s == seed_xy seed target N ->
  r * r <= 1 /\
  (let cov := seed_xy seed target N / inj N in
   let vx := seed_xx target N / inj N in
   let vy := seed_yy seed N / inj N in
   (s / inj N) * (s / inj N) == vx * vy /\ r * (s / inj N) == cov).
Proof. exact seed_corrcoef_pearson. Qed.
Print Assumptions C20_pearson_sq_le_1.

(* The Pearson coefficient does not depend on the baseline or the gain of either signal: the value r returned
   for (seed, target) is the value returned for (a*seed + b, c*target + d) whenever a*c > 0, and -r when
   a*c < 0 — for every length, all rational gains and baselines.  (Round 11: a one-pass rewrite of
   seed_corrcoef is the same rational function but loses exactly this in floating point for a baseline of
   2^27; the check therefore judges large-baseline inputs by this theorem.) *)
Theorem C20_pearson_affine_invariant : forall a b c d seed target N s r, (0 < N)%nat -> 0 < a * c ->
  0 < s -> s * s == seed_xx target N * seed_yy seed N -> r * s == seed_xy seed target N ->
  let seed' := fun t => a * seed t + b in
  let target' := fun t => c * target t + d in
  let s' := a * c * s in
  0 < s' /\ s' * s' == seed_xx target' N * seed_yy seed' N /\ r * s' == seed_xy seed' target' N.
Proof. exact seed_corrcoef_affine_invariant. Qed.
Print Assumptions C20_pearson_affine_invariant.

Theorem C20_pearson_affine_sign_flip : forall a b c d seed target N s r, (0 < N)%nat -> a * c < 0 ->
  0 < s -> s * s == seed_xx target N * seed_yy seed N -> r * s == seed_xy seed target N ->
  let seed' := fun t => a * seed t + b in
  let target' := fun t => c * target t + d in
  let s' := - (a * c) * s in
  0 < s' /\ s' * s' == seed_xx target' N * seed_yy seed' N /\ (- r) * s' == seed_xy seed' target' N.
Proof. exact seed_corrcoef_affine_antiinvariant. Qed.
Print Assumptions C20_pearson_affine_sign_flip.

Theorem C20_seed_sums_affine : forall a b c d seed target N, (0 < N)%nat ->
  seed_xy (fun t => a * seed t + b) (fun t => c * target t + d) N == c * a * seed_xy seed target N /\
  seed_xx (fun t => c * target t + d) N == c * c * seed_xx target N /\
  seed_yy (fun t => a * seed t + b) N == a * a * seed_yy seed N.
Proof. exact seed_sums_affine. Qed.
Print Assumptions C20_seed_sums_affine.

(* non-vacuity: seed [1,0,-1,0], target [2,0,1,1] have xx = yy = 2, xy = 1: s = 2, r = 1/2; and the executable
   model agrees on the image under a = 3, b = 2^27, c = 2, d = -10^9 (evaluated, not derived) *)
Example C20_pearson_affine_hypotheses_met :
  let seed := fun t => nth t [1;0;-1;0] 0 in
  let target := fun t => nth t [2;0;1;1] 0 in
  (0 < 4)%nat /\ 0 < 3 * 2 /\ 0 < 2 /\ 2 * 2 == seed_xx target 4%nat * seed_yy seed 4%nat /\
  (1 # 2) * 2 == seed_xy seed target 4%nat /\
  (1 # 2) * (3 * 2 * 2) == seed_xy (fun t => 3 * seed t + 134217728) (fun t => 2 * target t + -1000000000) 4%nat.
Proof. cbv zeta. split; [apply Nat.lt_0_succ|]. repeat split; vm_compute; reflexivity. Qed.

(* ================================================================= z-score, percent change *)
Theorem C20_zscore_mean0_var1 : forall x N s, (0 < N)%nat -> ~ s == 0 -> s * s == cvar x N ->
  csumn (zscore_fn x N s) N =c= c0 /\
  sumn (fun t => cnorm2 (zscore_fn x N s t)) N / inj N == 1.
Proof. intros x N s HN Hs Hv. split; [apply zscore_mean0; exact HN|apply zscore_var1; assumption]. Qed.
Theorem C20_pct_mean0 : forall x N, (0 < N)%nat -> ~ cnorm2 (cmean x N) == 0 ->
  csumn (pct_fn x N) N =c= c0.
Proof. exact pct_mean0. Qed.
Print Assumptions C20_zscore_mean0_var1.

(* ================================================================= independence of the unit *)
(* z-scores and percent change do not depend on the unit of the data: for EVERY factor c <> 0
   (np.std of c x is |c| s, here c > 0 read as c s), so no magnitude exists below which a
   non-constant series may be left un-normalised; covariances are bilinear in the two factors *)
Theorem C20_zscore_scale_invariant : forall c x N s t, ~ c == 0 -> ~ s == 0 -> s * s == cvar x N ->
  (c * s) * (c * s) == cvar (fun t => cscale c (x t)) N /\
  zscore_fn (fun t => cscale c (x t)) N (c * s) t =c= zscore_fn x N s t.
Proof.
  intros c x N s t Hc Hs Hv. split; [rewrite cvar_scale, <- Hv; ring|apply zscore_scale; assumption].
Qed.
Theorem C20_pct_scale_invariant : forall c x N t, ~ c == 0 -> ~ cnorm2 (cmean x N) == 0 ->
  pct_fn (fun t => cscale c (x t)) N t =c= pct_fn x N t.
Proof. exact pct_scale. Qed.
Theorem C20_lagsum_bilinear : forall a b x y N k,
  lagsum (fun t => cscale a (x t)) (fun t => cscale b (y t)) N k =c= cscale (a * b) (lagsum x y N k).
Proof. exact lagsum_scale. Qed.
Print Assumptions C20_zscore_scale_invariant.

(* ================================================================= "along the chosen axis" *)
(* an n-d array with a chosen axis is (outer, N, inner) in row-major order; entry (o,t,i) of the
   array assembled from per-lane results is entry t of the result of lane (o,i), and the lanes are
   a decomposition of the array (taking all lanes and laying them out again is the identity): the
   per-lane theorems above therefore hold along any axis of 1..3 (any number of) dimensions *)
Theorem C20_along_nth : forall outer M inner g o t i, (o < outer)%nat -> (t < M)%nat -> (i < inner)%nat ->
  nth ((o * M + t) * inner + i) (along outer M inner g) c0 = nth t (g o i) c0.
Proof. exact along_nth. Qed.
Theorem C20_lanes_decompose : forall d outer N inner, length d = (outer * (N * inner))%nat ->
  forall o t i, (o < outer)%nat -> (t < N)%nat -> (i < inner)%nat ->
  nth ((o * N + t) * inner + i) (along outer N inner (fun o i => lane_list d N inner o i)) c0 =
  nth ((o * N + t) * inner + i) d c0.
Proof. exact along_lanes_id. Qed.
Theorem C20_along_length : forall outer M inner g, length (along outer M inner g) = (outer * (M * inner))%nat.
Proof. exact along_length. Qed.

(* ================================================================= correlation spectrum *)
(* given Plancherel's identity for the library FFT, the n numerators sum to n * sum x1 x2: the
   spectrum sums to the correlation coefficient; the returned half carries it after folding *)
Theorem C20_corrspec_total : forall (x1 x2 : nat -> Q) (X1 X2 : sig) n,
  csumn (fun k => cmul (X1 k) (cconj (X2 k))) n =c= cscale (inj n) (csumn (fun t => cmul (rsig x1 t) (cconj (rsig x2 t))) n) ->
  sumn (corrspec_num X1 X2) n == inj n * sumn (fun t => x1 t * x2 t) n.
Proof. exact corrspec_total. Qed.
Theorem C20_corrspec_fold : forall (x1 x2 : nat -> Q) (X1 X2 : sig) n,
  csumn (fun k => cmul (X1 k) (cconj (X2 k))) n =c= cscale (inj n) (csumn (fun t => cmul (rsig x1 t) (cconj (rsig x2 t))) n) ->
  (0 < n)%nat -> (forall k, (0 < k < n)%nat -> corrspec_num X1 X2 (n - k) == corrspec_num X1 X2 k) ->
  sumn (onesided n (corrspec_num X1 X2)) (corrspec_len n) == inj n * sumn (fun t => x1 t * x2 t) n.
Proof. exact corrspec_fold. Qed.

(* ================================================================= non-vacuity (part 1) *)
(* the contract is satisfiable: the circular convolution itself *)
Example C20_conv_contract_inhabited : conv_contract circ_conv.
Proof. intros F a b k _. reflexivity. Qed.
(* a concrete complex input: x = [1+2i, 3, -i], y = [2, i, 1+i]; lag +1 of crosscov *)
Definition ex_x : sig := fun t => match t with O => (1, 2) | S O => (3, 0) | S (S O) => (0, -1) | _ => c0 end.
Definition ex_y : sig := fun t => match t with O => (2, 0) | S O => (0, 1) | S (S O) => (1, 1) | _ => c0 end.
Example C20_crosscov_example :
  crosscov_fn circ_conv ex_x ex_y 3%nat true false false true 3%nat =c= (5, 0).
Proof. vm_compute. split; reflexivity. Qed.
Example C20_pearson_example :   (* seed [1,2,4], target [2,1,5]: s^2 = xx*yy has the rational root 14/3 * ... *)
  seed_xx (fun t => nth t [2;1;5] 0) 3%nat * seed_yy (fun t => nth t [1;2;4] 0) 3%nat == (26 # 3) * (14 # 3).
Proof. vm_compute. reflexivity. Qed.
Example C20_zscore_example :    (* x = [1, 3] has variance 1: s = 1 *)
  1 * 1 == cvar (fun t => match t with O => (1, 0) | _ => (3, 0) end) 2%nat.
Proof. vm_compute. reflexivity. Qed.

(* ================================================================= information measures (over R) *)
Open Scope R_scope.
(* entropyR X is the coded sum over itertools.product of the symbol sets with the `p > 0` guard,
   with the real log2; X = list of variables.  Guards: at least one variable, all of one length
   n > 0 (the implementation raises otherwise). *)

(* the coded histogram (cells of the product of the symbol sets, empty cells guarded by `p > 0`)
   computes the entropy of the definition, here in its sample-average form
   Hs l = (1/n) sum_{t in l} -log2 (count(t)/n)  ( = -sum_a p_a log2 p_a over the distinct values ) *)
Theorem C20_entropy_is_definition : forall x y, x <> [] -> length x = length y ->
  entropyR [x] = Hs dZ x /\ entropyR [x; y] = Hs dZZ (combine x y).
Proof. intros x y H L. split; [apply entropyR1; exact H|apply entropyR2; assumption]. Qed.
Theorem C20_entropy_sample_form_is_cell_sum : forall (cells l : list Z), l <> [] -> NoDup cells -> incl l cells ->
  Hcells dZ (length l) cells l = Hs dZ l.
Proof. intros cells l. apply Hcells_Hs. Qed.

(* entropies (any number of variables) are non-negative and at most log2 of the product of the
   alphabet sizes *)
Theorem C20_entropy_nonneg : forall X n, X <> [] -> (0 < n)%nat -> Forall (fun xi => length xi = n) X ->
  0 <= entropyR X.
Proof. exact entropy_nonneg. Qed.
Print Assumptions C20_entropy_nonneg.
Theorem C20_entropy_le_log2_card : forall X n, X <> [] -> (0 < n)%nat -> Forall (fun xi => length xi = n) X ->
  entropyR X <= log2R (INR (fold_right (fun s acc => (length s * acc)%nat) 1%nat (map symset X))).
Proof. exact entropy_le_log2_card. Qed.
Print Assumptions C20_entropy_le_log2_card.
(* one variable over any alphabet containing its symbols *)
Theorem C20_entropy_le_log2_alphabet : forall x (alphabet : list Z), x <> [] -> NoDup alphabet -> incl x alphabet ->
  entropyR [x] <= log2R (INR (length alphabet)).
Proof. exact entropy_le_log2_alphabet. Qed.

(* mutual information = H(X) + H(Y) - H(X,Y)  (this is how the code computes it), symmetric,
   non-negative *)
Theorem C20_mi_def : forall x y, miR x y = entropyR [x] + entropyR [y] - entropyR [x; y].
Proof. exact mi_def. Qed.
Theorem C20_mi_symmetric : forall x y, x <> [] -> length x = length y -> miR x y = miR y x.
Proof. exact mi_symmetric. Qed.
Theorem C20_mi_nonneg : forall x y, x <> [] -> length x = length y -> 0 <= miR x y.
Proof. exact mi_nonneg. Qed.
Print Assumptions C20_mi_nonneg.

(* conditioning never increases entropy: H(X|Y) = H(Y,X) - H(Y) <= H(X) *)
Theorem C20_conditioning_reduces : forall x y, x <> [] -> length x = length y ->
  condR x y = entropyR [y; x] - entropyR [y] /\ condR x y <= entropyR [x].
Proof. intros x y H L. split; [apply cond_def|apply conditioning_reduces; assumption]. Qed.
Print Assumptions C20_conditioning_reduces.

(* invariance under (injective) relabelling of the symbols, separately per variable *)
Theorem C20_relabel_invariant : forall f g x y,
  (forall a b : Z, f a = f b -> a = b) -> (forall a b : Z, g a = g b -> a = b) ->
  x <> [] -> length x = length y ->
  entropyR [map f x] = entropyR [x] /\ entropyR [map f x; map g y] = entropyR [x; y] /\
  miR (map f x) (map g y) = miR x y.
Proof.
  intros f g x y Hf Hg H L. repeat split;
    [apply relabel_invariant1|apply relabel_invariant2|apply mi_relabel_invariant]; assumption.
Qed.
Print Assumptions C20_relabel_invariant.

(* invariance under a joint permutation of the samples *)
Theorem C20_perm_invariant : forall x y x' y', x <> [] -> length x = length y -> length x' = length y' ->
  Permutation (combine x y) (combine x' y') ->
  entropyR [x] = entropyR [x'] /\ entropyR [x; y] = entropyR [x'; y'] /\ miR x y = miR x' y'.
Proof.
  intros x y x' y' H L L' P. repeat split.
  - apply perm_invariant1; [exact H|]. rewrite <- (fst_combine x y L), <- (fst_combine x' y' L').
    apply Permutation_map. exact P.
  - apply perm_invariant2; assumption.
  - apply mi_perm_invariant; assumption.
Qed.
Print Assumptions C20_perm_invariant.

(* conditioning on a further variable never increases entropy either: the transfer entropy
   H(F|P) - H(F|P,Pj) (F = np.roll(x,-lag), P = x, Pj = y) is a conditional mutual information
   and is non-negative for every lag *)
Theorem C20_transfer_entropy_nonneg : forall x y lag, x <> [] -> length x = length y -> 0 <= teR x y lag.
Proof. exact transfer_entropy_nonneg. Qed.
Print Assumptions C20_transfer_entropy_nonneg.

(* conditional entropy and transfer entropy inherit the invariances (transfer entropy only the
   relabelling: the time order enters through np.roll, it is not a function of the sample multiset) *)
Theorem C20_cond_invariant : forall f g x y x' y',
  (forall a b : Z, f a = f b -> a = b) -> (forall a b : Z, g a = g b -> a = b) ->
  x <> [] -> length x = length y -> length x' = length y' -> Permutation (combine x y) (combine x' y') ->
  condR (map f x) (map g y) = condR x y /\ condR x y = condR x' y'.
Proof.
  intros f g x y x' y' Hf Hg H L L' P. split; [apply cond_relabel_invariant|apply cond_perm_invariant]; assumption.
Qed.
Theorem C20_te_relabel_invariant : forall f g x y lag,
  (forall a b : Z, f a = f b -> a = b) -> (forall a b : Z, g a = g b -> a = b) ->
  x <> [] -> length x = length y -> teR (map f x) (map g y) lag = teR x y lag.
Proof. exact te_relabel_invariant. Qed.

(* ================================================================= non-vacuity (part 2) *)
Example C20_entropy_example_guards :
  [[1;2;2;3]%Z; [0;0;1;1]%Z] <> [] /\ Forall (fun xi : list Z => length xi = 4%nat) [[1;2;2;3]%Z; [0;0;1;1]%Z].
Proof. split; [discriminate|repeat constructor]. Qed.
Example C20_perm_example : Permutation (combine [1;2]%Z [0;1]%Z) (combine [2;1]%Z [1;0]%Z).
Proof. simpl. apply perm_swap. Qed.
