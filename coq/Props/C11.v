(* Props/C11.v — property C11: the multichannel (Levinson-Wiggins-Robinson) recursion solves the
   block Yule-Walker system.  Only statements, each closed by a lemma of Proofs/LWRP.v, then
   Print Assumptions; non-vacuity Examples at the end.

   Vocabulary (Proofs/LWRP.v):
     ring_laws O req     the operations O = (0 1 + * - transposition inverse) form a ring, possibly
                         non-commutative, for the equality req; transposition is an involution that
                         reverses products (nothing is assumed about the inverse)
     rsum O f n          f 0 + ... + f (n-1)
     coefA O a i         A(0) = 1, A(i) = a[i-1]       (a = the returned coefficient array)
     Rlag O r k i        R(k - i), with R(m) = r[m] for m >= 0 and R(-m) = R(m)^T
     steps_ok O req r P  every error covariance the recursion inverts (sigf, sigb at passes
                         p = 0..P-1) is inverted by the ring's `rinv` (left inverse)
     lwr_inv             the forward/backward invariants of the recursion at order p
     meq n               equality of n x n matrices over Q (the executable instance mat_ops n)  *)
From Coq Require Import List Arith QArith Bool Lia Lqa Setoid Morphisms.
From NT Require Import Sums LWR LWRP LWRPosDef LWRScale.
Import ListNotations.

(* ---- the recursion solves the block Yule-Walker system, for every order and every ring ---- *)
Theorem C11_lwr_solves_block_YW :
  forall (R : Type) (O : rops R) (req : R -> R -> Prop), ring_laws O req ->
  forall (r : list R) (P : nat),
    length r = S P ->
    req (rtr O (nth 0 r (r0 O))) (nth 0 r (r0 O)) ->          (* r(0) symmetric *)
    steps_ok O req r P ->
    let '(a, sigma) := lwr_recursion O r in
    length a = P /\
    (* sum_{i=0..P} A(i) R(k-i) = 0 for k = 1..P *)
    (forall k, (1 <= k <= P)%nat ->
       req (rsum O (fun i => rmul O (coefA O a i) (Rlag O r k i)) (S P)) (r0 O)) /\
    (* the innovation covariance is sum_i A(i) R(-i) *)
    req (rsum O (fun i => rmul O (coefA O a i) (Rlag O r 0 i)) (S P)) sigma /\
    (* and it is symmetric *)
    req (rtr O sigma) sigma.
Proof. exact (@lwr_solves_block_YW_lemma). Qed.
Print Assumptions C11_lwr_solves_block_YW.

(* the innovation covariance identity and its symmetry, on their own *)
Theorem C11_lwr_sigma_identity :
  forall (R : Type) (O : rops R) (req : R -> R -> Prop), ring_laws O req ->
  forall (r : list R) (P : nat),
    length r = S P -> req (rtr O (nth 0 r (r0 O))) (nth 0 r (r0 O)) -> steps_ok O req r P ->
    let sigma := snd (lwr_recursion O r) in let a := fst (lwr_recursion O r) in
    req (rsum O (fun i => rmul O (coefA O a i) (Rlag O r 0 i)) (S P)) sigma /\ req (rtr O sigma) sigma.
Proof.
  intros R O req RL r P L Hs Hok.
  pose proof (lwr_solves_block_YW_lemma O req RL r P L Hs Hok) as H.
  destruct (lwr_recursion O r) as [a sigma]. simpl. tauto.
Qed.
Print Assumptions C11_lwr_sigma_identity.

(* the invariants that carry the induction: both predictors satisfy their normal equations at
   every intermediate order, and one pass of the loop takes order p to order p + 1 *)
Theorem C11_lwr_invariants :
  forall (R : Type) (O : rops R) (req : R -> R -> Prop), ring_laws O req ->
  forall (r : list R) (P : nat),
    req (rtr O (nth 0 r (r0 O))) (nth 0 r (r0 O)) -> steps_ok O req r P ->
    forall n, (n <= P)%nat ->
    let '(a, b, sigf, sigb) := lwr_run O r n in
    length a = n /\ length b = n /\
    (forall k, (1 <= k <= n)%nat -> req (rsum O (fun i => rmul O (coefA O a i) (Rlag O r k i)) (S n)) (r0 O)) /\
    req (rsum O (fun i => rmul O (coefA O a i) (Rlag O r 0 i)) (S n)) sigf /\
    (forall k, (1 <= k <= n)%nat -> req (rsum O (fun i => rmul O (coefA O b i) (Rlag O r i k)) (S n)) (r0 O)) /\
    req (rsum O (fun i => rmul O (coefA O b i) (Rlag O r i 0)) (S n)) sigb.
Proof.
  intros R O req RL r P Hs Hok n Hn.
  pose proof (lwr_run_inv O req RL r P Hs Hok n Hn) as H.
  destruct (lwr_run O r n) as [[[a b] sf] sb]. exact H.
Qed.
Print Assumptions C11_lwr_invariants.

Theorem C11_lwr_step_invariants :
  forall (R : Type) (O : rops R) (req : R -> R -> Prop), ring_laws O req ->
  forall r p st,
    req (rtr O (nth 0 r (r0 O))) (nth 0 r (r0 O)) ->
    lwr_inv O req r p st ->
    (let '(_, _, sigf, sigb) := st in
     req (rmul O (rinv O sigf) sigf) (r1 O) /\ req (rmul O (rinv O sigb) sigb) (r1 O)) ->
    lwr_inv O req r (S p) (lwr_step O r st p).
Proof. exact (@lwr_step_inv). Qed.

(* n x n matrices over Q (lists of rows; the instance the correspondence executes) are such a ring *)
Theorem C11_matrices_are_a_ring : forall n, ring_laws (mat_ops n) (meq n).
Proof. exact mat_ring_laws. Qed.
Print Assumptions C11_matrices_are_a_ring.

Theorem C11_lwr_solves_block_YW_matrices :
  forall n (r : list mat) P,
    length r = S P ->
    meq n (mtr n (nth 0 r (mzero n))) (nth 0 r (mzero n)) ->
    steps_ok (mat_ops n) (meq n) r P ->
    let '(a, sigma) := lwr_recursion (mat_ops n) r in
    length a = P /\
    (forall k, (1 <= k <= P)%nat ->
       meq n (rsum (mat_ops n) (fun i => mmul n (coefA (mat_ops n) a i) (Rlag (mat_ops n) r k i)) (S P)) (mzero n)) /\
    meq n (rsum (mat_ops n) (fun i => mmul n (coefA (mat_ops n) a i) (Rlag (mat_ops n) r 0 i)) (S P)) sigma /\
    meq n (mtr n sigma) sigma.
Proof. exact lwr_solves_block_YW_mat_lemma. Qed.
Print Assumptions C11_lwr_solves_block_YW_matrices.

(* Symmetry of the innovation covariance from the equations and the identity alone (any ring).
   (Historical name: this used to be the only proved part of "symmetric positive definite";
   positive-definiteness is now proved below, C11_sigma_positive_definite.) *)
Theorem C11_sigma_symmetric_partial :
  forall (R : Type) (O : rops R) (req : R -> R -> Prop), ring_laws O req ->
  forall r a sigma P,
    req (rtr O (nth 0 r (r0 O))) (nth 0 r (r0 O)) ->
    (forall k, (1 <= k <= P)%nat -> req (rsum O (fun i => rmul O (coefA O a i) (Rlag O r k i)) (S P)) (r0 O)) ->
    req (rsum O (fun i => rmul O (coefA O a i) (Rlag O r 0 i)) (S P)) sigma ->
    req (rtr O sigma) sigma.
Proof. exact (@sigma_symmetric). Qed.

(* ---- positive-definiteness of the innovation covariance (matrices over Q) ----
   vectors are functions on indices < n;  bform n x M y = x^T M y;
   qformT n r P w = w^T T w for the stacked vector w = (w 0, ..., w P) and the block-Toeplitz
   matrix T of the lags, block (i, j) = R(j - i);  vnonzero n v = some component below n is not 0.
   sigma = Abar T Abar^T with Abar = [I, A(1), ..., A(P)], so v^T sigma v = w^T T w for
   w = Abar^T v, whose first block is v. *)
Theorem C11_sigma_quadratic_form :
  forall n (r a : list mat) (sigma : mat) P,
    (forall k, (1 <= k <= P)%nat ->
       meq n (rsum (mat_ops n) (fun i => mmul n (coefA (mat_ops n) a i) (Rlag (mat_ops n) r k i)) (S P)) (mzero n)) ->
    meq n (rsum (mat_ops n) (fun i => mmul n (coefA (mat_ops n) a i) (Rlag (mat_ops n) r 0 i)) (S P)) sigma ->
    forall v, bform n v sigma v == qformT n r P (wvec n a v) /\
              (forall b, (b < n)%nat -> wvec n a v 0%nat b == v b).
Proof.
  intros n r a sigma P HF HF0 v. split.
  - exact (sigma_quadratic_form n r a sigma P HF HF0 v).
  - intros b Hb. apply wvec_first. exact Hb.
Qed.

Theorem C11_sigma_positive_definite :
  forall n (r : list mat) P,
    length r = S P ->
    meq n (mtr n (nth 0 r (mzero n))) (nth 0 r (mzero n)) ->
    steps_ok (mat_ops n) (meq n) r P ->
    (* the block-Toeplitz matrix of the lags is positive definite *)
    (forall w, (exists i, (i <= P)%nat /\ vnonzero n (w i)) -> 0 < qformT n r P w) ->
    (* then so is the innovation covariance returned by the recursion *)
    forall v, vnonzero n v -> 0 < bform n v (snd (lwr_recursion (mat_ops n) r)) v.
Proof. exact lwr_sigma_positive_definite_lemma. Qed.
Print Assumptions C11_sigma_positive_definite.

(* the same for any (a, sigma) satisfying the block equations; and the semidefinite version *)
Theorem C11_sigma_positive_definite_of_YW :
  forall n (r a : list mat) (sigma : mat) P,
    (forall k, (1 <= k <= P)%nat ->
       meq n (rsum (mat_ops n) (fun i => mmul n (coefA (mat_ops n) a i) (Rlag (mat_ops n) r k i)) (S P)) (mzero n)) ->
    meq n (rsum (mat_ops n) (fun i => mmul n (coefA (mat_ops n) a i) (Rlag (mat_ops n) r 0 i)) (S P)) sigma ->
    ((forall w, (exists i, (i <= P)%nat /\ vnonzero n (w i)) -> 0 < qformT n r P w) ->
     forall v, vnonzero n v -> 0 < bform n v sigma v) /\
    ((forall w, 0 <= qformT n r P w) -> forall v, 0 <= bform n v sigma v).
Proof.
  intros n r a sigma P HF HF0. split.
  - exact (sigma_positive_definite_lemma n r a sigma P HF HF0).
  - exact (sigma_positive_semidefinite_lemma n r a sigma P HF HF0).
Qed.
Print Assumptions C11_sigma_positive_definite_of_YW.

(* ---- relabelling channels permutes the result ---- *)
(* every step commutes with a map phi that respects the ring operations, transposition and the
   inverse (on the values that get inverted); conjugation by a permutation matrix is such a map *)
Theorem C11_lwr_perm_equivariant :
  forall (R : Type) (O : rops R) (req : R -> R -> Prop), ring_laws O req ->
  forall phi : R -> R,
    req (phi (r0 O)) (r0 O) -> req (phi (r1 O)) (r1 O) ->
    (forall a b, req (phi (radd O a b)) (radd O (phi a) (phi b))) ->
    (forall a b, req (phi (rmul O a b)) (rmul O (phi a) (phi b))) ->
    (forall a, req (phi (ropp O a)) (ropp O (phi a))) ->
    (forall a, req (phi (rtr O a)) (rtr O (phi a))) ->
    Proper (req ==> req) (rinv O) ->
    (forall a, req (rmul O (rinv O a) a) (r1 O) -> req (rinv O (phi a)) (phi (rinv O a))) ->
  forall r P, length r = S P -> steps_ok O req r P ->
    let '(a', sigma') := lwr_recursion O (map phi r) in
    let '(a, sigma) := lwr_recursion O r in
    length a' = length a /\ (forall i, req (nth i a' (r0 O)) (phi (nth i a (r0 O)))) /\
    req sigma' (phi sigma).
Proof. exact (@lwr_equivariant_lemma). Qed.
Print Assumptions C11_lwr_perm_equivariant.

(* channel relabelling of n x n matrices is such a map: for every n, every permutation s of the
   channels (with inverse t) and every inverse kernel `iv` that is a function of the matrix value
   and covariant on invertible matrices, relabelling the channels of every r(k) relabels every
   coefficient matrix and the innovation covariance in the same way *)
Theorem C11_lwr_perm_equivariant_matrices :
  forall n (s t : nat -> nat) (iv : mat -> mat),
    is_perm n s t ->
    Proper (meq n ==> meq n) iv ->
    (forall a, meq n (mmul n (iv a) a) (mid n) -> meq n (iv (mperm n s a)) (mperm n s (iv a))) ->
  forall r P, length r = S P -> steps_ok (mat_ops_with n iv) (meq n) r P ->
    let '(a', sigma') := lwr_recursion (mat_ops_with n iv) (map (mperm n s) r) in
    let '(a, sigma) := lwr_recursion (mat_ops_with n iv) r in
    length a' = length a /\
    (forall i, meq n (nth i a' (mzero n)) (mperm n s (nth i a (mzero n)))) /\
    meq n sigma' (mperm n s sigma).
Proof. exact lwr_perm_equivariant_mat_lemma. Qed.
Print Assumptions C11_lwr_perm_equivariant_matrices.

(* ---- the result does not depend on the physical units (no absolute magnitude enters) ---- *)
(* multiplying every lag by a central invertible c (matrices: a non-zero scalar, e.g. the square of
   a unit conversion) keeps every coefficient and multiplies the innovation covariance by c *)
Theorem C11_lwr_scale_equivariant :
  forall (R : Type) (O : rops R) (req : R -> R -> Prop), ring_laws O req ->
  forall c ci : R,
    (forall x, req (rmul O c x) (rmul O x c)) -> (forall x, req (rmul O ci x) (rmul O x ci)) ->
    req (rmul O ci c) (r1 O) -> req (rtr O c) c ->
    Proper (req ==> req) (rinv O) ->
    (forall x, req (rmul O (rinv O x) x) (r1 O) -> req (rinv O (rmul O c x)) (rmul O ci (rinv O x))) ->
  forall r P, length r = S P -> steps_ok O req r P ->
    let '(a', sigma') := lwr_recursion O (map (rmul O c) r) in
    let '(a, sigma) := lwr_recursion O r in
    length a' = length a /\ (forall i, req (nth i a' (r0 O)) (nth i a (r0 O))) /\
    req sigma' (rmul O c sigma).
Proof. exact (@lwr_scale_equivariant_lemma). Qed.
Print Assumptions C11_lwr_scale_equivariant.

(* n x n matrices over Q, every lag multiplied by the scalar q <> 0 (mscal n q = q I) *)
Theorem C11_lwr_scale_equivariant_matrices :
  forall n (iv : mat -> mat) (q : Q), ~ q == 0 ->
    Proper (meq n ==> meq n) iv ->
    (forall x, meq n (mmul n (iv x) x) (mid n) ->
               meq n (iv (mmul n (mscal n q) x)) (mmul n (mscal n (/ q)) (iv x))) ->
  forall r P, length r = S P -> steps_ok (mat_ops_with n iv) (meq n) r P ->
    let '(a', sigma') := lwr_recursion (mat_ops_with n iv) (map (mmul n (mscal n q)) r) in
    let '(a, sigma) := lwr_recursion (mat_ops_with n iv) r in
    length a' = length a /\
    (forall i, meq n (nth i a' (mzero n)) (nth i a (mzero n))) /\
    (forall i j, (i < n)%nat -> (j < n)%nat -> mget sigma' i j == q * mget sigma i j).
Proof. exact lwr_scale_equivariant_mat_lemma. Qed.
Print Assumptions C11_lwr_scale_equivariant_matrices.

(* one channel: no hypothesis on the inverse is left *)
Theorem C11_lwr_scale_equivariant_scalar :
  forall (q : Q) r P, ~ q == 0 -> length r = S P -> steps_ok q_ops Qeq r P ->
    let '(a', sigma') := lwr_recursion q_ops (map (rmul q_ops q) r) in
    let '(a, sigma) := lwr_recursion q_ops r in
    length a' = length a /\ (forall i, nth i a' 0 == nth i a 0) /\ sigma' == q * sigma.
Proof. exact lwr_scale_equivariant_scalar_lemma. Qed.
Print Assumptions C11_lwr_scale_equivariant_scalar.

(* ---- one channel: the scalar estimator up to the documented sign ---- *)
(* lwr: X(t) + sum a(i) X(t-i) = E(t);  AR_est_LD: x(n) = sum w(i) x(n-i) + e(n);  so a = -w *)
Theorem C11_lwr_scalar_is_LD :
  forall (r : list Q) order, (1 <= order)%nat -> length r = S order ->
    let '(a, s) := lwr_recursion q_ops r in
    let '(w, b) := ld r order in
    length a = order /\ length w = order /\ (forall i, nth i a 0 == - nth i w 0) /\ s == b.
Proof. exact lwr_scalar_is_LD_lemma. Qed.
Print Assumptions C11_lwr_scalar_is_LD.

(* ---- the covariance helper is the lagged average ---- *)
Theorem C11_crosscov_is_lagged_mean :
  forall (x y : list (list Q)) nlags i j k,
    let N := length (nth 0 x []) in
    (i < length x)%nat -> (j < length y)%nat -> (k < nlags)%nat -> (k <= N)%nat ->
    length (nth i x []) = N -> length (nth j y []) = N ->
    nth k (nth j (nth i (crosscov_vector x y nlags) []) []) 0 ==
    sumn (fun t => nth (t + k) (nth i x []) 0 * nth t (nth j y []) 0) (N - k)
    / inject_Z (Z.of_nat (N - k)).
Proof. exact crosscov_is_lagged_mean_lemma. Qed.
Print Assumptions C11_crosscov_is_lagged_mean.

(* the default keyword nlags=None means all N lags, lag k averaged over its own N - k products *)
Theorem C11_crosscov_default_all_lags :
  forall (x y : list (list Q)) i j k,
    let N := length (nth 0 x []) in
    (i < length x)%nat -> (j < length y)%nat -> (k < N)%nat ->
    length (nth i x []) = N -> length (nth j y []) = N ->
    length (nth j (nth i (crosscov_vector_kw x y None) []) []) = N /\
    nth k (nth j (nth i (crosscov_vector_kw x y None) []) []) 0 ==
    sumn (fun t => nth (t + k) (nth i x []) 0 * nth t (nth j y []) 0) (N - k)
    / inject_Z (Z.of_nat (N - k)).
Proof. exact crosscov_default_is_lagged_mean_lemma. Qed.
Print Assumptions C11_crosscov_default_all_lags.

(* entry (i, j) of the k-th matrix handed to the recursion is E x_i(t + k) x_j(t) = R(k)[i, j] *)
Theorem C11_rxx_is_lagged_mean :
  forall (x : list (list Q)) nlags i j k,
    let N := length (nth 0 x []) in
    (i < length x)%nat -> (j < length x)%nat -> (k < nlags)%nat -> (k <= N)%nat ->
    length (nth i x []) = N -> length (nth j x []) = N ->
    mget (nth k (rxx_of x nlags) []) i j ==
    sumn (fun t => nth (t + k) (nth i x []) 0 * nth t (nth j x []) 0) (N - k)
    / inject_Z (Z.of_nat (N - k)).
Proof. exact rxx_is_lagged_mean_lemma. Qed.

(* ---- fit_model returns the solution for the order it reports (both branches) ---- *)
Theorem C11_fit_model_order :
  forall (R : Type) (O : rops R) (rxx : nat -> list R) (crit : R -> nat -> Q),
    (forall n, length (rxx n) = n) ->
  forall order max_order o Rx cf ec,
    fit_model O rxx crit order max_order = FMOk o Rx cf ec ->
    length cf = o /\ length Rx = S o /\ lwr_recursion O Rx = (cf, ec) /\
    (exists lag, Rx = rxx lag) /\ (forall o', order = Some o' -> o = o').
Proof. exact (@fit_model_order_lemma). Qed.
Print Assumptions C11_fit_model_order.

(* ---- MAR_est_LWR(x, P) is an order-P model ---- *)
Theorem C11_MAR_est_order : forall x order, length (fst (MAR_est_LWR x order)) = order.
Proof. exact MAR_est_order_lemma. Qed.

Theorem C11_MAR_est_solves :
  forall x order,
    (forall i, (i < length x)%nat -> length (nth i x []) = length (nth 0 x [])) ->
    let n := length x in let r := rxx_of x (order + 1) in
    steps_ok (mat_ops n) (meq n) r order ->
    let '(a, sigma) := MAR_est_LWR x order in
    length a = order /\
    (forall k, (1 <= k <= order)%nat ->
       meq n (rsum (mat_ops n) (fun i => mmul n (coefA (mat_ops n) a i) (Rlag (mat_ops n) r k i)) (S order)) (mzero n)) /\
    meq n (rsum (mat_ops n) (fun i => mmul n (coefA (mat_ops n) a i) (Rlag (mat_ops n) r 0 i)) (S order)) sigma /\
    meq n (mtr n sigma) sigma.
Proof. exact MAR_est_solves_lemma. Qed.
Print Assumptions C11_MAR_est_solves.

(* the snapshot passed `nlags=order` and so returned order - 1 matrices (repaired by a fix: commit;
   the witness MAR_est_LWR(x, 3) is kept in harness/corpus/C11) *)
Theorem C11_MAR_est_order_snapshot_refuted :
  exists x order, length (fst (MAR_est_LWR_snapshot x order)) <> order.
Proof. exists [[1; 2; 3; 4]; [0; 1; 0; 1]], 3%nat. rewrite MAR_est_snapshot_order_lemma. discriminate. Qed.

(* ---- generate_mar reproduces its recursion from the returned noise ---- *)
Theorem C11_generate_mar_recursion :
  forall (M V : Type) (veq : V -> V -> Prop) (vadd vsub : V -> V -> V) (act : M -> V -> V) (m0 : M) (v0 : V),
    Equivalence veq -> Proper (veq ==> veq ==> veq) vadd ->
    (forall a b c, veq (vadd a (vadd b c)) (vadd (vadd a b) c)) ->
    (forall a b, veq (vadd a b) (vadd b a)) ->
    (forall a, veq (vadd a v0) a) ->
    (forall a b, veq (vadd (vsub a b) b) a) ->
  forall (a : list M) (nz : list V),
    let X := generate_mar_from vsub act m0 v0 a nz in
    length X = length nz /\
    forall t, (t < length nz)%nat ->
      veq (vadd (nth t X v0)
                (vsum vadd v0 (fun j => act (nth j a m0) (nth (t - j - 1) X v0)) (Nat.min t (length a))))
          (nth t nz v0).
Proof. exact (@generate_mar_recursion_lemma). Qed.
Print Assumptions C11_generate_mar_recursion.

(* ------------------------------------------------------------------ non-vacuity *)
Local Open Scope Q_scope.
(* two channels, order 2, lags that are not symmetric and do not commute *)
Definition ex_r : list mat :=
  [ [[2; 1#2]; [1#2; 1]];  [[1; 1#4]; [-(1#2); 1#3]];  [[1#5; -(1#3)]; [1#2; 1#7]] ].

Lemma ex_noncommutative :
  meqb 2 (mmul 2 (nth 1 ex_r []) (nth 2 ex_r [])) (mmul 2 (nth 2 ex_r []) (nth 1 ex_r [])) = false.
Proof. vm_compute. reflexivity. Qed.
Lemma ex_sym : meqb 2 (mtr 2 (nth 0 ex_r (mzero 2))) (nth 0 ex_r (mzero 2)) = true.
Proof. vm_compute. reflexivity. Qed.
Lemma ex_ok0 : let '(_, _, sf, sb) := lwr_run (mat_ops 2) ex_r 0 in
  meqb 2 (mmul 2 (minv 2 sf) sf) (mid 2) && meqb 2 (mmul 2 (minv 2 sb) sb) (mid 2) = true.
Proof. vm_compute. reflexivity. Qed.
Lemma ex_ok1 : let '(_, _, sf, sb) := lwr_run (mat_ops 2) ex_r 1 in
  meqb 2 (mmul 2 (minv 2 sf) sf) (mid 2) && meqb 2 (mmul 2 (minv 2 sb) sb) (mid 2) = true.
Proof. vm_compute. reflexivity. Qed.

Example C11_ex_hypotheses_met :
  length ex_r = 3%nat /\
  meq 2 (mtr 2 (nth 0 ex_r (mzero 2))) (nth 0 ex_r (mzero 2)) /\
  steps_ok (mat_ops 2) (meq 2) ex_r 2.
Proof.
  split; [reflexivity|]. split; [apply meqb_sound; exact ex_sym|].
  intros p Hp. destruct p as [|[|p]]; [| |lia].
  - pose proof ex_ok0 as H. destruct (lwr_run (mat_ops 2) ex_r 0) as [[[a b] sf] sb].
    apply andb_prop in H as [H1 H2]. split; apply meqb_sound; assumption.
  - pose proof ex_ok1 as H. destruct (lwr_run (mat_ops 2) ex_r 1) as [[[a b] sf] sb].
    apply andb_prop in H as [H1 H2]. split; apply meqb_sound; assumption.
Qed.

(* equivariance: with two channels, the adjugate inverse and the swap of the two channels every
   hypothesis of C11_lwr_perm_equivariant_matrices holds *)
Lemma ex_ok2_0 : let '(_, _, sf, sb) := lwr_run (mat_ops_with 2 minv2) ex_r 0 in
  meqb 2 (mmul 2 (minv2 sf) sf) (mid 2) && meqb 2 (mmul 2 (minv2 sb) sb) (mid 2) = true.
Proof. vm_compute. reflexivity. Qed.
Lemma ex_ok2_1 : let '(_, _, sf, sb) := lwr_run (mat_ops_with 2 minv2) ex_r 1 in
  meqb 2 (mmul 2 (minv2 sf) sf) (mid 2) && meqb 2 (mmul 2 (minv2 sb) sb) (mid 2) = true.
Proof. vm_compute. reflexivity. Qed.
Example C11_ex_perm_hypotheses_met :
  is_perm 2 swap2 swap2 /\
  Proper (meq 2 ==> meq 2) minv2 /\
  (forall a, meq 2 (mmul 2 (minv2 a) a) (mid 2) -> meq 2 (minv2 (mperm 2 swap2 a)) (mperm 2 swap2 (minv2 a))) /\
  length ex_r = 3%nat /\ steps_ok (mat_ops_with 2 minv2) (meq 2) ex_r 2.
Proof.
  split; [exact swap2_perm|]. split; [exact minv2_proper|]. split; [intros a _; apply minv2_swap|].
  split; [reflexivity|].
  intros p Hp. destruct p as [|[|p]]; [| |lia].
  - pose proof ex_ok2_0 as H. destruct (lwr_run (mat_ops_with 2 minv2) ex_r 0) as [[[a b] sf] sb].
    apply andb_prop in H as [H1 H2]. split; apply meqb_sound; assumption.
  - pose proof ex_ok2_1 as H. destruct (lwr_run (mat_ops_with 2 minv2) ex_r 1) as [[[a b] sf] sb].
    apply andb_prop in H as [H1 H2]. split; apply meqb_sound; assumption.
Qed.
(* and the relabelled input really is a different input *)
Lemma C11_ex_perm_nontrivial : meqb 2 (mperm 2 swap2 (nth 1 ex_r [])) (nth 1 ex_r []) = false.
Proof. vm_compute. reflexivity. Qed.

(* the coefficients of the example are not trivial *)
Lemma C11_ex_coefficients :
  fst (lwr_recursion (mat_ops 2) ex_r) =
  [ [[-(329#655); -(128#655)]; [1912#917; -(2907#917)]];
    [[-(43#1310); 354#655]; [-(2288#917); 1504#917]] ].
Proof. vm_compute. reflexivity. Qed.

(* one channel *)
Lemma C11_ex_scalar :
  let '(a, s) := lwr_recursion q_ops [1; 1#2; 1#8] in
  let '(w, b) := ld [1; 1#2; 1#8] 2 in
  map Qred a = [-(7#12); 1#6] /\ map Qred w = [7#12; -(1#6)] /\ Qred s = 35#48 /\ Qred b = 35#48.
Proof. vm_compute. repeat split. Qed.

(* The guard is needed: a positive lag-0 term alone does not make the later error covariances
   invertible (r = [1, 1, 0]: sigf = 0 after the first pass, numpy's inv raises there) *)
Lemma C11_ex_guard_needed :
  let '(_, _, sf, _) := lwr_run q_ops [1; 1; 0] 1 in sf == 0.
Proof. vm_compute. reflexivity. Qed.

(* fit_model: both branches produce results on a concrete input *)
Definition ex_x : list (list Q) :=
  [[1; -1; 2; 0; 1; -2; 1; 1; -1; 0; 2; -1]; [0; 1; -1; 1; 2; 0; -1; 1; 0; -2; 1; 1]].
Lemma C11_ex_fit_fixed :
  match fit_model (mat_ops 2) (rxx_of ex_x) (fun _ m => inject_Z (Z.of_nat m)) (Some 2%nat) 10 with
  | FMOk o Rx cf _ => (o, length Rx, length cf) = (2, 3, 2)%nat | FMValueError => False end.
Proof. vm_compute. reflexivity. Qed.
Lemma C11_ex_fit_select :
  match fit_model (mat_ops 2) (rxx_of ex_x) (fun _ m => nth m [3; 2; 1; 5; 0] 0) None 10 with
  | FMOk o Rx cf _ => (o, length Rx, length cf) = (2, 3, 2)%nat | FMValueError => False end.
Proof. vm_compute. reflexivity. Qed.

(* crosscov / autocov on concrete data: lag 1 of channels (0, 1) is the mean of x0(t+1) x1(t) *)
Lemma C11_ex_crosscov :
  Qeq_bool (nth 1 (nth 1 (nth 0 (crosscov_vector ex_x ex_x 3) []) []) 0)
           (sumn (fun t => nth (t + 1) (nth 0 ex_x []) 0 * nth t (nth 1 ex_x []) 0) 11 / 11) = true
  /\ negb (Qeq_bool (nth 1 (nth 1 (nth 0 (crosscov_vector ex_x ex_x 3) []) []) 0)
                    (nth 1 (nth 0 (nth 1 (crosscov_vector ex_x ex_x 3) []) []) 0)) = true.
Proof. split; vm_compute; reflexivity. Qed.

(* fit_model's hypothesis on the covariance provider is met by the model's own rxx_of *)
Example C11_ex_rxx_length : forall x n, length (rxx_of x n) = n.
Proof. exact rxx_of_length. Qed.

(* MAR_est_solves: rows of equal length and invertible error covariances on concrete data *)
Lemma ex_mar_ok0 : let '(_, _, sf, sb) := lwr_run (mat_ops 2) (rxx_of ex_x 3) 0 in
  meqb 2 (mmul 2 (minv 2 sf) sf) (mid 2) && meqb 2 (mmul 2 (minv 2 sb) sb) (mid 2) = true.
Proof. vm_compute. reflexivity. Qed.
Lemma ex_mar_ok1 : let '(_, _, sf, sb) := lwr_run (mat_ops 2) (rxx_of ex_x 3) 1 in
  meqb 2 (mmul 2 (minv 2 sf) sf) (mid 2) && meqb 2 (mmul 2 (minv 2 sb) sb) (mid 2) = true.
Proof. vm_compute. reflexivity. Qed.
Example C11_ex_MAR_est_hypotheses_met :
  (forall i, (i < length ex_x)%nat -> length (nth i ex_x []) = length (nth 0 ex_x [])) /\
  steps_ok (mat_ops (length ex_x)) (meq (length ex_x)) (rxx_of ex_x (2 + 1)) 2.
Proof.
  split.
  - intros i Hi. destruct i as [|[|i]]; [reflexivity|reflexivity|simpl in Hi; lia].
  - change (length ex_x) with 2%nat. change (2 + 1)%nat with 3%nat.
    intros p Hp. destruct p as [|[|p]]; [| |lia].
    + pose proof ex_mar_ok0 as H. destruct (lwr_run (mat_ops 2) (rxx_of ex_x 3) 0) as [[[a b] sf] sb].
      apply andb_prop in H as [H1 H2]. split; apply meqb_sound; assumption.
    + pose proof ex_mar_ok1 as H. destruct (lwr_run (mat_ops 2) (rxx_of ex_x 3) 1) as [[[a b] sf] sb].
      apply andb_prop in H as [H1 H2]. split; apply meqb_sound; assumption.
Qed.

(* generate_mar: the module hypotheses are met by vectors = Q, matrices = Q *)
Example C11_ex_generate_mar_hypotheses_met :
  Equivalence Qeq /\ Proper (Qeq ==> Qeq ==> Qeq) Qplus /\
  (forall a b c, a + (b + c) == (a + b) + c) /\ (forall a b, a + b == b + a) /\
  (forall a, a + 0 == a) /\ (forall a b, (a - b) + b == a).
Proof.
  split; [exact Q_Setoid|]. split; [exact Qplus_comp|].
  repeat split; intros; ring.
Qed.
Example C11_ex_generate_mar :
  let X := generate_mar_from Qminus Qmult 0 0 [1#2; -(1#4)] [1; 2; 3; 4] in
  X = [1; 3 # 2; 5 # 2; 25 # 8]%Q \/ Forall2 Qeq X [1; 3 # 2; 5 # 2; 25 # 8].
Proof. right. vm_compute. repeat constructor. Qed.

(* positive-definiteness: two channels, order 1, lags with a non-symmetric R(1); the block-Toeplitz
   form is 2(a^2+b^2+c^2+d^2) + a d = 3/2 a^2 + 3/2 d^2 + 1/2 (a+d)^2 + 2 b^2 + 2 c^2 *)
Definition pd_r : list mat := [ [[2; 0]; [0; 2]];  [[0; 1#2]; [0; 0]] ].
Lemma pd_blocks :
  Rlag (mat_ops 2) pd_r 0 0 = [[2; 0]; [0; 2]] /\ Rlag (mat_ops 2) pd_r 1 1 = [[2; 0]; [0; 2]] /\
  Rlag (mat_ops 2) pd_r 1 0 = [[0; 1#2]; [0; 0]] /\ Rlag (mat_ops 2) pd_r 0 1 = [[0; 0]; [1#2; 0]].
Proof. vm_compute. repeat split. Qed.
Lemma sq_pos (x : Q) : ~ x == 0 -> 0 < x * x.
Proof.
  intros H. destruct (Qlt_le_dec 0 (x * x)) as [|Hle]; [assumption|].
  exfalso. apply H. pose proof (sq_nonneg x). assert (E : x * x == 0) by lra.
  destruct (Qmult_integral _ _ E); assumption.
Qed.
Lemma pd_form w :
  qformT 2 pd_r 1 w ==
  2 * (w O O * w O O + w O (S O) * w O (S O) + w (S O) O * w (S O) O + w (S O) (S O) * w (S O) (S O))
  + w O O * w (S O) (S O).
Proof.
  destruct pd_blocks as (B00 & B11 & B10 & B01).
  unfold qformT, bform, vdot, mvec. cbn [sumn]. rewrite B00, B11, B10, B01. cbn [mget nth]. ring.
Qed.
Example C11_ex_block_toeplitz_pd :
  forall w, (exists i, (i <= 1)%nat /\ vnonzero 2 (w i)) -> 0 < qformT 2 pd_r 1 w.
Proof.
  intros w (i & Hi & b & Hb & Hnz). rewrite pd_form.
  pose proof (sq_nonneg (w O O)) as Ha. pose proof (sq_nonneg (w O (S O))) as Hb'.
  pose proof (sq_nonneg (w (S O) O)) as Hc. pose proof (sq_nonneg (w (S O) (S O))) as Hd.
  pose proof (sq_nonneg (w O O + w (S O) (S O))) as Hs.
  pose proof (sq_pos _ Hnz) as Hp.
  destruct i as [|[|i]]; [| |lia]; destruct b as [|[|b]]; try lia; lra.
Qed.
Lemma pd_ok0 : let '(_, _, sf, sb) := lwr_run (mat_ops 2) pd_r 0 in
  meqb 2 (mmul 2 (minv 2 sf) sf) (mid 2) && meqb 2 (mmul 2 (minv 2 sb) sb) (mid 2) = true.
Proof. vm_compute. reflexivity. Qed.
Example C11_ex_posdef_hypotheses_met :
  length pd_r = 2%nat /\ meq 2 (mtr 2 (nth 0 pd_r (mzero 2))) (nth 0 pd_r (mzero 2)) /\
  steps_ok (mat_ops 2) (meq 2) pd_r 1 /\
  (forall w, (exists i, (i <= 1)%nat /\ vnonzero 2 (w i)) -> 0 < qformT 2 pd_r 1 w) /\
  vnonzero 2 (fun a => if Nat.eqb a 0 then 1 else -(1)).
Proof.
  split; [reflexivity|]. split; [apply meqb_sound; vm_compute; reflexivity|]. split.
  - intros p Hp. destruct p as [|p]; [|lia].
    pose proof pd_ok0 as H. destruct (lwr_run (mat_ops 2) pd_r 0) as [[[a b] sf] sb].
    apply andb_prop in H as [H1 H2]. split; apply meqb_sound; assumption.
  - split; [exact C11_ex_block_toeplitz_pd|]. exists 0%nat. split; [lia|]. simpl. intros H; discriminate H.
Qed.
(* and the resulting innovation covariance of the example, [[15/8, 0], [0, 2]] *)
Lemma C11_ex_posdef_sigma :
  meqb 2 (snd (lwr_recursion (mat_ops 2) pd_r)) [[15#8; 0]; [0; 2]] = true.
Proof. vm_compute. reflexivity. Qed.

(* scale equivariance: with two channels and the adjugate inverse every hypothesis of
   C11_lwr_scale_equivariant_matrices holds, for q = 2^-80 (volts^2 instead of microvolt^2 ...) *)
Example C11_ex_scale_hypotheses_met :
  let q := 1 # (2 ^ 80) in
  ~ q == 0 /\ Proper (meq 2 ==> meq 2) minv2 /\
  (forall x, meq 2 (mmul 2 (minv2 x) x) (mid 2) ->
             meq 2 (minv2 (mmul 2 (mscal 2 q) x)) (mmul 2 (mscal 2 (/ q)) (minv2 x))) /\
  length ex_r = 3%nat /\ steps_ok (mat_ops_with 2 minv2) (meq 2) ex_r 2.
Proof.
  intros q. assert (Hq : ~ q == 0) by (intro H; discriminate H).
  split; [exact Hq|]. split; [exact minv2_proper|]. split; [intros x _; apply minv2_scale; exact Hq|].
  destruct C11_ex_perm_hypotheses_met as (_ & _ & _ & L & Hok). split; assumption.
Qed.
