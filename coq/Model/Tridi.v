(* Model/Tridi.v — the symmetric tridiagonal solver `tridisolve`, as written.

   Source modelled (definitions only; proofs are in Proofs/TridiP.v):
     nitime/utils.py  888-932   pure-Python `tridisolve(d, e, b, overwrite_b)`
     nitime/_utils.pyx 13-72    the Cython form (identical statement sequence; typed buffers)
   line by line:
     N = len(b); dw = d.copy(); ew = e.copy(); x = b (or b.copy())        -> `tridisolve`
     for k in range(1, N):  t = ew[k-1]; ew[k-1] = t/dw[k-1];
                            dw[k] = dw[k] - t*ew[k-1]                      -> `elim_step`, `loop1`
     for k in range(1, N):  x[k] = x[k] - ew[k-1]*x[k-1]                   -> `fwd_step`,  `loop2`
     x[N-1] = x[N-1]/dw[N-1]                                               -> `scale_last`
     for k in range(N-2, -1, -1): x[k] = x[k]/dw[k] - ew[k]*x[k+1]         -> `back_step`, `loop3`
   Arrays are lists of Q with in-place update `upd` and read `get` (default 0 — every theorem
   states the length guards under which no default is ever read).  Arithmetic is exact in Q;
   `Qred` only normalises the representation (Qred q == q) so that the model can be executed by
   vm_compute on the correspondence cases.  Division by a zero pivot: Q's x/0 = 0 is NOT what the
   code does (compiled: ZeroDivisionError; numpy scalars: inf/nan) — `zero_pivot` detects that
   class and all theorems carry the explicit guard "all pivots non-zero".
   N = 0: the code raises IndexError at x[N-1]; the model returns []; not in any theorem's scope.

   Also here: one step of `tridi_inverse_iteration` (utils.py 960, 970): the solve with the
   shifted diagonal d - w.  The normalisation by np.linalg.norm and the stopping rule are
   floating-point/library matters and are not modelled (see Props/C07.v, "partial"). *)
From Coq Require Import QArith List Arith Bool.
Import ListNotations.
Open Scope Q_scope.

Definition get (l : list Q) (k : nat) : Q := nth k l 0.

Fixpoint upd (l : list Q) (k : nat) (v : Q) : list Q :=
  match l, k with
  | [], _ => []
  | _ :: t, O => v :: t
  | h :: t, S k' => h :: upd t k' v
  end.

(* loop 1: LDL^T factorisation in the work vectors (dw, ew) *)
Definition elim_step (st : list Q * list Q) (k : nat) : list Q * list Q :=
  let dw := fst st in
  let ew := snd st in
  let t := get ew (k - 1) in
  let ew' := upd ew (k - 1) (Qred (t / get dw (k - 1))) in
  let dw' := upd dw k (Qred (get dw k - t * get ew' (k - 1))) in
  (dw', ew').
Definition loop1 (N : nat) (dw ew : list Q) : list Q * list Q :=
  fold_left elim_step (seq 1 (N - 1)) (dw, ew).

(* loop 2: forward sweep on the right-hand side *)
Definition fwd_step (ew x : list Q) (k : nat) : list Q :=
  upd x k (Qred (get x k - get ew (k - 1) * get x (k - 1))).
Definition loop2 (N : nat) (ew x : list Q) : list Q :=
  fold_left (fwd_step ew) (seq 1 (N - 1)) x.

Definition scale_last (N : nat) (dw x : list Q) : list Q :=
  upd x (N - 1) (Qred (get x (N - 1) / get dw (N - 1))).

(* loop 3: back substitution, k = N-2, N-3, ..., 0 ; `loop3 .. x m` runs k = m-1 down to 0 *)
Definition back_step (dw ew x : list Q) (k : nat) : list Q :=
  upd x k (Qred (get x k / get dw k - get ew k * get x (S k))).
Fixpoint loop3 (dw ew x : list Q) (m : nat) : list Q :=
  match m with
  | O => x
  | S k => loop3 dw ew (back_step dw ew x k) k
  end.

Definition tridisolve (d e b : list Q) : list Q :=
  let N := length b in
  let st := loop1 N d e in
  let dw := fst st in
  let ew := snd st in
  loop3 dw ew (scale_last N dw (loop2 N ew b)) (N - 1).

(* the pivots of the factorisation (the values the code divides by), as a recurrence *)
Fixpoint pivot (d e : list Q) (k : nat) : Q :=
  match k with
  | O => get d 0
  | S k' => get d k - get e k' * (get e k' / pivot d e k')
  end.

(* executable test: some pivot among 0..N-1 is zero (read off the model's own work vector) *)
Definition zero_pivot (d e : list Q) (N : nat) : bool :=
  existsb (fun q => Qeq_bool q 0) (firstn N (fst (loop1 N d e))).

(* row k of T(d,e) . x for the symmetric tridiagonal T: diagonal d[0..N-1], off-diagonal e[0..N-2] *)
Definition Trow (d e x : list Q) (N k : nat) : Q :=
  (if (0 <? k)%nat then get e (k - 1) * get x (k - 1) else 0)
  + get d k * get x k
  + (if (S k <? N)%nat then get e k * get x (S k) else 0).

(* tridi_inverse_iteration, the solve of one pass: eig_diag = d - w ; tridisolve(eig_diag, e, x0) *)
Definition shift (d : list Q) (w : Q) : list Q := map (fun a => a - w) d.
Definition inviter_solve (d e : list Q) (w : Q) (x0 : list Q) : list Q := tridisolve (shift d w) e x0.
