(* Model/Dpss.v — the discrete / algebraic logic of `dpss_windows` and of the low_bias selection.

   Source modelled (definitions only; proofs are in Proofs/DpssP.v):
     nitime/utils.py 653-655  diagonal / off-diagonal of the tridiagonal problem    -> `diag_entry`, `offdiag_entry`
                              (np.cos(2*pi*W) is a library value passed in as `c`)
     nitime/utils.py 661-663  eigvals_banded (LAPACK, ascending) then w[::-1]        -> `rev` (lists)
     nitime/utils.py 676-679  even-order rows: flip when the row sum is < 0          -> `fix_even`
     nitime/utils.py 682-685  odd-order rows: p = argmax |row[:N//2]| (first maximum),
                              flip when sum(row[:p]) < 0                             -> `argmax_abs`, `fix_odd`
                              both loops over the rows by parity of the row index    -> `fix_signs`
     nitime/utils.py 689-692  dpss_rxx = autocorr(dpss)*N ; r = 4W sinc(2W n), r[0] = 2W ;
                              eigvals = dpss_rxx . r                                 -> `acorr`, `rvec`, `conc`
                              (autocorr(v)*N is the lagged sum  sum_t v[t+n] v[t]; it is computed by
                               FFT convolution in utils.py 1033-1043 — a library kernel; np.sinc values
                               are passed in as `sinc2w n` = sinc(2 W n))
     nitime/utils.py 628      d_temp / sqrt(sum(d_temp**2))  (interpolated tapers)   -> `rescale`
                              (the value of sqrt is passed in as `nrm`)
     nitime/utils.py 742-745  keepers = eigvals > 0.9 ; dpss[keepers] ; eigvals[keepers] -> `mask09`, `select`, `low_bias`
   Not modelled: LAPACK eigvals_banded, the convergence of tridi_inverse_iteration (np.linalg.norm,
   stopping rule), scipy interp1d, FFT.  They enter as data / hypotheses. *)
From Coq Require Import QArith List Arith Bool.
From NT Require Import Sums Tridi.
Import ListNotations.
Open Scope Q_scope.

(* ---- sums with normalised accumulation (for execution); sumn_r f n == sumn f n *)
Fixpoint sumn_r (f : nat -> Q) (n : nat) : Q :=
  match n with O => 0 | S n' => Qred (sumn_r f n' + f n') end.

Fixpoint lsum (v : list Q) : Q :=
  match v with [] => 0 | a :: v' => Qred (a + lsum v') end.
Definition neg (v : list Q) : list Q := map Qopp v.
Definition sumsq (v : list Q) : Q := lsum (map (fun a => a * a) v).
Definition dot (u v : list Q) : Q := sumn_r (fun k => get u k * get v k) (length u).

(* ---- tridiagonal problem set-up: N as a natural number, k the index; c = cos(2 pi W) *)
Definition qn (n : nat) : Q := inject_Z (Z.of_nat n).
Definition diag_entry (N : nat) (c : Q) (k : nat) : Q :=
  ((qn N - 1 - 2 * qn k) / 2) * ((qn N - 1 - 2 * qn k) / 2) * c.
Definition offdiag_entry (N : nat) (k : nat) : Q :=        (* off_diag[k], k = 0..N-1; last entry 0 *)
  if (S k <? N)%nat then qn (S k) * (qn N - qn (S k)) / 2 else 0.

(* ---- sign convention *)
Definition Qabsq (x : Q) : Q := if Qle_bool 0 x then x else - x.
Definition is_neg (x : Q) : bool := negb (Qle_bool 0 x).            (* x < 0 *)

(* np.argmax(np.abs(l)): index of the first maximum *)
Fixpoint argmax_abs_from (l : list Q) (i bi : nat) (bv : Q) : nat :=
  match l with
  | [] => bi
  | a :: l' => if Qle_bool (Qabsq a) bv then argmax_abs_from l' (S i) bi bv
               else argmax_abs_from l' (S i) i (Qabsq a)
  end.
Definition argmax_abs (l : list Q) : nat :=
  match l with [] => O | a :: l' => argmax_abs_from l' 1 0 (Qabsq a) end.

Definition fix_even (v : list Q) : list Q := if is_neg (lsum v) then neg v else v.
Definition lobe (N : nat) (v : list Q) : Q := lsum (firstn (argmax_abs (firstn (N / 2) v)) v).
Definition fix_odd (N : nat) (v : list Q) : list Q := if is_neg (lobe N v) then neg v else v.

Fixpoint fix_signs_from (N k : nat) (rows : list (list Q)) : list (list Q) :=
  match rows with
  | [] => []
  | v :: r => (if Nat.even k then fix_even v else fix_odd N v) :: fix_signs_from N (S k) r
  end.
Definition fix_signs (N : nat) (rows : list (list Q)) : list (list Q) := fix_signs_from N 0 rows.

(* ---- concentration through the autocorrelation sequence *)
(* N * autocorr(v)[n] : the lagged sum *)
Definition acorr (v : nat -> Q) (N n : nat) : Q := sumn_r (fun t => v (t + n)%nat * v t) (N - n).
(* r = 4*W*sinc(2*W*nidx); r[0] = 2*W *)
Definition rvec (W : Q) (sinc2w : nat -> Q) (n : nat) : Q :=
  match n with O => 2 * W | _ => 4 * W * sinc2w n end.
Definition conc (W : Q) (sinc2w : nat -> Q) (v : nat -> Q) (N : nat) : Q :=
  sumn_r (fun n => acorr v N n * rvec W sinc2w n) N.
(* the band-limiting (sinc) kernel  S[i,j] = sin(2 pi W (i-j)) / (pi (i-j)) = 2W sinc(2W(i-j)),  S[i,i] = 2W *)
Definition dist (i j : nat) : nat := ((i - j) + (j - i))%nat.
Definition sinc_kernel (W : Q) (sinc2w : nat -> Q) (i j : nat) : Q := 2 * W * sinc2w (dist i j).
Definition quadform (S : nat -> nat -> Q) (v : nat -> Q) (N : nat) : Q :=
  sumn (fun i => sumn (fun j => v i * S i j * v j) N) N.
Definition matvec (S : nat -> nat -> Q) (v : nat -> Q) (N i : nat) : Q := sumn (fun j => S i j * v j) N.

(* ---- interpolated tapers: rescaling *)
Definition rescale (v : list Q) (nrm : Q) : list Q := map (fun a => a / nrm) v.

(* ---- low_bias selection *)
(* the float64 literal 0.9 = 0x1.ccccccccccccdp-1, exactly *)
Definition thr09 : Q := 8106479329266893 # 9007199254740992.
Definition gtb (thr x : Q) : bool := negb (Qle_bool x thr).          (* x > thr *)
Definition mask09 (ev : list Q) : list bool := map (gtb thr09) ev.
Fixpoint select {A} (m : list bool) (l : list A) : list A :=
  match m, l with
  | b :: m', a :: l' => if b then a :: select m' l' else select m' l'
  | _, _ => []
  end.
Definition low_bias {A} (dpss : list A) (ev : list Q) : list A * list Q :=
  (select (mask09 ev) dpss, select (mask09 ev) ev).

(* ---- order predicates on lists *)
Definition asc (l : list Q) : Prop := forall i j, (i <= j < length l)%nat -> get l i <= get l j.
Definition desc (l : list Q) : Prop := forall i j, (i <= j < length l)%nat -> get l j <= get l i.
