(* Model/Entropy.v — model of nitime/algorithms/entropy.py (property C20, information measures).

   Source lines modelled (nitime/algorithms/entropy.py):
     entropy              7-30   -> entropy_gen   (joint histogram over itertools.product of the
                                                   per-variable symbol sets, p = mean(v), the
                                                   `if p > 0` guard, the running sum)
     conditional_entropy 33-39   -> cond_entropy_gen      H(y,x) - H(y)
     mutual_information  42-58   -> mutual_info_gen       H(x) + H(y) - H(x,y)
     entropy_cc          61-71   -> entropy_cc_args       (the argument of the sqrt)
     transfer_entropy    74-107  -> transfer_entropy_gen  (np.roll(x,-lag); the four entropies)

   Symbols are integers (Z).  `set(x)` is modelled by `nodup` (the iteration order of a Python
   set is immaterial: the measure is a sum over cells).  A sample t of the variables X_0..X_{m-1}
   is the tuple [X_0[t]; ..; X_{m-1}[t]] (`rows`); the number of samples on which the logical AND
   of `X_i == c_i` holds is `count_occ` of the cell c in `rows X` (all variables have the same
   length — the implementation raises otherwise).  p = count / n_instances with
   n_instances = len(X[0]).

   Taken from numpy: np.log2.  The model is generic in the value type V and in the per-cell term
   `term k n` (= -(k/n) * log2 (k/n)); it is instantiated
     * in Check/C20K.v with V = Q and log2 (k/n) read from a table supplied as data (np.log2 called
       by the harness on the same p), so that the correspondence compares nitime's own logic;
     * in Proofs/EntropyP.v with V = R and the real logarithm, for the theorems.
   No proofs here. *)
From Coq Require Import ZArith List Bool Arith.
Import ListNotations.

Definition tuple := list Z.
Definition tuple_eq_dec : forall a b : tuple, {a = b} + {a <> b} := list_eq_dec Z.eq_dec.

(* set(x) *)
Definition symset (x : list Z) : list Z := nodup Z.eq_dec x.

(* itertools.product over the sets *)
Fixpoint product (sets : list (list Z)) : list tuple :=
  match sets with
  | [] => [[]]
  | s :: rest => flat_map (fun a => map (cons a) (product rest)) s
  end.

(* the samples as tuples *)
Definition zipcons (x : list Z) (rs : list tuple) : list tuple :=
  map (fun ar => fst ar :: snd ar) (combine x rs).
Fixpoint rows (X : list (list Z)) : list tuple :=
  match X with
  | [] => []
  | [x] => map (fun a => [a]) x
  | x :: rest => zipcons x (rows rest)
  end.

Definition cell_count (rs : list tuple) (c : tuple) : nat := count_occ tuple_eq_dec rs c.

(* np.roll(x, -lag): out[t] = x[(t + lag) mod n] *)
Definition roll_left (x : list Z) (lag : nat) : list Z :=
  let n := length x in
  match n with O => x | _ => skipn (lag mod n) x ++ firstn (lag mod n) x end.

Section Gen.
  Variable V : Type.
  Variables (v0 : V) (vadd vsub : V -> V -> V).
  (* term k n = - p * log2 p  with p = k / n, used only for k > 0 *)
  Variable term : nat -> nat -> V.

  Definition cell_term (n : nat) (rs : list tuple) (c : tuple) : V :=
    let k := cell_count rs c in if (0 <? k)%nat then term k n else v0.

  Definition entropy_gen (X : list (list Z)) : V :=
    let n := length (hd [] X) in
    let rs := rows X in
    fold_right (fun c acc => vadd (cell_term n rs c) acc) v0 (product (map symset X)).

  (* conditional_entropy(x, y) = entropy(y, x) - entropy(y) *)
  Definition cond_entropy_gen (x y : list Z) : V :=
    vsub (entropy_gen [y; x]) (entropy_gen [y]).

  (* mutual_information(x, y) = H_x + H_y - H_xy *)
  Definition mutual_info_gen (x y : list Z) : V :=
    vsub (vadd (entropy_gen [x]) (entropy_gen [y])) (entropy_gen [x; y]).

  (* entropy_cc(x, y) = sqrt (I(y,x) / (0.5 * (H_x + H_y))) : numerator and the sum H_x + H_y *)
  Definition entropy_cc_args (x y : list Z) : V * V :=
    (mutual_info_gen y x, vadd (entropy_gen [x]) (entropy_gen [y])).

  (* transfer_entropy(x, y, lag) *)
  Definition transfer_entropy_gen (x y : list Z) (lag : nat) : V :=
    let Fi := roll_left x lag in
    let Pi := x in
    let Pj := y in
    let a := cond_entropy_gen Fi Pi in
    let b := vsub (entropy_gen [Fi; Pj; Pi]) (entropy_gen [Pi; Pj]) in
    vsub a b.
End Gen.
