(* Model/Csd.v — executable model of nitime's all-pairs cross-spectral estimators (property C06,
   and the "all-pairs periodogram" of C04).  Definitions only; proofs in Proofs/CsdP.v.

   X, Y : channel -> spectrum (the rows of scipy.fftpack.fft's output, taken as data).
   Source lines (nitime/algorithms/spectral.py):
     pcsd_pairs     335-358  periodogram_csd: csd_pairs = zeros((M,M,len)); lower-triangle loops
                             `for i in range(M): for j in range(i+1)`; one-sided assembly per pair;
                             `csd_pairs /= (Fs * s.shape[-1])` (as repaired, see known_findings "fixed")
     herm_complete  360-363, 723-726  csd_mat = csd_pairs.transpose(1,0,2).conj(); csd_mat += csd_pairs;
                             csd_mat[diag] /= 2
     nw_csd         668-676  NW / BW / default derivation of multi_taper_csd
     mtcsd_pairs    708-721  multi_taper_csd: mtm_cross_spectrum(ti, tj, (wi, wj), sides) for j <= i
     mtcsd          723-727  completion, then `csdfs /= Fs`
     welch_*        103-137  get_spectra, Welch branch: defaults, output length, the pair loop
                             `for i in range(M): for j in range(i, M): fxy[i][j] = mlab.csd(ts[j], ts[i], ...)`
     flat_index     310-311, 317, 664-666, 693; utils.py 744  row-major flattening of leading dimensions
   Library oracles: fft, sqrt (the per-channel norms d i f = (sum_k |w_ik(f)|^2)^0.5 are arguments),
   matplotlib.mlab.csd (argument `lib`: lib a b = the spectrum mlab.csd returns for (ts[a], ts[b])). *)
From Coq Require Import QArith List Arith Bool.
From NT Require Import QC Sums Spectral.
Import ListNotations.
Open Scope Q_scope.

Definition herm_complete (pairs : nat -> nat -> nat -> C) (i j f : nat) : C :=
  let m := cadd (cconj (pairs j i f)) (pairs i j f) in
  if i =? j then cscale (1 # 2) m else m.

Definition pcsd_pairs (sd : sides) (normalize : bool) (N n : nat) (Fs : Q) (X : nat -> sig)
           (i j : nat) : nat -> C :=
  if j <=? i then
    let q := fun f => cmulf (X i f) (cconj (X j f)) in
    let v := match sd with
             | OneSided => assemble c0 (cscale 2) N q
             | TwoSided => q
             end in
    if normalize then fun f => cscale (/ (Fs * inj n)) (v f) else v
  else fun _ => c0.

Definition pcsd (sd : sides) (normalize : bool) (N n : nat) (Fs : Q) (X : nat -> sig) : nat -> nat -> nat -> C :=
  herm_complete (pcsd_pairs sd normalize N n Fs X).

(* w : channel -> taper -> bin -> Q ; d : channel -> bin -> Q ; Y : channel -> taper -> spectrum *)
Definition mtcsd_pairs (sd : sides) (N K : nat) (w : nat -> nat -> nat -> Q) (d : nat -> nat -> Q)
           (Y : nat -> nat -> sig) (i j : nat) : nat -> C :=
  if j <=? i then mtm_cross sd N K (w i) (w j) (Y i) (Y j) (fun f => d i f * d j f)
  else fun _ => c0.

Definition mtcsd (sd : sides) (N K : nat) (Fs : Q) (w : nat -> nat -> nat -> Q) (d : nat -> nat -> Q)
           (Y : nat -> nat -> sig) (i j f : nat) : C :=
  cscale (/ Fs) (herm_complete (mtcsd_pairs sd N K w d Y) i j f).

(* multi_taper_csd 668-675: its own copy of the NW / BW derivation, modelled as written there
   (`norm_BW = np.round(BW * N / Fs)` with N = s.shape[-1]; proved equal to multi_taper_psd's in
   Proofs/CsdP.v: nw_csd_is_nw_psd, so the same keywords give the same tapers in both functions) *)
Definition nw_csd (bw nw : option Q) (n : nat) (Fs : Q) : Q :=
  match bw with
  | Some b => inject_Z (qrne (b * inj n / Fs)) / 2
  | None => match nw with Some v => v | None => 4 end
  end.

(* ---- get_spectra, Welch branch *)
Definition welch_default_nfft : nat := 64.
Definition welch_default_overlap (NFFT : nat) : nat := NFFT / 2.      (* int(np.ceil(NFFT // 2)) *)
Definition welch_len (iscomplex : bool) (NFFT : nat) : nat := if iscomplex then NFFT else NFFT / 2 + 1.
(* the calls made, in order: (a, b) stands for mlab.csd(time_series[a], time_series[b], ...) *)
Definition welch_calls (M : nat) : list (nat * nat) :=
  flat_map (fun i => map (fun j => (j, i)) (seq i (M - i))) (seq 0 M).
Definition welch_fxy (lib : nat -> nat -> sig) (i j : nat) : nat -> C :=
  if i <=? j then lib j i else fun _ => c0.

(* row-major position of a multi-index in an array of leading shape dims *)
Fixpoint flat_index (dims idx : list nat) : nat :=
  match dims, idx with
  | _ :: dims', i :: idx' => i * fold_right Nat.mul 1%nat dims' + flat_index dims' idx'
  | _, _ => 0%nat
  end.
