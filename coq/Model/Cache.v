(* Model/Cache.v — executable model of nitime's FFT cache and of the dense Welch reference (C09).

   Source modelled (nitime at /repo after the fix commits a877b11 and 874e1e9; line numbers as of
   /repo commit 533f237):
     utils.zero_pad                 nitime/utils.py 1285-1314           zero_pad
     utils.get_bounds               nitime/utils.py 1221-1243           ss_left / ss_right / get_bounds
                                    (np.searchsorted on a sorted vector = a count)
     cache_fft                      algorithms/cohere.py 894-1032
         default overlap 948                                            cache_default_overlap
         all_channels 959-962                                           chans_of
         band 975-981 (lb_idx, ub_idx, n_freqs, unpaired_idx)           get_bounds, unpaired_idx
         window 983-987, norm_val 993-1001                              norm_val (window values are data)
         i_times 1007, slices 1012-1026 (window * slice, fft[lb:ub])    cache_starts, windows_of, slices_of, cache_fft
     cache_to_psd                   cohere.py 1035-1082                 cache_to_psd, psd_is2d
     cache_to_relative_phase        cohere.py 1128-1194                 relphase_entry
     cache_to_coherency             cohere.py 1197-1282 (four branches) coh_entry, coh_shape, cache_to_coherency
     SeedCoherenceAnalyzer.coherency analysis/coherence.py 667-736      seed_inject, target_cache, seed_row
     dense reference:
       matplotlib.mlab.csd (its contract, as read from mlab._spectral_helper/csd)   mlab_spectrum, mlab_csd
       get_spectra (welch)          algorithms/spectral.py 103-139      dense_default_overlap, dense_fxy
       coherency / coherency_spec   algorithms/cohere.py 24-105         dense_coh

   Not modelled, supplied as data / abstract function:
     the discrete Fourier transform of one real windowed segment (`dft v k`, scipy.fftpack.fft /
     np.fft.fft), the window function evaluated on ones (mlab.window_hanning ...), the frequency
     vector (utils.get_freqs — property C05), sqrt and angle (a coherency value is the symbolic
     `CDivSqrt pxy pxx pyy` = pxy / sqrt (pxx * pyy); a phase is `PAngle z` / `PMeanAngle zs`).
   ndarrays are lists (of lists); FFT_slices[c] has one row per window and one column per bin of
   the band.  dred / dadd / cmuld / csumr are value-preserving normalisations (proved equal to the
   plain Q operations in Proofs/CacheP.v) that keep the fractions short when the model is executed.
   No proofs in this file. *)
From Coq Require Import QArith List Arith ZArith Bool Lia.
From NT Require Import QC Sums.
Import ListNotations.
Open Scope Q_scope.

(* ------------------------------------------------------------------ helpers *)
Fixpoint zipmul (a b : list Q) : list Q :=
  match a, b with
  | x :: a', y :: b' => x * y :: zipmul a' b'
  | _, _ => []
  end.
(* value-preserving normalisation of a fraction: cancel common factors of two (all the numbers met
   here are dyadic up to a small odd factor, so this keeps them short; cheaper than Qred) *)
Fixpoint pstrip (n : Z) (d : positive) : Z * positive :=
  match d with
  | xO d' => if Z.even n then pstrip (Z.div2 n) d' else (n, d)
  | _ => (n, d)
  end.
Definition dred (q : Q) : Q := let (n, d) := pstrip (Qnum q) (Qden q) in Qmake n d.
Definition qsum (l : list Q) : Q := fold_right (fun x acc => dred (x + acc)) 0 l.
Definition sumsq (w : list Q) : Q := qsum (map (fun x => x * x) w).     (* (np.abs(w) ** 2).sum() *)
Definition at2 (l : list (list C)) (s k : nat) : C := nth k (nth s l []) c0.
Definition cred (z : C) : C := (dred (re z), dred (im z)).
(* addition that aligns binary exponents when both denominators are powers of two (same value as Qplus) *)
Fixpoint plog2 (d : positive) : option nat :=
  match d with xH => Some 0%nat | xO d' => option_map S (plog2 d') | xI _ => None end.
Definition dadd (x y : Q) : Q :=
  match plog2 (Qden x), plog2 (Qden y) with
  | Some a, Some b =>
      if (a <=? b)%nat then Qmake (Z.shiftl (Qnum x) (Z.of_nat (b - a)) + Qnum y) (Qden y)
      else Qmake (Qnum x + Z.shiftl (Qnum y) (Z.of_nat (a - b))) (Qden x)
  | _, _ => x + y
  end.
Definition caddd (a b : C) : C := (dadd (re a) (re b), dadd (im a) (im b)).
(* complex product with the aligned addition (same value as QC.cmul) *)
Definition cmuld (a b : C) : C :=
  (dadd (re a * re b) (- (im a * im b)), dadd (re a * im b) (im a * re b)).
(* sum_{s<n} f s with reduced fractions (same value as QC.csumn) *)
Fixpoint csumr (f : nat -> C) (n : nat) : C :=
  match n with O => c0 | S n' => cred (caddd (csumr f n') (f n')) end.
Definition nq (n : nat) : Q := inject_Z (Z.of_nat n).
(* np.mean(A, 0) of an n-row array, one column *)
Definition cmean (f : nat -> C) (n : nat) : C := cscale (/ nq n) (csumr f n).

(* ------------------------------------------------------------------ utils.zero_pad (last axis) *)
Definition zero_pad (x : list Q) (nfft : nat) : list Q :=
  if (length x <? nfft)%nat then x ++ repeat 0 (nfft - length x) else x.

(* ------------------------------------------------------------------ utils.get_bounds *)
Definition ss_left (f : list Q) (v : Q) : nat := length (filter (fun a => negb (Qle_bool v a)) f).
Definition ss_right (f : list Q) (v : Q) : nat := length (filter (fun a => Qle_bool a v) f).
Definition get_bounds (f : list Q) (lb : Q) (ub : option Q) : nat * nat :=
  (ss_left f lb, match ub with None => length f | Some u => ss_right f u end).

(* ------------------------------------------------------------------ segmentation *)
(* python range(0, stop, step), step > 0 *)
Fixpoint pyrange_aux (fuel cur stop step : nat) : list nat :=
  match fuel with
  | O => []
  | S f => if (cur <? stop)%nat then cur :: pyrange_aux f (cur + step) stop step else []
  end.
Definition pyrange (stop step : nat) : list nat := pyrange_aux stop 0 stop step.

Definition cache_default_overlap (nfft : nat) : nat := (nfft / 2)%nat.   (* cohere.py:947 NFFT // 2 *)
Definition dense_default_overlap (nfft : nat) : nat := (nfft / 2)%nat.   (* spectral.py:106 int(np.ceil(NFFT // 2)) *)

(* i_times = range(0, n_time_points - NFFT + 1, NFFT - n_overlap)  (cohere.py:1006) *)
Definition cache_starts (n nfft ovl : nat) : list nat := pyrange (n - nfft + 1) (nfft - ovl).
(* mlab: sliding_window_view(x, NFFT)[::NFFT - noverlap] : every step-th of the n-NFFT+1 windows *)
Definition dense_starts (n nfft ovl : nat) : list nat :=
  let step := (nfft - ovl)%nat in
  map (fun q => (q * step)%nat) (seq 0 ((n - nfft + 1 + step - 1) / step)).

Definition segment (x : list Q) (t nfft : nat) : list Q := firstn nfft (skipn t x).

(* the windowed segments of one channel: window_vals * time_series[c, t:t+NFFT] *)
Definition windows_at (starts : nat -> nat -> nat -> list nat) (wv x : list Q) (nfft ovl : nat) : list (list Q) :=
  let xp := zero_pad x nfft in
  map (fun t => zipmul wv (segment xp t nfft)) (starts (length xp) nfft ovl).
Definition windows_of := windows_at cache_starts.

Section WithDFT.
(* bin k of the DFT of a real sequence: fftpack.fft(v)[k] *)
Variable dft : list Q -> nat -> C.

(* Slices[iSlice, :] = fft(window_vals * thisSlice)[lb_idx:ub_idx] *)
Definition slices_of (wv x : list Q) (nfft ovl lbi ubi : nat) : list (list C) :=
  map (fun v => map (dft v) (seq lbi (ubi - lbi))) (windows_of wv x nfft ovl).

(* ------------------------------------------------------------------ cache_fft *)
Definition chans_of (ij : list (Z * Z)) : list Z :=
  nodup Z.eq_dec (flat_map (fun p => [fst p; snd p]) ij).

Fixpoint lookup {A} (k : Z) (t : list (Z * A)) (d : A) : A :=
  match t with
  | [] => d
  | (k', v) :: t' => if (k =? k')%Z then v else lookup k t' d
  end.

Definition norm_val (wv : list Q) (fs : Q) (sbf : bool) : Q :=
  if sbf then sumsq wv * (fs / 2) else sumsq wv / 2.

(* unpaired = [0] if NFFT % 2 else [0, NFFT // 2];
   unpaired_idx = [k - lb_idx for k in unpaired if lb_idx <= k < ub_idx] *)
Definition unpaired (nfft : nat) : list nat := if Nat.odd nfft then [0%nat] else [0%nat; (nfft / 2)%nat].
Definition unpaired_idx (nfft lbi ubi : nat) : list nat :=
  map (fun k => (k - lbi)%nat) (filter (fun k => (lbi <=? k)%nat && (k <? ubi)%nat) (unpaired nfft)).

Record cache := mkCache {
  c_sl : Z -> list (list C);                 (* FFT_slices *)
  c_conj : option (Z -> list (list C));      (* FFT_conj_slices; None = the empty dict *)
  c_nv : Q;                                  (* norm_val *)
  c_unpaired : list nat;                     (* unpaired_idx *)
  c_first : Z                                (* key of list(FFT_slices.items())[0] *)
}.

Definition conj_rows (a : list (list C)) : list (list C) := map (map cconj) a.

Definition cache_fft (ts : Z -> list Q) (ij : list (Z * Z)) (wv : list Q) (nfft : nat) (ovl : option nat)
           (fs : Q) (sbf psm : bool) (lbi ubi : nat) : cache :=
  let o := match ovl with Some o => o | None => cache_default_overlap nfft end in
  let tbl := map (fun c => (c, slices_of wv (ts c) nfft o lbi ubi)) (chans_of ij) in
  let ctbl := map (fun e => (fst e, conj_rows (snd e))) tbl in
  mkCache (fun c => lookup c tbl [])
          (if psm then Some (fun c => lookup c ctbl []) else None)
          (norm_val wv fs sbf) (unpaired_idx nfft lbi ubi) (hd 0%Z (chans_of ij)).

End WithDFT.

(* ------------------------------------------------------------------ cache_to_psd *)
Definition prod_sl (a b : list (list C)) (s k : nat) : C := cmuld (at2 a s k) (at2 b s k).

(* FFT_conj_slices[i] if the dict is non-empty, else np.conjugate(FFT_slices[i]) *)
Definition conj_sl (ch : cache) (key : Z) : list (list C) :=
  match c_conj ch with Some f => f key | None => conj_rows (c_sl ch key) end.

Definition cache_to_psd (ch : cache) (key : Z) (k : nat) : C :=
  let a := c_sl ch key in
  let b := conj_sl ch key in
  let nw := length a in
  let p := if (1 <? nw)%nat then cmean (fun s => prod_sl a b s k) nw else prod_sl a b 0 k in
  let p := cscale (/ c_nv ch) p in
  if existsb (Nat.eqb k) (c_unpaired ch) then cscale (1 # 2) p else p.
(* the result keeps a leading axis of length 1 when there is a single window *)
Definition psd_is2d (ch : cache) (key : Z) : bool := negb (1 <? length (c_sl ch key))%nat.

(* ------------------------------------------------------------------ cache_to_coherency *)
(* a value  pxy / sqrt (pxx * pyy)  kept symbolic, or an untouched cell of np.zeros *)
Inductive cval := CZero | CDivSqrt (pxy pxx pyy : C).

Definition trip_mean (nv : Q) (A Ac B Bc : list (list C)) (k : nat) : cval :=
  CDivSqrt (cscale (/ nv) (cmean (fun s => prod_sl A Bc s k) (length A)))
           (cscale (/ nv) (cmean (fun s => prod_sl A Ac s k) (length A)))
           (cscale (/ nv) (cmean (fun s => prod_sl B Bc s k) (length B))).
Definition trip_one (nv : Q) (A Ac B Bc : list (list C)) (k : nat) : cval :=
  CDivSqrt (cscale (/ nv) (prod_sl A Bc 0 k))
           (cscale (/ nv) (prod_sl A Ac 0 k))
           (cscale (/ nv) (prod_sl B Bc 0 k)).

(* the body of the four loops (cohere.py 1231-1278) for one pair and one bin *)
Definition coh_entry (ch : cache) (i j : Z) (k : nat) : cval :=
  let A := c_sl ch i in
  let B := c_sl ch j in
  if (1 <? length (c_sl ch (c_first ch)))%nat then
    match c_conj ch with
    | Some cj => trip_mean (c_nv ch) A (cj i) B (cj j) k
    | None => trip_mean (c_nv ch) A (conj_rows A) B (conj_rows B) k
    end
  else
    match c_conj ch with
    | Some cj => trip_one (c_nv ch) A (cj i) B (cj j) k
    | None => trip_one (c_nv ch) A (conj_rows A) B (conj_rows B) k
    end.

Definition zmax_list (l : list Z) : Z := fold_right Z.max (hd 0%Z l) l.
(* channels_i = max(1, max(ij[:,0]) + 1), channels_j likewise, freqs = FFT_slices[ij[0][0]].shape[-1] *)
Definition coh_shape (ch : cache) (ij : list (Z * Z)) : nat * nat * nat :=
  (Z.to_nat (Z.max 1 (zmax_list (map fst ij) + 1)),
   Z.to_nat (Z.max 1 (zmax_list (map snd ij) + 1)),
   length (hd [] (c_sl ch (fst (hd (0%Z, 0%Z) ij))))).
(* numpy index along an axis of length n (negative indices count from the end) *)
Definition wrap (n : nat) (i : Z) : nat := Z.to_nat (if (i <? 0)%Z then Z.of_nat n + i else i).

(* Cxy = zeros(shape); for i, j in ij: Cxy[i, j] = ...   (later pairs overwrite earlier ones) *)
Definition cache_to_coherency (ch : cache) (ij : list (Z * Z)) (r c k : nat) : cval :=
  let '(ci, cj, _) := coh_shape ch ij in
  fold_left (fun acc p => if ((wrap ci (fst p) =? r) && (wrap cj (snd p) =? c))%nat
                          then coh_entry ch (fst p) (snd p) k else acc) ij CZero.

(* ------------------------------------------------------------------ cache_to_relative_phase *)
Inductive pval := PZero | PAngle (z : C) | PMeanAngle (zs : list C).
Definition relphase_entry (ch : cache) (i j : Z) (k : nat) : pval :=
  let A := c_sl ch i in
  let Bc := conj_sl ch j in
  if (1 <? length (c_sl ch (c_first ch)))%nat
  then PMeanAngle (map (fun s => prod_sl A Bc s k) (seq 0 (length A)))
  else PAngle (prod_sl A Bc 0 k).

(* ------------------------------------------------------------------ SeedCoherenceAnalyzer *)
(* cache['FFT_slices'][-1] = seed_cache['FFT_slices'][0]  (and the conjugates when psm) *)
Definition seed_inject (tc sc : cache) : cache :=
  mkCache (fun c => if (c =? -1)%Z then c_sl sc 0%Z else c_sl tc c)
          (match c_conj tc with
           | Some f => Some (fun c => if (c =? -1)%Z
                                      then match c_conj sc with Some g => g 0%Z | None => [] end
                                      else f c)
           | None => None
           end)
          (c_nv tc) (c_unpaired tc) (c_first tc).

Section Seed.
Variable dft : list Q -> nat -> C.
(* target_cache: ij = zip(arange(nt), arange(nt)); seed cache: vstack([seed, seed]), ij = [(0, 0)] *)
Definition diag_pairs (nt : nat) : list (Z * Z) := map (fun t => (Z.of_nat t, Z.of_nat t)) (seq 0 nt).
Definition seed_pairs (nt : nat) : list (Z * Z) := map (fun t => ((-1)%Z, Z.of_nat t)) (seq 0 nt).
Definition target_cache (targets : Z -> list Q) (nt : nat) (wv : list Q) (nfft : nat)
           (ovl : option nat) (fs : Q) (sbf psm : bool) (lbi ubi : nat) : cache :=
  cache_fft dft targets (diag_pairs nt) wv nfft ovl fs sbf psm lbi ubi.
(* one seed: the (1, nt, nf) array returned by cache_to_coherency(cache, ij), row 0 *)
Definition seed_row (tc : cache) (nt : nat) (seed : list Q) (wv : list Q) (nfft : nat)
           (ovl : option nat) (fs : Q) (sbf psm : bool) (lbi ubi : nat) : nat -> nat -> cval :=
  let sc := cache_fft dft (fun _ => seed) [(0%Z, 0%Z)] wv nfft ovl fs sbf psm lbi ubi in
  let ch := seed_inject tc sc in
  fun t k => cache_to_coherency ch (seed_pairs nt) 0 t k.
Definition seed_coherency (targets : Z -> list Q) (nt : nat) (seed : list Q) (wv : list Q) (nfft : nat)
           (ovl : option nat) (fs : Q) (sbf psm : bool) (lbi ubi : nat) (t k : nat) : cval :=
  seed_row (target_cache targets nt wv nfft ovl fs sbf psm lbi ubi) nt seed wv nfft ovl fs sbf psm lbi ubi t k.
End Seed.

(* ------------------------------------------------------------------ dense reference *)
Section Dense.
Variable dft : list Q -> nat -> C.

Definition mlab_numfreqs (nfft : nat) : nat := if Nat.odd nfft then ((nfft + 1) / 2)%nat else (nfft / 2 + 1)%nat.
(* result[slc] *= 2 : slc = 1:-1 for even NFFT, 1: for odd NFFT *)
Definition mlab_doubled (nfft k : nat) : bool :=
  if Nat.even nfft then (1 <=? k)%nat && (k <? mlab_numfreqs nfft - 1)%nat else (1 <=? k)%nat.

(* np.fft.fft(window * segments, axis=0)[:numFreqs] : one row per segment here *)
Definition mlab_spectrum (wv x : list Q) (nfft ovl : nat) : list (list C) :=
  map (fun v => map (dft v) (seq 0 (mlab_numfreqs nfft))) (windows_at dense_starts wv x nfft ovl).

Definition mlab_scale (wv : list Q) (fs : Q) (sbf : bool) : Q :=
  if sbf then fs * sumsq wv else qsum wv * qsum wv.

(* mlab.csd(x, y, NFFT, Fs, detrend_none, window, noverlap, scale_by_freq=sbf)[k], from the two spectra;
   sc = mlab_scale wv fs sbf *)
Definition mlab_csd_from (SX SY : list (list C)) (sc : Q) (nfft : nat) (k : nat) : C :=
  let nw := length SX in
  let term s := cmuld (cconj (at2 SX s k)) (at2 SY s k) in
  let m := if (1 <? nw)%nat then cmean term nw else term 0%nat in
  cscale ((if mlab_doubled nfft k then 2 else 1) / sc) m.
Definition mlab_csd (wv x y : list Q) (nfft : nat) (fs : Q) (ovl : nat) (sbf : bool) : nat -> C :=
  let SX := mlab_spectrum wv x nfft ovl in
  let SY := mlab_spectrum wv y nfft ovl in
  let sc := mlab_scale wv fs sbf in
  fun k => mlab_csd_from SX SY sc nfft k.

(* get_spectra(time_series, welch): fxy[i][j] = mlab.csd(ts[j], ts[i], ..., scale_by_freq=True) for i <= j,
   zeros below the diagonal; `tbl` holds the windowed spectra of the channels *)
Definition dense_fxy_tbl (tbl : list (list (list C))) (sc : Q) (nfft : nat) (i j k : nat) : C :=
  if (i <=? j)%nat then mlab_csd_from (nth j tbl []) (nth i tbl []) sc nfft k else c0.
Definition dense_tbl (ts : list (list Q)) (wv : list Q) (nfft : nat) (ovl : option nat) : list (list (list C)) :=
  let o := match ovl with Some o => o | None => dense_default_overlap nfft end in
  map (fun x => mlab_spectrum wv x nfft o) ts.
Definition dense_fxy (ts : list (list Q)) (wv : list Q) (nfft : nat) (ovl : option nat) (fs : Q)
  : nat -> nat -> nat -> C :=
  let tbl := dense_tbl ts wv nfft ovl in
  let sc := mlab_scale wv fs true in
  fun i j k => dense_fxy_tbl tbl sc nfft i j k.

(* coherency(): c[i][j] = fxy[i][j] / sqrt(fxy[i][i] * fxy[j][j]) for i <= j, c[j][i] = conj(c[i][j]) *)
Definition cval_conj (v : cval) : cval :=
  match v with CZero => CZero | CDivSqrt a b c => CDivSqrt (cconj a) (cconj b) (cconj c) end.
Definition dense_coh_of (f : nat -> nat -> nat -> C) (i j k : nat) : cval :=
  if (i <=? j)%nat then CDivSqrt (f i j k) (f i i k) (f j j k)
  else cval_conj (CDivSqrt (f j i k) (f j j k) (f i i k)).
Definition dense_coh (ts : list (list Q)) (wv : list Q) (nfft : nat) (ovl : option nat) (fs : Q)
  : nat -> nat -> nat -> cval :=
  let f := dense_fxy ts wv nfft ovl fs in
  fun i j k => dense_coh_of f i j k.
End Dense.


(* ------------------------------------------------------------------ names used in the statements *)
(* channel c of a 2-d array given as a list of rows *)
Definition tsz (ts : list (list Q)) (c : Z) : list Q := nth (Z.to_nat c) ts [].
(* the overlap in effect: method.get('n_overlap', default) *)
Definition oeff (nfft : nat) (ovl : option nat) : nat :=
  match ovl with Some o => o | None => cache_default_overlap nfft end.
(* bin K of the DFT of window s of channel x; number of windows of a series of n samples *)
Definition Xs (dft : list Q -> nat -> C) (wv : list Q) (nfft o : nat) (x : list Q) (s K : nat) : C :=
  dft (nth s (windows_of wv x nfft o) []) K.
Definition nwin (nfft o n : nat) : nat := length (cache_starts (Nat.max n nfft) nfft o).
(* the Welch average (1/nw) sum_s X_x(s,K) conj X_y(s,K) *)
Definition U (dft : list Q -> nat -> C) (wv : list Q) (nfft o : nat) (x y : list Q) (nw K : nat) : C :=
  cscale (/ nq nw) (csumn (fun s => cmul (Xs dft wv nfft o x s K) (cconj (Xs dft wv nfft o y s K))) nw).

(* ------------------------------------------------------------------ meaning of the symbolic values *)
(* c is the value of  pxy / sqrt (pxx * pyy)  (principal root of a positive real): characterised
   without sqrt by  c^2 * (pxx*pyy) = pxy^2  and  c * conj pxy  real and >= 0 *)
Definition coh_rel (c a d : C) : Prop :=
  im d == 0 /\ 0 < re d /\ cmul (cmul c c) d =c= cmul a a /\
  im (cmul c (cconj a)) == 0 /\ 0 <= re (cmul c (cconj a)).
Definition is_coherency (c : C) (v : cval) : Prop :=
  match v with
  | CZero => c =c= c0
  | CDivSqrt pxy pxx pyy => coh_rel c pxy (cmul pxx pyy)
  end.
(* coherence = |coherency|^2 is rational *)
Definition coherence_of (v : cval) : Q :=
  match v with CZero => 0 | CDivSqrt pxy pxx pyy => cnorm2 pxy / re (cmul pxx pyy) end.
Definition radicand (v : cval) : Q :=
  match v with CZero => 1 | CDivSqrt _ pxx pyy => re (cmul pxx pyy) end.
(* two symbolic values whose numerators differ by a positive real factor l and whose radicands differ
   by l^2: they denote the same number *)
Definition cval_scaled (v v' : cval) : Prop :=
  match v, v' with
  | CZero, CZero => True
  | CDivSqrt a b c, CDivSqrt a' b' c' =>
      exists l : Q, 0 < l /\ a =c= cscale l a' /\ cmul b c =c= cscale (l * l) (cmul b' c')
  | _, _ => False
  end.
