(* Model/AR.v — model of the univariate AR estimators, AR_psd and ar_generator (property C10).

   nitime/algorithms/autoregressive.py
     40-98    AR_est_YW   -> toep, AR_est_YW (the linear solve is a parameter: scipy.linalg.solve)
     101-165  AR_est_LD   -> ld_init, ld_step, AR_est_LD  (Levinson-Durbin exactly as the loop is written:
                             lazily updated b, w_k, in-place update of w[1:p] from its reversed conjugate)
     277-309  AR_psd      -> ar_den, AR_psd_pt, real_n
   nitime/algorithms/spectral.py
     737-764  freq_response -> real_n (grid size); the values are scipy.signal.freqz's
   nitime/utils.py
     107-177  ar_generator -> ar_gen_b, ar_gen_a, ar_generator (scipy.signal.lfilter is a parameter),
                              lfilter_ref (the direct-form recursion that is lfilter's contract)
     988-1153 autocorr/crosscov: the FFT route is not modelled; its contract (biased lagged sums) is
              autocorr_lag, against which the correspondence compares the sequence R that the harness
              obtains by calling utils.autocorr exactly as AR_est_* do (the proof of the contract is C20).

   Library oracles: scipy.linalg.toeplitz (convention T[i,j] = c[i-j] for j <= i, conj(c[j-i]) above the
   diagonal — modelled by `toep` and validated per case), scipy.linalg.solve, scipy.signal.freqz
   (h = b0 / sum_k a[k] z^k at z = e^{-jw}), scipy.signal.lfilter, sigma ** 0.5 (the model receives
   s with s*s = sigma as data).
   Numbers are exact: Q and Q[i]. `cr`/Qred only normalise the representation of a rational
   (Qred q == q), they are there so that the model can be executed by vm_compute.  No proofs here. *)
From Coq Require Import QArith List Bool Arith.
From NT Require Import QC.
Import ListNotations.
Open Scope Q_scope.

Definition cr (z : C) : C := (Qred (re z), Qred (im z)).
Definition nthC (l : list C) (k : nat) : C := nth k l c0.
(* complex / real *)
Definition cdivq (z : C) (b : Q) : C := (re z / b, im z / b).

(* ---------------------------------------------------------------- utils.autocorr (contract only) *)
(* utils.autocorr(x)[k] (debias=False, normalize=True, zero lag first) = (1/N) sum_n x[n+k] conj(x[n]).
   This is the contract of the FFT route (proved in property C20); here it is used by the
   correspondence to tie the sequence R that AR_est_* obtain from utils.autocorr on every run. *)
Definition autocorr_lag (x : list C) (k : nat) : C :=
  cdivq (fold_left (fun acc p => cr (cadd acc (cmul (fst p) (cconj (snd p))))) (combine (skipn k x) x) c0)
        (inject_Z (Z.of_nat (length x))).

(* ---------------------------------------------------------------- AR_est_LD (lines 146-165) *)
(* state: a = w[1:p] (the coefficients found so far), b, w_k *)
Record ldst := mkLD { ld_a : list C; ld_b : Q; ld_k : C }.

(* b = rxx_m[0].real ; w_k = rxx_m[1] / b ; w[1] = w_k *)
Definition ld_init (R : list C) : ldst :=
  let b := re (nthC R 0) in
  let k := cr (cdivq (nthC R 1) b) in
  mkLD [k] b k.

(* (w[1:p] * rxx_m[1:p][::-1]).sum() = sum_{j=0}^{p-2} a[j] * R[p-1-j] *)
Definition ld_dot (a R : list C) (p : nat) : C :=
  csumn (fun j => cmul (nthC a j) (nthC R (p - 1 - j))) (p - 1).

(* one pass of the while loop, for the value p of the loop variable *)
Definition ld_step (R : list C) (s : ldst) (p : nat) : ldst :=
  let b := Qred (ld_b s * (1 - re (cmul (ld_k s) (cconj (ld_k s))))) in
  let k := cr (cdivq (csub (nthC R p) (ld_dot (ld_a s) R p)) b) in
  (* w[1:p] = w[1:p] - w_k * w[1:p][::-1].conj() *)
  let a' := map (fun j => cr (csub (nthC (ld_a s) j) (cmul k (cconj (nthC (ld_a s) (p - 2 - j))))))
                (seq 0 (p - 1)) in
  mkLD (a' ++ [k]) b k.

(* while p <= order, from p = 2; then the last b update; returns (w[1:], b).
   Guard (stated in the theorems): 1 <= order < length R. *)
Definition AR_est_LD (R : list C) (order : nat) : list C * Q :=
  let s := fold_left (ld_step R) (seq 2 (order - 1)) (ld_init R) in
  (ld_a s, ld_b s * (1 - re (cmul (ld_k s) (cconj (ld_k s))))).

(* ---------------------------------------------------------------- AR_est_YW (lines 89-98) *)
(* scipy.linalg.toeplitz(c) with r = conj(c) *)
Definition toep (c : list C) (i j : nat) : C :=
  if (j <=? i)%nat then nthC c (i - j) else cconj (nthC c (j - i)).
(* (T x)_i for an n x n matrix *)
Definition matvec (n : nat) (T : nat -> nat -> C) (x : list C) (i : nat) : C :=
  csumn (fun j => cmul (T i j) (nthC x j)) n.

Section YW.
  (* scipy.linalg.solve(Tm, y): n, matrix, right-hand side -> solution *)
  Variable solve : nat -> (nat -> nat -> C) -> list C -> list C.
  Definition AR_est_YW (R : list C) (order : nat) : list C * Q :=
    let r_m := firstn (order + 1) R in
    let Tm := toep (firstn order r_m) in
    let y := tl r_m in
    let ak := solve order Tm y in
    (* r_m[0].real - np.dot(r_m[1:].conj(), ak).real *)
    (ak, re (nthC r_m 0) - re (csumn (fun j => cmul (cconj (nthC y j)) (nthC ak j)) (length y))).
End YW.

(* ---------------------------------------------------------------- AR_psd / freq_response *)
Fixpoint peval (c : list C) (z : C) : C :=
  match c with [] => c0 | a :: c' => cr (cadd a (cmul z (peval c' z))) end.
(* a = np.r_[1, -ak] ; denominator of freqz at z = e^{-jw} *)
Definition ar_den (ak : list C) (z : C) : C := peval (c1 :: map cneg ak) z.
(* hw = s / A(z) (freqz with b = [s], s = sigma_v ** 0.5); (hw * hw.conj()).real, doubled one-sided *)
Definition AR_psd_pt (s : Q) (ak : list C) (onesided : bool) (z : C) : Q :=
  let hw := cr (cdiv (ofQ s) (ar_den ak z)) in
  let p := Qred (re (cmul hw (cconj hw))) in
  if onesided then 2 * p else p.
Definition AR_psd (s : Q) (ak : list C) (onesided : bool) (zs : list C) : list Q :=
  map (AR_psd_pt s ak onesided) zs.
(* freq_response: real_n = n_freqs // 2 + 1 if sides == 'onesided' else n_freqs *)
Definition real_n (n_freqs : nat) (onesided : bool) : nat :=
  if onesided then (n_freqs / 2 + 1)%nat else n_freqs.

(* ---------------------------------------------------------------- ar_generator (lines 160-177) *)
(* b = [sigma ** 0.5] ; a = np.r_[1, -coefs] *)
Definition ar_gen_b (s : Q) : list C := [ofQ s].
Definition ar_gen_a (coefs : list C) : list C := c1 :: map cneg coefs.

Section Gen.
  Variable lfilter : list C -> list C -> list C -> list C.     (* b a x -> y *)
  (* returns u[drop_transients:], v[drop_transients:], coefs *)
  Definition ar_generator (s : Q) (coefs : list C) (drop : nat) (v : list C) : list C * list C * list C :=
    let u := lfilter (ar_gen_b s) (ar_gen_a coefs) v in
    (skipn drop u, skipn drop v, coefs).
End Gen.

(* the contract of lfilter for a[0] = 1 (direct form, zero initial state):
   y[n] = sum_k b[k] x[n-k] - sum_{k>=1} a[k] y[n-k].  `past` holds y[n-1], y[n-2], ... *)
Fixpoint dot_past (c past : list C) : C :=
  match c, past with
  | ck :: c', yk :: past' => cadd (cmul ck yk) (dot_past c' past')
  | _, _ => c0
  end.
Fixpoint lfilter_go (b a1 : list C) (xpast ypast : list C) (x : list C) : list C :=
  match x with
  | [] => []
  | xn :: x' =>
      let xp := xn :: xpast in
      let yn := cr (csub (dot_past b xp) (dot_past a1 ypast)) in
      yn :: lfilter_go b a1 xp (yn :: ypast) x'
  end.
Definition lfilter_ref (b a x : list C) : list C := lfilter_go b (tl a) [] [] x.
