(* Model/EventRelated.v — executable model of nitime's event-related estimators (property C19).

   What each definition stands for (line numbers of /repo at the time of writing):

   nitime/utils.py  fir_design_matrix (2086-2124)
     event_types        np.unique(events)[np.unique(events) != 0]      (sorted distinct non-zero codes)
     index_of           np.where(event_types == t)[0][0]
     positions          np.where(events == t)[0]
     add_eye            fir_matrix[a:a+len, b:b+len] += np.eye(len) * np.sign(t)
     design             the two nested loops (over types, over occurrences), starting from zeros
     design_ok          the += raises ValueError (broadcast) when the row slice is cut by the
                        end of the matrix, i.e. an occurrence with a + len > rows
   nitime/algorithms/event_related.py  fir (12-58)
     tabulateT, gramT   the design as an array (list of its columns = X^T) and X^T X (integer entries)
     fir                pinv(X^T X) @ X^T @ y ; `pinv` (scipy.linalg.pinv) is NOT modelled: it is an
                        argument of the model (in the theorems: any function satisfying `pinv_contract`,
                        Proofs/EventRelatedFir.v; in the correspondence: the table of the (input, output)
                        pairs of scipy's pinv recorded while the implementation ran, looked up by the
                        model's own Gram matrix, Check/C19K.v)
   nitime/analysis/event_related.py
     pad                __init__ 57-91: zeros_before (int(offset)) / zeros_after (int(len_et)) around
                        data and events; a negative offset makes np.zeros raise ValueError
     broadcast_events   67-68: 1-d events with n-d data are repeated for every channel
     roll               np.roll(self.events[i], self.offset)                         (153)
     fir_channel, FIR   126-167 (per-channel dispatch, reshape by the types of the UN-rolled events,
                        np.array(h).squeeze(), t0 = offset * sampling_interval)
     segments           data[idx + offset] with offset = arange(off, off+len)[:,None] (288-293,
                        304-320): numpy integer indexing (negative indices wrap, out of range ->
                        IndexError)
     baseline           event_trig -= event_trig[0]                                  (296-297)
     eta_type / ets     np.mean(event_trig,-1) ; scipy.stats.sem(event_trig,-1) (ddof=1).  The model
                        returns the SQUARE of the standard error (no square root over Q) and None
                        where scipy returns nan (fewer than 2 events)
     et_data_ts         228-266 (all occurrences)
     ev_idx             (self.events.time / self.sampling_interval).astype(int)      (307, 369):
                        modelled as truncating integer division of the picosecond counts
                        (exact for |t|, dt < 2^53 ps; the float division is not modelled)
     eta_events ...     the Events branch 301-322 / 363-384: the data are NOT zero padded, event
                        types are not separated, t0 of the series is ignored; baseline correction
                        as in the time-series branch (after the `fix:` commit for C19)
     zscore             only read by xcorr_eta: no effect on FIR / eta / ets / et_data
     out_t0             t0 = offset * sampling_interval (picoseconds), interval = the input's

   Codes are integers (the implementation carries them as float64 after hstack with zeros; the
   property only speaks of integer codes).  Data are exact rationals (the dyadic values of the
   float64 inputs). *)
From Coq Require Import ZArith QArith List Bool Arith Lia.
Import ListNotations.
Open Scope Z_scope.

Inductive err := ValueError | IndexError.
Inductive res (A : Type) := Ok (a : A) | Err (e : err).
Arguments Ok {A} a.
Arguments Err {A} e.

Definition rbind {A B} (r : res A) (f : A -> res B) : res B :=
  match r with Ok a => f a | Err e => Err e end.

(* all results Ok -> Ok of the list; first error otherwise *)
Fixpoint rsequence {A} (l : list (res A)) : res (list A) :=
  match l with
  | [] => Ok []
  | Ok a :: r => match rsequence r with Ok l' => Ok (a :: l') | Err e => Err e end
  | Err e :: _ => Err e
  end.

(* ---------- indices, accessors, sums ---------- *)
Definition zrange (n : nat) : list Z := map Z.of_nat (seq 0 n).
Definition zlen {A} (l : list A) : Z := Z.of_nat (length l).

(* total accessors; every use in the model is inside 0 <= i < length (guards are explicit in the
   theorems) *)
Definition getZ (l : list Z) (i : Z) : Z := if i <? 0 then 0 else nth (Z.to_nat i) l 0.
Definition getQ (l : list Q) (i : Z) : Q := if i <? 0 then 0%Q else nth (Z.to_nat i) l 0%Q.

(* sum of a list of rationals, kept in lowest terms for execution *)
Fixpoint qsum (l : list Q) : Q :=
  match l with [] => 0%Q | x :: r => Qred (x + qsum r) end.
Definition qsumf {A} (f : A -> Q) (l : list A) : Q := qsum (map f l).
Fixpoint zsum (l : list Z) : Z := match l with [] => 0 | x :: r => x + zsum r end.

(* ---------- fir_design_matrix ---------- *)
Fixpoint insert_u (c : Z) (l : list Z) : list Z :=
  match l with
  | [] => [c]
  | x :: r => if c <? x then c :: l else if c =? x then l else x :: insert_u c r
  end.
Definition event_types (ev : list Z) : list Z :=
  fold_right (fun c acc => if c =? 0 then acc else insert_u c acc) [] ev.

Fixpoint index_of (c : Z) (l : list Z) : Z :=
  match l with [] => 0 | x :: r => if x =? c then 0 else 1 + index_of c r end.

Definition positions (ev : list Z) (c : Z) : list Z :=
  filter (fun i => getZ ev i =? c) (zrange (length ev)).

Definition mat := Z -> Z -> Z.
Definition mzero : mat := fun _ _ => 0.
Definition in_block (r0 c0 len r c : Z) : bool :=
  (r0 <=? r) && (r <? r0 + len) && (c0 <=? c) && (c <? c0 + len) && (r - r0 =? c - c0).
Definition add_eye (M : mat) (r0 c0 len s : Z) : mat :=
  fun r c => M r c + (if in_block r0 c0 len r c then s else 0).

Definition design_type (ev : list Z) (len : Z) (types : list Z) (M : mat) (t : Z) : mat :=
  fold_left (fun M a => add_eye M a (index_of t types * len) len (Z.sgn t)) (positions ev t) M.
Definition design (ev : list Z) (len : nat) : mat :=
  let types := event_types ev in
  fold_left (design_type ev (Z.of_nat len) types) types mzero.
Definition design_ok (ev : list Z) (len : nat) : bool :=
  forallb (fun i => (getZ ev i =? 0) || (i + Z.of_nat len <=? zlen ev)) (zrange (length ev)).
Definition fir_design_matrix (ev : list Z) (len : nat) : res mat :=
  if design_ok ev len then Ok (design ev len) else Err ValueError.
Definition design_cols (ev : list Z) (len : nat) : nat := (length (event_types ev) * len)%nat.

(* ---------- fir: pinv(X^T X) X^T y ---------- *)
(* arrays: the design matrix is materialised as the list of its COLUMNS (X^T) *)
Definition tabulateT (X : mat) (rows cols : nat) : list (list Z) :=
  map (fun c => map (fun r => X r c) (zrange rows)) (zrange cols).
Fixpoint map2 {A B C} (f : A -> B -> C) (l1 : list A) (l2 : list B) : list C :=
  match l1, l2 with a :: r1, b :: r2 => f a b :: map2 f r1 r2 | _, _ => [] end.
Definition dotZ (u v : list Z) : Z := zsum (map2 Z.mul u v).
Definition dotZQ (u : list Z) (y : list Q) : Q := qsum (map2 (fun x q => inject_Z x * q)%Q u y).
Definition dotQ (u v : list Q) : Q := qsum (map2 Qmult u v).
Definition gramT (XT : list (list Z)) : list (list Z) := map (fun a => map (dotZ a) XT) XT.
(* pinv : the library oracle, rows of pinv(G) for the integer matrix G = X^T X *)
Definition fir (pinv : list (list Z) -> list (list Q)) (y : list Q) (XT : list (list Z)) : list Q :=
  let P := pinv (gramT XT) in
  let v := map (fun c => dotZQ c y) XT in
  map (fun Prow => dotQ Prow v) P.

(* ---------- __init__: padding, broadcast ---------- *)
Definition pad {A} (z : A) (before after : nat) (l : list A) : list A :=
  repeat z before ++ l ++ repeat z after.

Inductive events_in :=
| Ev1 (e : list Z)              (* 1-d event-coded series *)
| Ev2 (e : list (list Z)).      (* one coded series per channel *)

Definition broadcast_events (ev : events_in) (nch : nat) : list (list Z) :=
  match ev with Ev1 e => repeat e nch | Ev2 e => e end.

(* the padded (data, events) pair of every channel; ValueError for a negative offset *)
Definition ts_prepare (data : list (list Q)) (ev : events_in) (len : nat) (offset : Z)
  : res (list (list Q * list Z)) :=
  if offset <? 0 then Err ValueError else
  let b := Z.to_nat offset in
  Ok (map (fun ye => (pad 0%Q b len (fst ye), pad 0 b len (snd ye)))
          (combine data (broadcast_events ev (length data)))).

(* ---------- FIR ---------- *)
Definition roll (l : list Z) (s : Z) : list Z :=
  map (fun j => getZ l ((j - s) mod zlen l)) (zrange (length l)).

(* list -> rows of length len *)
Fixpoint reshape (l : list Q) (nrow len : nat) : list (list Q) :=
  match nrow with O => [] | S n => firstn len l :: reshape (skipn len l) n len end.

Definition fir_channel (pinv : list (list Z) -> list (list Q)) (len : nat) (offset : Z)
  (ye : list Q * list Z) : res (list (list Q)) :=
  let (yp, evp) := ye in
  let evr := roll evp offset in
  match fir_design_matrix evr len with
  | Err e => Err e
  | Ok X =>
      if negb (length yp =? length evr)%nat then Err ValueError else   (* matmul shape mismatch *)
      let h := fir pinv yp (tabulateT X (length evr) (design_cols evr len)) in
      let ntypes := length (event_types evp) in
      if (ntypes * len =? length h)%nat then Ok (reshape h ntypes len) else Err ValueError
  end.

(* np.array(h): the per-channel blocks must have the same number of rows *)
Definition homogeneous {A} (l : list (list A)) : bool :=
  match l with [] => true | x :: r => forallb (fun y => (length y =? length x)%nat) r end.
Definition stack {A} (l : list (list A)) : res (list (list A)) :=
  if homogeneous l then Ok l else Err ValueError.

Definition FIR (pinv : list (list Z) -> list (list Q)) (data : list (list Q)) (ev : events_in) (len : nat)
  (offset : Z) : res (list (list (list Q))) :=
  rbind (ts_prepare data ev len offset) (fun chans =>
  rbind (rsequence (map (fir_channel pinv len offset) chans)) stack).

(* shape after np.array(h).squeeze() *)
Definition squeeze (shape : list nat) : list nat := filter (fun d => negb (d =? 1)%nat) shape.
Definition shape3 {A} (h : list (list (list A))) (len : nat) : list nat :=
  squeeze [length h; match h with [] => O | x :: _ => length x end; len].
Definition shape2 {A} (h : list (list A)) (len : nat) : list nat := squeeze [length h; len].

(* ---------- event-triggered segments ---------- *)
Definition in_range (n : nat) (j : Z) : bool := (- Z.of_nat n <=? j) && (j <? Z.of_nat n).
Definition wrap (n : nat) (j : Z) : Z := if j <? 0 then j + Z.of_nat n else j.

(* data[start + k], k < len *)
Definition seg_at (y : list Q) (len : nat) (start : Z) : res (list Q) :=
  if forallb (fun k => in_range (length y) (start + k)) (zrange len)
  then Ok (map (fun k => getQ y (wrap (length y) (start + k))) (zrange len))
  else Err IndexError.
(* one segment per occurrence *)
Definition segments (y : list Q) (idxs : list Z) (offset : Z) (len : nat) : res (list (list Q)) :=
  rsequence (map (fun a => seg_at y len (a + offset)) idxs).

Definition baseline (s : list Q) : list Q :=
  match s with [] => [] | x0 :: _ => map (fun x => x - x0)%Q s end.
Definition apply_baseline (bc : bool) (segs : list (list Q)) : list (list Q) :=
  if bc then map baseline segs else segs.

Definition qlen {A} (l : list A) : Q := inject_Z (zlen l).
Definition mean (l : list Q) : Q := (qsum l / qlen l)%Q.
(* squared standard error of the mean (ddof = 1); None where scipy gives nan *)
Definition sem2 (l : list Q) : option Q :=
  if (length l <? 2)%nat then None else
  let m := mean l in
  Some (qsumf (fun x => (x - m) * (x - m)) l / (qlen l * (qlen l - 1)))%Q.
Definition col (segs : list (list Q)) (k : Z) : list Q := map (fun s => getQ s k) segs.

Definition eta_of (segs : list (list Q)) (len : nat) : list Q :=
  map (fun k => mean (col segs k)) (zrange len).
Definition ets_of (segs : list (list Q)) (len : nat) : list (option Q) :=
  map (fun k => sem2 (col segs k)) (zrange len).

(* ---------- eta / ets / et_data, event-coded series ---------- *)
Definition per_type {A} (f : list (list Q) -> A) (bc : bool) (len : nat) (offset : Z)
  (ye : list Q * list Z) : res (list A) :=
  let (yp, evp) := ye in
  rsequence (map (fun t => rbind (segments yp (positions evp t) offset len)
                                 (fun segs => Ok (f (apply_baseline bc segs))))
                 (event_types evp)).

Definition eta_ts (data : list (list Q)) (ev : events_in) (len : nat) (offset : Z) (bc zs : bool)
  : res (list (list (list Q))) :=
  rbind (ts_prepare data ev len offset) (fun chans =>
  rbind (rsequence (map (per_type (fun s => eta_of s len) bc len offset) chans)) stack).

Definition ets_ts (data : list (list Q)) (ev : events_in) (len : nat) (offset : Z) (bc zs : bool)
  : res (list (list (list (option Q)))) :=
  rbind (ts_prepare data ev len offset) (fun chans =>
  rbind (rsequence (map (per_type (fun s => ets_of s len) bc len offset) chans)) stack).

(* et_data: [channel][type][occurrence][lag]; no baseline correction, no stacking *)
Definition et_data_ts (data : list (list Q)) (ev : events_in) (len : nat) (offset : Z)
  : res (list (list (list (list Q)))) :=
  rbind (ts_prepare data ev len offset) (fun chans =>
  rsequence (map (per_type (fun s => s) false len offset) chans)).

(* ---------- eta / ets, list of event times ---------- *)
Definition ev_idx (dt t : Z) : Z := Z.quot t dt.

Definition eta_events (data : list (list Q)) (times : list Z) (dt : Z) (len : nat) (offset : Z)
  (bc zs : bool) : res (list (list Q)) :=
  rsequence (map (fun y => rbind (segments y (map (ev_idx dt) times) offset len)
                                 (fun segs => Ok (eta_of (apply_baseline bc segs) len))) data).
Definition ets_events (data : list (list Q)) (times : list Z) (dt : Z) (len : nat) (offset : Z)
  (bc zs : bool) : res (list (list (option Q))) :=
  rsequence (map (fun y => rbind (segments y (map (ev_idx dt) times) offset len)
                                 (fun segs => Ok (ets_of (apply_baseline bc segs) len))) data).

(* ---------- output axis (picoseconds) ---------- *)
Definition out_t0 (offset dt : Z) : Z := offset * dt.
Definition out_dt (dt : Z) : Z := dt.

(* ---------- the noise-free linear system the property speaks of ---------- *)
(* resp c k : response of event code c at lag index k (0 <= k < len), i.e. `offset + k` samples after
   the event.  y[t] = sum over the occurrences i (code ev[i] <> 0) of resp (ev[i]) (t - i - offset). *)
Definition placed (resp : Z -> Z -> Q) (ev : list Z) (len : nat) (offset : Z) (t i : Z) : Q :=
  if negb (getZ ev i =? 0) && (i + offset <=? t) && (t <? i + offset + Z.of_nat len)
  then resp (getZ ev i) (t - i - offset) else 0%Q.
Definition synth_at (resp : Z -> Z -> Q) (ev : list Z) (len : nat) (offset : Z) (t : Z) : Q :=
  qsumf (placed resp ev len offset t) (zrange (length ev)).
Definition synth (resp : Z -> Z -> Q) (ev : list Z) (len : nat) (offset : Z) : list Q :=
  map (synth_at resp ev len offset) (zrange (length ev)).
