(* Model/FrontEnd.v — C15: the analyzers and the file reader as front ends.  Definitions only.

   What is modelled (as the code is written after the C15 `fix:` commits):
   * Frequency.__new__ / Frequency.to_period            timeseries.py  Frequency class
       (to_period = np.int64(np.round((1 / f) * 1e12)) since a2201c3)
   * the two hand-over patterns of TimeSeries.__init__ that the analyzers use
       `sampling_rate=<Frequency>` [, time_unit=, t0=]   -> ts_rate      (rate -> period -> float
                                                             interval in the unit -> TimeArray)
       `sampling_interval=<TimeArray>` [, time_unit=, t0=] -> ts_interval (interval kept, rate
                                                             recomputed from it)
     and the two ways the harness builds an input series (interval / rate given as a float).
     All float steps are IEEE binary64 through PrimFloat (mul, div, int64->float64, round
     half even), so descriptors are compared with the implementation exactly.
   * which keywords every analyzer output passes:
       normalization.py  percent_change / z_score           -> out_axis ONorm
       spectral.py       HilbertAnalyzer, MorletWaveletAnalyzer (analytic; amplitude, phase,
                         real, imag built from analytic)     -> OAnalytic / ODerived
       spectral.py       FilterAnalyzer iir / filtered_fourier / filtered_boxcar / fir
                         (fir: an intermediate series, then one constructor call per pass)
       correlation.py    xcorr / xcorr_norm (lag axis)       -> OXcorr
       snr.py            signal_noise                        -> OSnr
       event_related.py  FIR, xcorr_eta (rate hand-over), eta / ets / et_data (interval hand-over)
   * Fs handed to the algorithm layer = the series' sampling_rate attribute (fs_to_algorithm)
   * fmri/io.py: _tseries_from_nifti_helper (data[x, y, z] selection, TR as sampling interval,
     filter -> normalise -> average order), time_series_from_file (single file / list of
     files x single ROI / list of ROIs) and timeseries.concatenate_time_series.
   Taken from numpy/nibabel: integer-array indexing data[xs, ys, zs] on a 4-d array picks
   data[xs[i], ys[i], zs[i], :] in order (modelled by `select`), np.concatenate(…, -1) appends
   along the last axis (modelled by row-wise `app`), np.mean over axis 0.
   Not modelled: int64 overflow of n * interval (sizes are far below it), negative (wrapping)
   coordinates, the numerical content of the analyzers (differential validation in the harness). *)
From Coq Require Import ZArith List Bool QArith PrimFloat.
From NT Require Import F2Z TimeArray.
Import ListNotations.
Open Scope Z_scope.

(* ------------------------------------------------------------------ arithmetic, two readings *)
(* The same formulas are read over binary64 (the faithful model) and over Q (exact arithmetic,
   for the unit-freeness theorems). *)
Record arith (T : Type) := mk_arith { a_mul : T -> T -> T; a_div : T -> T -> T; a_ofZ : Z -> T }.
Arguments mk_arith {T}. Arguments a_mul {T}. Arguments a_div {T}. Arguments a_ofZ {T}.

Definition FA : arith float := mk_arith PrimFloat.mul PrimFloat.div z2f.
Definition QA : arith Q := mk_arith Qmult Qdiv inject_Z.

Section Formulas.
  Context {T : Type} (A : arith T).
  (* float(tuc['s']) / tuc[u] *)
  Definition scale_g (u : unit) : T := a_div A (a_ofZ A (factor Us)) (a_ofZ A (factor u)).
  (* Frequency(f, time_unit=u) for a plain number f:  f * scale *)
  Definition freq_new_g (f : T) (u : unit) : T := a_mul A f (scale_g u).
  (* (1 / self) * scale('ps')  — the argument of np.round in to_period *)
  Definition period_g (fs : T) : T := a_mul A (a_div A (a_ofZ A 1) fs) (scale_g Ups).
  (* Frequency(1.0 / x, time_unit=u): the rate of a series built with sampling_interval=x *)
  Definition rate_of_interval_g (x : T) (u : unit) : T := freq_new_g (a_div A (a_ofZ A 1) x) u.
  (* to_period() / float(c_f): the interval, as a number in unit u, of a series built from a rate *)
  Definition interval_of_period_g (p : T) (u : unit) : T := a_div A p (a_ofZ A (factor u)).
  (* value in picoseconds of the number x in unit u (argument of round in the TimeArray constructor) *)
  Definition ps_of_g (x : T) (u : unit) : T := a_mul A x (a_ofZ A (factor u)).
  (* Frequency(1.0 / (float(si) / c_f), time_unit=u): the rate recomputed from a TimeArray interval *)
  Definition rate_of_ps_g (dt : T) (u : unit) : T :=
    freq_new_g (a_div A (a_ofZ A 1) (a_div A dt (a_ofZ A (factor u)))) u.
End Formulas.

(* ------------------------------------------------------------------ descriptors *)
(* t0 and the sampling interval in picoseconds; n = number of samples *)
Record axis := mk_axis { ax_t0 : Z; ax_dt : Z; ax_unit : unit; ax_n : Z }.
(* a series as far as C15 looks at it: the axis and the sampling_rate attribute (Hz, binary64) *)
Record series := mk_series { s_axis : axis; s_fs : float }.

Definition axis_time (a : axis) (k : Z) : Z := ax_t0 a + k * ax_dt a.

(* Frequency.to_period() *)
Definition to_period (fs : float) : option Z := rne_f (period_g FA fs).

(* TimeArray(x, time_unit=u) for a float x *)
Definition ta_float (x : float) (u : unit) : option Z := rne_f (ps_of_g FA x u).

(* the interval, in ps, that TimeSeries(…, sampling_rate=<Frequency fs>, time_unit=u) ends up with *)
Definition rate_to_dt (fs : float) (u : unit) : option Z :=
  match to_period fs with
  | Some p => ta_float (interval_of_period_g FA (z2f p) u) u
  | None => None
  end.

(* TimeSeries(data, sampling_rate=<Frequency fs>, time_unit=u, t0=<TimeArray t0>) *)
Definition ts_rate (fs : float) (u : unit) (t0 n : Z) : option series :=
  match rate_to_dt fs u with
  | Some dt => Some (mk_series (mk_axis t0 dt u n) fs)
  | None => None
  end.

(* TimeSeries(data, sampling_interval=<TimeArray dt in unit usi>, time_unit=u, t0=<TimeArray t0>) *)
Definition ts_interval (dt : Z) (usi u : unit) (t0 n : Z) : option series :=
  Some (mk_series (mk_axis t0 dt u n) (rate_of_ps_g FA (z2f dt) usi)).

(* how the harness builds an input *)
Inductive inspec :=
| InInterval (x t0 : float) (u : unit) (n : Z)   (* TimeSeries(d, sampling_interval=x, t0=t0, time_unit=u) *)
| InRate (r t0 : float) (u : unit) (n : Z).      (* TimeSeries(d, sampling_rate=r,     t0=t0, time_unit=u) *)

Definition build_input (i : inspec) : option series :=
  match i with
  | InInterval x t0 u n =>
      match ta_float x u, ta_float t0 u with
      | Some dt, Some t => Some (mk_series (mk_axis t dt u n) (rate_of_interval_g FA x u))
      | _, _ => None
      end
  | InRate r t0 u n =>
      match ta_float t0 u with
      | Some t => ts_rate (freq_new_g FA r Us) u t n
      | None => None
      end
  end.

(* ------------------------------------------------------------------ analyzer outputs *)
Inductive outsel :=
| ONorm                       (* NormalizationAnalyzer.percent_change / .z_score *)
| OAnalytic                   (* HilbertAnalyzer.analytic, MorletWaveletAnalyzer.analytic *)
| ODerived                    (* .amplitude .phase .real .imag of both *)
| OFilt                       (* FilterAnalyzer.iir / .filtered_fourier / .filtered_boxcar; .filtfilt(b, a) on
                                 the analyzer's own series and .filtfilt(b, a, in_ts=S): the input is then S *)
| OFir (passes : nat)         (* FilterAnalyzer.fir with 0, 1 or 2 filtfilt passes *)
| OXcorr                      (* CorrelationAnalyzer.xcorr / .xcorr_norm *)
| OSnr                        (* snr.signal_noise: signal and noise series *)
| OEvRate (offset n_out : Z)  (* EventRelatedAnalyzer.FIR (n_out = len_et), .xcorr_eta (len_et // 2) *)
| OEvInterval (offset n_out : Z). (* .eta .ets .et_data (n_out = len_et) *)

Definition same_axis_rate (s : series) : option series :=
  ts_rate (s_fs s) (ax_unit (s_axis s)) (ax_t0 (s_axis s)) (ax_n (s_axis s)).

Fixpoint iter_opt {A} (f : A -> option A) (k : nat) (a : A) : option A :=
  match k with
  | O => Some a
  | S k' => match f a with Some b => iter_opt f k' b | None => None end
  end.

Definition out_series (o : outsel) (s : series) : option series :=
  let a := s_axis s in
  match o with
  | ONorm | OAnalytic | OFilt | OSnr => same_axis_rate s
  | ODerived => match same_axis_rate s with Some an => same_axis_rate an | None => None end
  | OFir passes => iter_opt same_axis_rate (S passes) s
  | OXcorr =>
      ts_interval (ax_dt a) (ax_unit a) (ax_unit a) (- ax_dt a * (ax_n a - 1)) (2 * ax_n a - 1)
  | OEvRate offset n_out => ts_rate (s_fs s) (ax_unit a) (offset * ax_dt a) n_out
  | OEvInterval offset n_out => ts_interval (ax_dt a) (ax_unit a) (ax_unit a) (offset * ax_dt a) n_out
  end.

(* Fs handed to mlab.psd / get_spectra / periodogram / multi_taper_psd / cache_fft / get_freqs /
   the wavelet constructor / the filter designers by every analyzer: the sampling_rate attribute *)
Definition fs_to_algorithm (s : series) : float := s_fs s.

(* index of the zero-lag sample of np.correlate(x, y, 'full') for two length-n inputs *)
Definition zero_lag_index (n : Z) : Z := n - 1.

(* ------------------------------------------------------------------ concatenation *)
(* data of a (2-d) series: one row per channel, time along the row *)
Section Data.
  Context {A : Type}.
  Definition rows := list (list A).

  (* np.concatenate([a, b], -1) of two blocks with the same number of rows *)
  Fixpoint hcat2 (a b : rows) : rows :=
    match a, b with
    | ra :: a', rb :: b' => (ra ++ rb) :: hcat2 a' b'
    | _, _ => []
    end.
  (* np.concatenate(blocks, -1), blocks non-empty *)
  Fixpoint hcat (first : rows) (rest : list rows) : rows :=
    match rest with
    | [] => first
    | b :: rest' => hcat (hcat2 first b) rest'
    end.

  (* ------------------------------------------------------------------ the reader: selection *)
  (* a 4-d volume [x][y][z][t] *)
  Definition volume := list (list (list (list A))).
  Definition nth_opt {B} (l : list B) (i : Z) : option B :=
    if i <? 0 then None else nth_error l (Z.to_nat i).
  Definition vol_at (v : volume) (c : Z * Z * Z) : option (list A) :=
    let '(x, y, z) := c in
    match nth_opt v x with
    | Some p => match nth_opt p y with
                | Some q => nth_opt q z
                | None => None end
    | None => None
    end.
  (* data[coords[0], coords[1], coords[2]] : one row per requested voxel, in the order asked *)
  Fixpoint select (v : volume) (cs : list (Z * Z * Z)) : option rows :=
    match cs with
    | [] => Some []
    | c :: cs' => match vol_at v c, select v cs' with
                  | Some r, Some rs => Some (r :: rs)
                  | _, _ => None
                  end
    end.
End Data.

(* concatenate_time_series: data appended along time; interval of the LAST series, handed over as a
   TimeArray without time_unit/t0 (so the result is labelled in seconds and starts at 0) *)
Definition concat_axis (first : series) (rest : list series) : option series :=
  let last_s := last rest first in
  let n := fold_left (fun acc s => acc + ax_n (s_axis s)) rest (ax_n (s_axis first)) in
  ts_interval (ax_dt (s_axis last_s)) (ax_unit (s_axis last_s)) Us 0 n.

(* ------------------------------------------------------------------ the reader: axis *)
Inductive trspec :=
| TRnone                       (* default: 1.0 (seconds) *)
| TRfloat (x : float)          (* a number: seconds *)
| TRtime (ps : Z) (u : unit).  (* a TimeArray *)
Inductive filt := FNone | FOther | FFir (passes : nat).   (* boxcar/fourier/iir | fir *)
Inductive norm := NNone | NSome.                          (* 'percent' / 'zscore' *)

Definition one_f : float := z2f 1.

(* ts.TimeSeries(out_data, sampling_interval=TR) *)
Definition tr_series (tr : trspec) (n : Z) : option series :=
  match tr with
  | TRnone => build_input (InInterval one_f (z2f 0) Us n)
  | TRfloat x => build_input (InInterval x (z2f 0) Us n)
  | TRtime ps u => ts_interval ps u Us 0 n
  end.

Definition obind {A B} (a : option A) (f : A -> option B) : option B :=
  match a with Some x => f x | None => None end.

(* _tseries_from_nifti_helper: construct, then filter, then normalise (averaging keeps the axis) *)
Definition helper_axis (tr : trspec) (f : filt) (nm : norm) (n : Z) : option series :=
  obind (tr_series tr n) (fun s0 =>
  obind (match f with
         | FNone => Some s0
         | FOther => out_series OFilt s0
         | FFir p => out_series (OFir p) s0 end) (fun s1 =>
  match nm with NNone => Some s1 | NSome => out_series ONorm s1 end)).

Fixpoint opt_list {A} (l : list (option A)) : option (list A) :=
  match l with
  | [] => Some []
  | Some a :: l' => match opt_list l' with Some r => Some (a :: r) | None => None end
  | None :: _ => None
  end.

(* time_series_from_file for one ROI: a single file name (no concatenation) or a list of files *)
Definition reader_axis (single : bool) (tr : trspec) (f : filt) (nm : norm) (lens : list Z)
  : option series :=
  match lens with
  | [] => None
  | n :: ns =>
      if single then helper_axis tr f nm n
      else obind (helper_axis tr f nm n) (fun s0 =>
           obind (opt_list (map (helper_axis tr f nm) ns)) (fun ss => concat_axis s0 ss))
  end.

(* the data of one ROI without filter / normalisation / averaging: the selected voxels of every
   file, appended along time in file order *)
Definition reader_data {A} (v0 : @volume A) (vs : list (@volume A)) (cs : list (Z * Z * Z))
  : option (@rows A) :=
  obind (select v0 cs) (fun r0 =>
  obind (opt_list (map (fun v => select v cs) vs)) (fun rs => Some (hcat r0 rs))).

(* a list of ROIs: the same, ROI by ROI, in the order given *)
Definition reader_data_rois {A} (v0 : @volume A) (vs : list (@volume A)) (rois : list (list (Z * Z * Z)))
  : option (list (@rows A)) :=
  opt_list (map (reader_data v0 vs) rois).

(* averaging over the voxels of the ROI (np.mean(data, 0)), over Q *)
Definition col_sums (r : list (list Q)) (n : nat) : list Q :=
  map (fun t => fold_right (fun row acc => Qred (nth t row 0%Q + acc)%Q) 0%Q r) (seq 0 n).
Definition average_rows (r : list (list Q)) : list Q :=
  match r with
  | [] => []
  | r0 :: _ => map (fun s => Qred (s / inject_Z (Z.of_nat (length r)))%Q) (col_sums r (length r0))
  end.

(* ------------------------------------------------------------------ which keywords are handed over *)
(* The constructor call that builds an analyzer output, as data: does it pass sampling_rate= or
   sampling_interval=, t0=, time_unit= ?  The harness reads this table off the running code (it wraps
   TimeSeries.__init__) and Coq compares it with `handover_of` (generated-fact lemma). *)
Record handover := mk_ho { ho_rate : bool; ho_interval : bool; ho_t0 : bool; ho_unit : bool }.

Definition handover_of (o : outsel) : handover :=
  match o with
  | OXcorr | OEvInterval _ _ => mk_ho false true true true
  | _ => mk_ho true false true true
  end.

(* the constructor call described by a handover record, with the t0 / length the analyzer computes *)
Definition construct (h : handover) (s : series) (t0 n : Z) : option series :=
  let a := s_axis s in
  let u := if ho_unit h then ax_unit a else Us in
  let t := if ho_t0 h then t0 else 0 in
  if ho_rate h then ts_rate (s_fs s) u t n
  else if ho_interval h then ts_interval (ax_dt a) (ax_unit a) u t n
  else None.

Definition out_t0 (o : outsel) (a : axis) : Z :=
  match o with
  | OXcorr => - ax_dt a * (ax_n a - 1)
  | OEvRate offset _ | OEvInterval offset _ => offset * ax_dt a
  | _ => ax_t0 a
  end.
Definition out_n (o : outsel) (a : axis) : Z :=
  match o with
  | OXcorr => 2 * ax_n a - 1
  | OEvRate _ n_out | OEvInterval _ n_out => n_out
  | _ => ax_n a
  end.
(* number of constructor calls between the input and the output *)
Definition out_calls (o : outsel) : nat :=
  match o with ODerived => 2%nat | OFir passes => S passes | _ => 1%nat end.

(* ------------------------------------------------------------------ re-use: set_input and shared method dicts *)
(* Histories of analyzer objects (spectral.py SpectralAnalyzer.__init__/psd/cpsd/periodogram/
   spectrum_fourier/spectrum_multi_taper; coherence.py CoherenceAnalyzer.__init__/spectrum/frequencies,
   SparseCoherenceAnalyzer.__init__/cache/frequencies; base.py set_input).  A method dict is a shared
   mutable cell that may or may not hold 'Fs'; an analyzer refers to a dict (its own fresh one when
   constructed with method=None, or the caller's object) and to its current input.  `step` gives the
   Fs the algorithm layer is called with by one read. *)
Inductive acls := ASpectral | ACoherence | ASparse.
Inductive attr :=
| RPsd | RCpsd | RPeriodogram | RFourier | RMultiTaper       (* SpectralAnalyzer *)
| RSpectrum | RFrequencies                                   (* CoherenceAnalyzer *)
| RCache | RSparseFrequencies.                               (* SparseCoherenceAnalyzer *)
Record analyzer := mk_an { an_cls : acls; an_dict : nat; an_input : series }.
Record world := mk_world { w_dicts : list (option float); w_ans : list analyzer }.
Inductive op :=
| OpNewDict (fs : option float)               (* the caller makes a method dict, with or without 'Fs' *)
| OpInit (c : acls) (d : option nat) (s : series)   (* d = None: method=None *)
| OpSetInput (a : nat) (s : series)
| OpRead (a : nat) (r : attr).

Fixpoint set_nth {A} (l : list A) (i : nat) (x : A) : list A :=
  match l, i with
  | [], _ => []
  | _ :: l', O => x :: l'
  | y :: l', S i' => y :: set_nth l' i' x
  end.

Definition attr_of (c : acls) (r : attr) : bool :=
  match c, r with
  | ASpectral, (RPsd | RCpsd | RPeriodogram | RFourier | RMultiTaper) => true
  | ACoherence, (RSpectrum | RFrequencies) => true
  | ASparse, (RCache | RSparseFrequencies) => true
  | _, _ => false
  end.

(* result of a step: the new world and, for a read, the Fs used together with the interval (ps) of the
   analyzer's current input (for the comparison tolerance) *)
Definition step (w : world) (o : op) : world * option (float * Z) :=
  match o with
  | OpNewDict fs => (mk_world (w_dicts w ++ [fs]) (w_ans w), None)
  | OpInit c None s =>
      (* method=None: all three classes make their own dict and store the input's rate in it *)
      (mk_world (w_dicts w ++ [Some (s_fs s)]) (w_ans w ++ [mk_an c (length (w_dicts w)) s]), None)
  | OpInit c (Some d) s =>
      let ds := match c, nth_error (w_dicts w) d with
                | ASpectral, _ => w_dicts w                      (* keeps the dict as it is *)
                | _, Some None => set_nth (w_dicts w) d (Some (s_fs s))   (* method['Fs'] = method.get('Fs', rate) *)
                | _, _ => w_dicts w
                end in
      (mk_world ds (w_ans w ++ [mk_an c d s]), None)
  | OpSetInput a s =>
      match nth_error (w_ans w) a with
      | Some an => (mk_world (w_dicts w) (set_nth (w_ans w) a (mk_an (an_cls an) (an_dict an) s)), None)
      | None => (w, None)
      end
  | OpRead a r =>
      match nth_error (w_ans w) a with
      | Some an =>
          if attr_of (an_cls an) r then
            let cur := s_fs (an_input an) in
            let dt := ax_dt (s_axis (an_input an)) in
            match an_cls an, r with
            | ASpectral, RCpsd =>          (* welch_method['Fs'] = input rate, written into the dict *)
                (mk_world (set_nth (w_dicts w) (an_dict an) (Some cur)) (w_ans w), Some (cur, dt))
            | ASpectral, _ => (w, Some (cur, dt))        (* Fs = self.input.sampling_rate *)
            | _, _ =>                      (* coherence family: method['Fs'], the snapshot *)
                match nth_error (w_dicts w) (an_dict an) with
                | Some (Some f) => (w, Some (f, dt))
                | _ => (mk_world (set_nth (w_dicts w) (an_dict an) (Some cur)) (w_ans w), Some (cur, dt))
                end
            end
          else (w, None)
      | None => (w, None)
      end
  end.

Fixpoint run_ops (w : world) (ops : list op) : list (option (float * Z)) :=
  match ops with
  | [] => []
  | o :: ops' => let '(w', r) := step w o in r :: run_ops w' ops'
  end.
Definition world0 : world := mk_world [] [].

(* ------------------------------------------------------------------ events given as an Events object *)
(* event_related.py eta / ets, Events branch: idx = (events.time / sampling_interval).astype(int) — the
   quotient of two picosecond counts (exact in binary64 below 2^53 ps for an on-grid event, truncated
   otherwise): the sample the event-locked segment is taken from, which the output axis labels
   offset * dt + k * dt, i.e. the event's own sample is at time 0. *)
Definition event_sample (ev_ps dt : Z) : Z := ev_ps / dt.
