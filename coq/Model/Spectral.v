(* Model/Spectral.v — executable model of nitime's single-channel spectral density estimators
   (properties C04, C06).  Definitions only; proofs are in Proofs/SpectralP.v.

   Conventions.  A signal or a spectrum is a function [nat -> C] (C = Q[i], Base/QC.v) together
   with a length carried separately; real data has imaginary part 0.  Outputs are functions of
   the bin index with the length given by [out_len].  The FFT is a library oracle: every
   definition here takes the spectrum (the value returned by scipy.fftpack.fft) as an argument.
   sqrt is a library oracle too: where the code takes a square root the model takes the root as
   an argument (hypothesis in theorems, relation checked on the data in Check/*.v).

   Source lines (nitime/algorithms/spectral.py unless said otherwise):
     resolve            240-243, 330-333, 539-542, 679-682  (sides argument, complex test)
     nfft_of            232-236   (N = Sk.shape[-1] | s.shape[-1] if not N else N)
     assemble           245-257, 335-349  (zeros; [0]; [1:Fl] doubled; [Fn-1] if Fn > Fl)
     periodogram        254-263   ((Sk*Sk.conj()).real, /= Fs * s.shape[-1])
     mtm_sum, dbl, mtm_cross, mtm_auto   405-451 (mtm_cross_spectrum)
     mt_psd             578-602   (fixed or adaptive weights, mtm_cross_spectrum, /= Fs)
     cmean, remove_bias utils.py 980-985
     tapered, mt_nfft, keep_idx          utils.py 738-758 (tapered_spectra up to the fft call)
     nw_psd, qrne, kmax_of   525-536   (BW wins: NW = round(BW*N/Fs)/2; default NW = 4; Kmax = int(2*NW))
   Not modelled (taken as data): fft, sqrt, dpss_windows (property C07), adaptive_weights'
   iteration (its returned weights are data; C04's adaptive claim holds for any weights),
   the jackknife variance, the frequency grids (property C05). *)
From Coq Require Import QArith Qround List Arith Bool.
From NT Require Import QC Sums.
Import ListNotations.
Open Scope Q_scope.

Definition sig := nat -> C.
Definition inj (n : nat) : Q := inject_Z (Z.of_nat n).

(* ---- Evaluation-friendly forms of the arithmetic (all proved equal to the plain ones in
   Proofs/SpectralP.v: qaddf_ok, qsubf_ok, caddf_cadd, cmulf_cmul, sumr_sumn, csumr_csumn).
   The kernel evaluates the model on float data, i.e. on dyadic rationals held as binary positives:
   * Q's own + forms  num * den'  with the numerator first, and Z.mul recurses on its first argument;
     with the (power-of-two) denominator first the product costs a shift: qaddf / qsubf;
   * a sum of dyadic rationals multiplies the denominators: sumr / csumr keep every partial sum in
     lowest terms (Qred). *)
Definition qaddf (x y : Q) : Q := (Zpos (Qden y) * Qnum x + Zpos (Qden x) * Qnum y) # (Qden x * Qden y).
Definition qsubf (x y : Q) : Q := (Zpos (Qden y) * Qnum x - Zpos (Qden x) * Qnum y) # (Qden x * Qden y).
Definition caddf (a b : C) : C := (qaddf (re a) (re b), qaddf (im a) (im b)).
Definition cmulf (a b : C) : C := (qsubf (re a * re b) (im a * im b), qaddf (re a * im b) (im a * re b)).
Definition credc (z : C) : C := (Qred (re z), Qred (im z)).
Fixpoint sumr (f : nat -> Q) (n : nat) : Q :=
  match n with O => 0 | S n' => Qred (qaddf (sumr f n') (f n')) end.
Fixpoint csumr (f : nat -> C) (n : nat) : C :=
  match n with O => c0 | S n' => credc (caddf (csumr f n') (f n')) end.

Inductive sides_arg := SDefault | SOne | STwo.
Inductive sides := OneSided | TwoSided.

Definition resolve (a : sides_arg) (iscomplex : bool) : sides :=
  match a with
  | STwo => TwoSided
  | SDefault => if iscomplex then TwoSided else OneSided
  | SOne => OneSided
  end.

(* `N = s.shape[-1] if not N else N` *)
Definition nfft_of (arg : option nat) (n : nat) : nat :=
  match arg with Some (S m) => S m | _ => n end.

Definition out_len (sd : sides) (N : nat) : nat :=
  match sd with OneSided => Fn N | TwoSided => N end.

(* The one-sided assembly as written: an array of zeros of length Fn; entry 0; entries 1..Fl-1
   doubled; entry Fn-1 when Fn > Fl (the later assignment wins). *)
Definition assemble {A} (zero : A) (dbl2 : A -> A) (N : nat) (q : nat -> A) (k : nat) : A :=
  if (Fl N <? Fn N) && (k =? Fn N - 1) then q k
  else if (1 <=? k) && (k <? Fl N) then dbl2 (q k)
  else if k =? 0 then q 0%nat
  else zero.

(* (Sk * Sk.conj()).real *)
Definition sq (z : C) : Q := re (cmulf z (cconj z)).

(* periodogram(s, Fs, Sk, N, sides, normalize): N = NFFT (length of the spectrum X),
   n = s.shape[-1] *)
Definition periodogram (sd : sides) (normalize : bool) (N n : nat) (Fs : Q) (X : sig) : nat -> Q :=
  let P := match sd with
           | OneSided => assemble 0 (fun v => 2 * v) N (fun k => sq (X k))
           | TwoSided => fun k => sq (X k)
           end in
  if normalize then fun k => P k / (Fs * inj n) else P.

(* ---- mtm_cross_spectrum.  K tapers; tx ty : taper -> spectrum; real weights wx wy : taper ->
   bin -> Q (a weight array of trailing length 1 is the constant function of the bin);
   denom : bin -> Q. *)
Definition mtm_sum (K : nat) (wx wy : nat -> nat -> Q) (tx ty : nat -> sig) (f : nat) : C :=
  csumr (fun k => cmulf (cscale (wx k f) (tx k f)) (cconj (cscale (wy k f) (ty k f)))) K.

(* `sf[1:Fl] *= 2` for one-sided output *)
Definition dbl (sd : sides) (N : nat) (f : nat) (z : C) : C :=
  match sd with
  | OneSided => if (1 <=? f) && (f <? Fl N) then cscale 2 z else z
  | TwoSided => z
  end.

Definition mtm_cross (sd : sides) (N K : nat) (wx wy : nat -> nat -> Q) (tx ty : nat -> sig)
           (denom : nat -> Q) (f : nat) : C :=
  dbl sd N f (cscale (/ denom f) (mtm_sum K wx wy tx ty f)).

(* weights given as one ndarray: denom = sum_k |w_k|^2 *)
Definition auto_denom (K : nat) (w : nat -> nat -> Q) (f : nat) : Q := sumr (fun k => w k f * w k f) K.
(* the complex value before `.real` *)
Definition mtm_auto_c (sd : sides) (N K : nat) (w : nat -> nat -> Q) (tx : nat -> sig) (f : nat) : C :=
  mtm_cross sd N K w w tx tx (auto_denom K w) f.
Definition mtm_auto (sd : sides) (N K : nat) (w : nat -> nat -> Q) (tx : nat -> sig) (f : nat) : Q :=
  re (mtm_auto_c sd N K w tx f).

(* multi_taper_psd for one channel, after the weights are fixed: sdf_est /= Fs *)
Definition mt_psd (sd : sides) (N K : nat) (Fs : Q) (w : nat -> nat -> Q) (Y : nat -> sig) (f : nat) : Q :=
  mtm_auto sd N K w Y f / Fs.

(* the k-th individual tapered spectrum in the same units (what `mt_psd` returns with one taper) *)
Definition mt_single (sd : sides) (N : nat) (Fs : Q) (Y : nat -> sig) (k f : nat) : Q :=
  re (dbl sd N f (ofQ (sq (Y k f)))) / Fs.

(* ---- tapered_spectra up to the fft call *)
Definition cmean (n : nat) (x : sig) : C := cscale (/ inj n) (csumr x n).
Definition remove_bias (n : nat) (x : sig) : sig :=
  let m := cmean n x in fun t => csub (x t) m.
Definition tapered (n : nat) (x : sig) : (nat -> Q) -> sig :=
  let xb := remove_bias n x in fun taper t => cscale (taper t) (xb t).
(* `if NFFT is None or NFFT < N: NFFT = N` *)
Definition mt_nfft (arg : option nat) (n : nat) : nat :=
  match arg with Some m => if m <? n then n else m | None => n end.
(* the float 0.9, exactly *)
Definition low_bias_thr : Q := 8106479329266893 # 9007199254740992.
(* `keepers = eigvals > 0.9` as the list of kept positions *)
Fixpoint keep_from (l : list Q) (i : nat) : list nat :=
  match l with
  | [] => []
  | v :: l' => if Qle_bool v low_bias_thr then keep_from l' (S i) else i :: keep_from l' (S i)
  end.
Definition keep_idx (low_bias : bool) (eig : list Q) : list nat :=
  if low_bias then keep_from eig 0 else seq 0 (length eig).
(* `Kmax = int(2 * NW)` (truncation toward zero) *)
Definition kmax_of (nw : Q) : Z := Z.quot (Qnum (2 * nw)) (Zpos (Qden (2 * nw))).
(* np.round: round half to even *)
Definition qrne (q : Q) : Z :=
  let f := Qfloor q in
  let r := q - inject_Z f in
  match Qcompare r (1 # 2) with
  | Lt => f | Gt => (f + 1)%Z | Eq => if Z.even f then f else (f + 1)%Z end.
(* multi_taper_psd 528-535: `if BW is not None: norm_BW = np.round(BW * N / Fs); NW = norm_BW / 2.0`
   `elif NW is None: NW = 4`   (N = s.shape[-1], the number of samples — not NFFT) *)
Definition nw_psd (bw nw : option Q) (n : nat) (Fs : Q) : Q :=
  match bw with
  | Some b => inject_Z (qrne (b * inj n / Fs)) / 2
  | None => match nw with Some v => v | None => 4 end
  end.
