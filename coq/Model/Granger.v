(* Model/Granger.v — model of the bivariate Granger-causality code (property C12).

   nitime/algorithms/autoregressive.py
     315-359  transfer_function_xy   -> coef_polys, Aw, transfer
     362-411  spectral_matrix_xy     -> spectral_matrix
     414-431  coherence_from_spectral-> coherence
     434-452  interdependence_xy     -> interdep_arg   (the value is -log(interdep_arg))
     455-525  granger_causality_xy   -> granger_core / granger_xy (log ARGUMENTS are returned;
                                        the code takes np.log of each)
   nitime/analysis/granger.py
     156-177  _granger_causality     -> gc_dict (dict filled in a loop over ij)
     183-200  _dict2arr              -> dict2arr (NaN-filled array, loop over ij)
     99-102, 163-170, 180-181, 191-193 grid lengths -> gc_len, get_freqs_len

   Taken from the libraries (not modelled): scipy.signal.freqz, whose contract for an FIR numerator
   c and denominator 1 is  h(w) = sum_k c[k] e^{-jwk}  on the grid it returns — the model evaluates
   the polynomial at z = e^{-jw} (peval) and the harness supplies z / the freqz values as data;
   np.log (the model returns the arguments); numpy complex arithmetic = field operations of Q[i].
   All numbers are exact: Q and Q[i] (Base/QC.v). No proofs in this file. *)
From Coq Require Import QArith List Bool Arith.
From NT Require Import QC AR.
Import ListNotations.
Open Scope Q_scope.

(* ---------------------------------------------------------------- 2x2 matrices *)
Record M2 := mkM2 { m00 : C; m01 : C; m10 : C; m11 : C }.
(* real 2x2 matrix (coefficient matrices a[k], covariance) *)
Record Q2 := mkQ2 { q00 : Q; q01 : Q; q10 : Q; q11 : Q }.

Definition m2eq (A B : M2) : Prop :=
  m00 A =c= m00 B /\ m01 A =c= m01 B /\ m10 A =c= m10 B /\ m11 A =c= m11 B.
Definition m2mul (A B : M2) : M2 :=
  mkM2 (cadd (cmul (m00 A) (m00 B)) (cmul (m01 A) (m10 B)))
       (cadd (cmul (m00 A) (m01 B)) (cmul (m01 A) (m11 B)))
       (cadd (cmul (m10 A) (m00 B)) (cmul (m11 A) (m10 B)))
       (cadd (cmul (m10 A) (m01 B)) (cmul (m11 A) (m11 B))).
Definition m2id : M2 := mkM2 c1 c0 c0 c1.
(* conjugate transpose *)
Definition m2herm (A : M2) : M2 := mkM2 (cconj (m00 A)) (cconj (m10 A)) (cconj (m01 A)) (cconj (m11 A)).
Definition m2ofQ (S : Q2) : M2 := mkM2 (ofQ (q00 S)) (ofQ (q01 S)) (ofQ (q10 S)) (ofQ (q11 S)).
(* relabelling the two channels: P M P with P the swap *)
Definition m2swap (A : M2) : M2 := mkM2 (m11 A) (m10 A) (m01 A) (m00 A).
Definition q2swap (S : Q2) : Q2 := mkQ2 (q11 S) (q10 S) (q01 S) (q00 S).

(* ---------------------------------------------------------------- transfer_function_xy *)
(* freqz(c, 1)(w) = sum_k c[k] z^k at z = e^{-jw}: AR.peval (Horner, with the value-preserving
   normalisation cr after each step so that the model can be executed) *)

(* lines 340-343:  ai = r_[1, a[:,0,0]]  bi = r_[0, a[:,0,1]]  ci = r_[0, a[:,1,0]]  di = r_[1, a[:,1,1]] *)
Definition poly_a (a : list Q2) : list C := c1 :: map (fun m => ofQ (q00 m)) a.
Definition poly_b (a : list Q2) : list C := c0 :: map (fun m => ofQ (q01 m)) a.
Definition poly_c (a : list Q2) : list C := c0 :: map (fun m => ofQ (q10 m)) a.
Definition poly_d (a : list Q2) : list C := c1 :: map (fun m => ofQ (q11 m)) a.

(* lines 346-352: A(w) = [[aw, bw], [cw, dw]] *)
Definition Aw (a : list Q2) (z : C) : M2 :=
  mkM2 (peval (poly_a a) z) (peval (poly_b a) z) (peval (poly_c a) z) (peval (poly_d a) z).

Definition det2 (A : M2) : C := csub (cmul (m00 A) (m11 A)) (cmul (m01 A) (m10 A)).

(* lines 356-358: Hw = [[dw, -bw], [-cw, aw]] / detA *)
Definition transfer (A : M2) : M2 :=
  let d := det2 A in
  mkM2 (cdiv (m11 A) d) (cdiv (cneg (m01 A)) d) (cdiv (cneg (m10 A)) d) (cdiv (m00 A) d).

(* the size of the grid: freq_response(..., n_freqs) one-sided -> n_freqs // 2 + 1 points *)
Definition gc_len (n_freqs : nat) : nat := (n_freqs / 2 + 1)%nat.
(* utils.get_freqs(Fs, n): int(n / 2 + 1) points *)
Definition get_freqs_len (n : nat) : nat := (n / 2 + 1)%nat.

(* ---------------------------------------------------------------- spectral_matrix_xy (397-409) *)
Definition spectral_matrix (H : M2) (cov : Q2) : M2 :=
  let t00 := cadd (cscale (q00 cov) (cconj (m00 H))) (cscale (q01 cov) (cconj (m01 H))) in
  let t01 := cadd (cscale (q00 cov) (cconj (m10 H))) (cscale (q01 cov) (cconj (m11 H))) in
  let t10 := cadd (cscale (q10 cov) (cconj (m00 H))) (cscale (q11 cov) (cconj (m01 H))) in
  let t11 := cadd (cscale (q10 cov) (cconj (m10 H))) (cscale (q11 cov) (cconj (m11 H))) in
  mkM2 (cadd (cmul (m00 H) t00) (cmul (m01 H) t10))
       (cadd (cmul (m00 H) t01) (cmul (m01 H) t11))
       (cadd (cmul (m10 H) t00) (cmul (m11 H) t10))
       (cadd (cmul (m10 H) t01) (cmul (m11 H) t11)).

(* ---------------------------------------------------------------- coherence_from_spectral (425-431) *)
Definition coherence (S : M2) : Q :=
  re (cmul (m01 S) (m10 S)) / re (m00 S) / re (m11 S).
(* interdependence_xy = -log(1 - Cw): the argument *)
Definition interdep_arg (S : M2) : Q := 1 - coherence S.

(* ---------------------------------------------------------------- granger_causality_xy (485-525) *)
Record gc_out := mkGC {
  gc_x2y : Q;      (* argument of the log giving f_x_on_y *)
  gc_y2x : Q;      (* argument of the log giving f_y_on_x *)
  gc_inst : Q;     (* argument of the log giving f_xy *)
  gc_S : M2 }.     (* np.array([[Sxx, Sxy], [Syx, Syy]]) *)

Definition granger_core (H : M2) (cov : Q2) : gc_out :=
  let sigma := q00 cov in
  let upsilon := q01 cov in
  let gamma := q11 cov in
  let gamma2 := gamma - upsilon * upsilon / sigma in
  let Hxy := m01 H in
  let Hxx_hat := cadd (m00 H) (cscale (upsilon / sigma) Hxy) in
  let xx_auto := re (cmul (cscale sigma Hxx_hat) (cconj Hxx_hat)) in
  let cross1 := cmul (cscale gamma2 Hxy) (cconj Hxy) in
  let Sxx := cadd (ofQ xx_auto) cross1 in
  let f_y_on_x := re Sxx / xx_auto in
  let sigma2 := sigma - upsilon * upsilon / gamma in
  let Hyx := m10 H in
  let Hyy_hat := cadd (m11 H) (cscale (upsilon / gamma) Hyx) in
  let yy_auto := re (cmul (cscale gamma Hyy_hat) (cconj Hyy_hat)) in
  let cross2 := cmul (cscale sigma2 Hyx) (cconj Hyx) in
  let Syy := cadd (ofQ yy_auto) cross2 in
  let f_x_on_y := re Syy / yy_auto in
  let Hxx := m00 H in
  let Hxy_hat := cadd (m01 H) (cscale (upsilon / gamma) Hxx) in
  let Sxy := cadd (cmul (cscale sigma2 Hxx) (cconj Hyx)) (cmul (cscale gamma Hxy_hat) (cconj Hyy_hat)) in
  let Syx := cadd (cmul (cscale sigma2 Hyx) (cconj Hxx)) (cmul (cscale gamma Hyy_hat) (cconj Hxy_hat)) in
  let detS := re (csub (cmul Sxx Syy) (cmul Sxy Syx)) in
  let f_xy := xx_auto * yy_auto / detS in
  mkGC f_x_on_y f_y_on_x f_xy (mkM2 Sxx Sxy Syx Syy).

(* the whole routine at one grid point z = e^{-jw} *)
Definition granger_xy (a : list Q2) (cov : Q2) (z : C) : gc_out :=
  granger_core (transfer (Aw a z)) cov.

(* the guards under which no division by zero happens in granger_core *)
Definition xx_auto_of (H : M2) (cov : Q2) : Q :=
  q00 cov * cnorm2 (cadd (m00 H) (cscale (q01 cov / q00 cov) (m01 H))).
Definition yy_auto_of (H : M2) (cov : Q2) : Q :=
  q11 cov * cnorm2 (cadd (m11 H) (cscale (q01 cov / q11 cov) (m10 H))).

(* ---------------------------------------------------------------- GrangerAnalyzer bookkeeping *)
(* dict keyed by (i, j): association list, later insertions shadow earlier ones *)
Definition key := (nat * nat)%type.
Definition key_eqb (a b : key) : bool := (fst a =? fst b)%nat && (snd a =? snd b)%nat.
Definition dict (V : Type) := list (key * V).
Fixpoint dget {V} (d : dict V) (k : key) : option V :=
  match d with
  | [] => None
  | (k', v) :: d' => if key_eqb k k' then Some v else dget d' k
  end.
Definition dset {V} (d : dict V) (k : key) (v : V) : dict V := (k, v) :: d.

(* _granger_causality: for i, j in self.ij: gc[key][i, j] = f(model_coef[i, j], error_cov[i, j]) *)
Definition gc_dict {V} (f : key -> V) (ij : list key) : dict V :=
  fold_left (fun d k => dset d k (f k)) ij [].

(* _dict2arr: arr = full((n, n, nf), nan); for i, j in self.ij: arr[i, j, :] = d[key][i, j].
   The array is a function of (i, j); None stands for a row of NaN. *)
Definition arr (V : Type) := key -> option V.
Definition arr_nan {V} : arr V := fun _ => None.
Definition arr_set {V} (a : arr V) (k : key) (v : option V) : arr V :=
  fun k' => if key_eqb k' k then v else a k'.
Definition dict2arr {V} (d : dict V) (ij : list key) : arr V :=
  fold_left (fun a k => arr_set a k (dget d k)) ij arr_nan.

(* causality_xy etc.: _dict2arr over the dict built from the same ij *)
Definition analyzer_arr {V} (f : key -> V) (ij : list key) : arr V := dict2arr (gc_dict f ij) ij.
