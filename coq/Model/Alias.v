(* Model/Alias.v — a store-and-alias calculus for numpy objects and, written in it, the
   nitime methods property C16 is anchored in.  Definitions only; proofs are in Proofs/AliasP.v.

   THE CALCULUS.  A store maps locations to cells.  A cell is a data buffer (the bytes: dtype and
   a list of values), a python list object, an ndarray object (a header: reference to its buffer,
   its shape, its class with the attribute slots that hold references), or a TimeSeries object
   (attribute slots).  Python values are immutable scalars or references.  Three store operations:
   `alloc` (a new cell at the next unused location), `write` (replace the cell at a location: every
   in-place effect — `*=`, `+=`, `a[k] = v`, `.shape = …`, attribute rebinding — is a `write` of a
   buffer or of a header), `read`.  Programs are written in a state-and-exception monad whose
   store survives an exception (`M A = store -> store * res A`), so what a failing call leaves
   behind is part of the semantics.

   numpy's aliasing rules, as primitive commands:
     asarray v        an ndarray: the SAME object; an instance of a subclass: a new header that
                      SHARES the buffer (base-class view); a list or scalar: a fresh array
     astype, np.array, .copy(), `a * k`, `a + b`, round    fresh buffer and header
     ndarray.copy on a subclass instance   fresh buffer; __array_finalize__ copies the attribute
                      slots BY REFERENCE (timeseries.py UniformTime.__array_finalize__)
     reshape, a[0]    fresh header sharing the buffer (view)
     `val *= k`       on an array: the buffer is overwritten in place; on a list: the list object is
                      overwritten (repetition); on a scalar: only the local name is rebound
     ndarray.__iadd__/__imul__/__setitem__   overwrite the buffer of the target in place
     `a.shape = sh`   overwrites the header in place
     `obj.attr = v`   overwrites the header (attribute slot) in place

   THE METHODS (nitime at the commit the check runs on; `_old` = the code before the fix: commits
   named at each definition):
     convert_if_needed, ta_binop     TimeArray._convert_if_needed and + - r+ r- < <= > >= ==
                                     (timeseries.py 255-300)
     ta_setitem (ta_setitem_old)     TimeArray.__setitem__ (248-253)
     ut_convert, ut_check, ut_convert_check, ut_iop, follow_shift, rebind_scaled, ut_imul
                                     UniformTime._convert_and_check_uniformity, __iadd__/__isub__,
                                     _follow_shift, __imul__ (after c4c4884, 9a1272e, c3a0f82)
     np_derive, view_of              objects derived through numpy: ufunc results, copy.copy, deepcopy,
                                     np.copy(subok=True), views (attribute slots by reference)
     follow_shift_aug, ut_iop_aug    the seeded augmented-assignment variant of _follow_shift (refuted)
     copy_arr, ut_copy_attrs, ut_copy (ut_copy_old)
                                     ndarray.copy + __array_finalize__; UniformTime.copy (after 30eef3b)
     ts_copy, ts_apply, ts_binop, ts_iop   TimeSeries.copy, + - * via copy, += -= *=
     csd (csd_old, csd_sk_inplace)   periodogram_csd's handling of its two array arguments (s and the
                                     precomputed Sk) up to the transform
                                     (algorithms/spectral.py 311-325)
     boxcar (boxcar_old), filtered_boxcar   algorithms/filter.py 48-53,69,95,104-107;
                                     analysis/spectral.py 493 (np.copy before filtering)

   Taken from numpy/scipy, not modelled: the values computed by fft / convolve (the model carries
   an empty payload for them), and the contract that out-of-place library functions (fft, diff,
   hstack, convolve, round, astype) do not write to their inputs.  Values are integers (`Z`):
   int64 payloads exactly; float64 payloads are restricted to integer-valued floats by the
   generator, overflow is excluded by the generator (|v| * factor < 2^62).
   Abstractions: TimeSeries.copy builds its time axis through the cached `time` property and the
   TimeSeries constructor, which re-wrap t0 / sampling_interval / duration with TimeArray(...)
   (= `.copy()` of a time object): modelled as three `copy_arr`.  The row loop of boxcar_filter is
   one in-place overwrite of the whole buffer.  Objects allocated for intermediate values whose
   aliasing cannot matter (sums computed for re-bound attributes) are allocated directly. *)
From Coq Require Import ZArith List Bool Arith Lia.
Import ListNotations.

Definition loc := nat.

Inductive dtype := I32 | I64 | F64 | B8.
Inductive exn := EValue | EType | EIndex | EAttr | EZero | EOther.

(* class of an ndarray object, with its reference-holding attribute slots *)
Inductive akind :=
| KPlain
| KTime (cf : Z)
| KUniform (cf : Z) (t0 si dur : loc).

Inductive cell :=
| CBuf (dt : dtype) (data : list Z)
| CList (fl : bool) (data : list Z)
| CArr (buf : loc) (shape : list nat) (k : akind)
| CSeries (data t0 si dur : loc).

Inductive pyval := PInt (z : Z) | PFloat (z : Z) | PRef (l : loc).

Record store := mkstore { next : nat; mem : loc -> option cell }.

Definition upd (m : loc -> option cell) (l : loc) (c : cell) : loc -> option cell :=
  fun l' => if Nat.eqb l' l then Some c else m l'.

Definition empty_store : store := mkstore 0 (fun _ => None).

Inductive res (A : Type) := Ok (a : A) | Exn (e : exn).
Arguments Ok {A} a.
Arguments Exn {A} e.

Definition M (A : Type) := store -> store * res A.

Definition ret {A} (a : A) : M A := fun s => (s, Ok a).
Definition raise {A} (e : exn) : M A := fun s => (s, Exn e).
Definition bind {A B} (m : M A) (f : A -> M B) : M B :=
  fun s => match m s with
           | (s', Ok a) => f a s'
           | (s', Exn e) => (s', Exn e)
           end.
Notation "x <- m ;; f" := (bind m (fun x => f)) (at level 61, m at next level, right associativity).
Notation "m ;;; f" := (bind m (fun _ => f)) (at level 61, right associativity).

(* the three store operations *)
Definition alloc (c : cell) : M loc :=
  fun s => (mkstore (S (next s)) (upd (mem s) (next s) c), Ok (next s)).
Definition write (l : loc) (c : cell) : M unit :=
  fun s => (mkstore (next s) (upd (mem s) l c), Ok tt).
Definition read (l : loc) : M cell :=
  fun s => match mem s l with Some c => (s, Ok c) | None => (s, Exn EOther) end.

(* ------------------------------------------------------------------ shapes and broadcasting *)
Definition prod_shape (sh : list nat) : nat := fold_right Nat.mul 1%nat sh.
Definition shape_eqb (a b : list nat) : bool :=
  (fix go a b := match a, b with
                 | [], [] => true
                 | x :: a', y :: b' => Nat.eqb x y && go a' b'
                 | _, _ => false end) a b.
Definition is_single (sh : list nat) : bool :=
  match sh with [] => true | [n] => Nat.eqb n 1 | _ => false end.
Fixpoint map2 (f : Z -> Z -> Z) (a b : list Z) : list Z :=
  match a, b with
  | x :: a', y :: b' => f x y :: map2 f a' b'
  | _, _ => []
  end.
Fixpoint tile (n : nat) (l : list Z) : list Z :=
  match n with O => [] | S n' => l ++ tile n' l end.
(* sb is a proper suffix of sa *)
Definition is_suffix (sa sb : list nat) : bool :=
  Nat.ltb (length sb) (length sa) && shape_eqb (skipn (length sa - length sb) sa) sb.

(* numpy broadcasting of two operands (the cases the generator produces: equal shapes, a 0-d /
   one-element operand, a trailing-axes operand); None = "operands could not be broadcast" *)
Definition bcast (f : Z -> Z -> Z) (a : list Z) (sa : list nat) (b : list Z) (sb : list nat)
  : option (list Z * list nat) :=
  if shape_eqb sa sb then Some (map2 f a b, sa)
  else if is_single sb then
    match b with
    | [y] => Some (map (fun x => f x y) a, if Nat.leb (length sb) (length sa) then sa else sb)
    | _ => None end
  else if is_single sa then
    match a with
    | [x] => Some (map (fun y => f x y) b, if Nat.leb (length sa) (length sb) then sb else sa)
    | _ => None end
  else if is_suffix sa sb then Some (map2 f a (tile (Nat.div (prod_shape sa) (prod_shape sb)) b), sa)
  else if is_suffix sb sa then Some (map2 f (tile (Nat.div (prod_shape sb) (prod_shape sa)) a) b, sb)
  else None.

(* ------------------------------------------------------------------ reading an array *)
Record ainfo := mk_ainfo { a_buf : loc; a_shape : list nat; a_kind : akind; a_dt : dtype; a_data : list Z }.

Definition arr_info (l : loc) : M ainfo :=
  c <- read l ;;
  match c with
  | CArr b sh k =>
      cb <- read b ;;
      match cb with
      | CBuf dt d => ret (mk_ainfo b sh k dt d)
      | _ => raise EOther
      end
  | _ => raise EType
  end.

Definition new_arr (dt : dtype) (data : list Z) (sh : list nat) (k : akind) : M loc :=
  b <- alloc (CBuf dt data) ;; alloc (CArr b sh k).

Definition has_cf (v : pyval) : M (option Z) :=
  match v with
  | PRef l => c <- read l ;;
              match c with
              | CArr _ _ (KTime cf) => ret (Some cf)
              | CArr _ _ (KUniform cf _ _ _) => ret (Some cf)
              | _ => ret None
              end
  | _ => ret None
  end.

Definition kind_cf (k : akind) : Z :=
  match k with KPlain => 1%Z | KTime cf => cf | KUniform cf _ _ _ => cf end.

(* np.asarray *)
Definition asarray (v : pyval) : M loc :=
  match v with
  | PInt z => new_arr I64 [z] [] KPlain
  | PFloat z => new_arr F64 [z] [] KPlain
  | PRef l =>
      c <- read l ;;
      match c with
      | CArr b sh KPlain => ret l
      | CArr b sh _ => alloc (CArr b sh KPlain)
      | CList fl d => new_arr (if fl then F64 else I64) d [length d] KPlain
      | _ => raise EType
      end
  end.

(* a.astype(dt), np.array(a, dtype=dt), np.copy(a): always a fresh plain array *)
Definition astype (l : loc) (dt : dtype) : M loc :=
  i <- arr_info l ;; new_arr dt (a_data i) (a_shape i) KPlain.
(* a * k (k a python int), a.round(): fresh array of the same class *)
Definition mul_fresh (l : loc) (k : Z) : M loc :=
  i <- arr_info l ;; new_arr (a_dt i) (map (Z.mul k) (a_data i)) (a_shape i) (a_kind i).
Definition round_fresh (l : loc) : M loc :=
  i <- arr_info l ;; new_arr (a_dt i) (a_data i) (a_shape i) (a_kind i).

Definition is_int (dt : dtype) : bool := match dt with I32 | I64 => true | _ => false end.
Definition promote (a b : dtype) : dtype :=
  match a, b with F64, _ | _, F64 => F64 | _, _ => I64 end.

(* a `op` b out of place: fresh array of class k and dtype dt *)
Definition binop_fresh (f : Z -> Z -> Z) (a b : loc) (dt : dtype) (k : akind) : M loc :=
  ia <- arr_info a ;; ib <- arr_info b ;;
  match bcast f (a_data ia) (a_shape ia) (a_data ib) (a_shape ib) with
  | Some (d, sh) => new_arr dt d sh k
  | None => raise EValue
  end.

(* ndarray.__iadd__ / __isub__ / __imul__ (self, b): the buffer of self is overwritten.
   Casting and broadcasting are checked before anything is written. *)
Definition iop_inplace (f : Z -> Z -> Z) (self b : loc) : M unit :=
  ia <- arr_info self ;; ib <- arr_info b ;;
  if is_int (a_dt ia) && negb (is_int (a_dt ib)) && negb (match a_dt ib with B8 => true | _ => false end)
  then raise EType
  else match bcast f (a_data ia) (a_shape ia) (a_data ib) (a_shape ib) with
       | Some (d, sh) => if shape_eqb sh (a_shape ia) then write (a_buf ia) (CBuf (a_dt ia) d)
                         else raise EValue
       | None => raise EValue
       end.

(* ------------------------------------------------------------------ TimeArray *)
(* TimeArray._convert_if_needed (timeseries.py 255-267, after 44ab419) *)
Definition convert_if_needed (cf : Z) (v : pyval) : M loc :=
  h <- has_cf v ;;
  match h, v with
  | Some _, PRef l => ret l
  | _, _ =>
      a <- asarray v ;;
      i <- arr_info a ;;
      if is_int (a_dt i)
      then a2 <- astype a I64 ;; mul_fresh a2 cf
      else m <- mul_fresh a cf ;; r <- round_fresh m ;; astype r I64
  end.

(* + - r+ r- (cmp = false: a time array of the class of self) and < <= > >= == (cmp = true: a
   plain boolean array, __array_wrap__) *)
Definition ta_binop (f : Z -> Z -> Z) (cmp : bool) (self : loc) (v : pyval) : M loc :=
  c <- read self ;;
  match c with
  | CArr _ _ k =>
      w <- convert_if_needed (kind_cf k) v ;;
      if cmp then binop_fresh f self w B8 KPlain
      else binop_fresh f self w I64 (KTime (kind_cf k))
  | _ => raise EType
  end.

(* ndarray.__setitem__(self, slice(start, start+len), w): overwrites the buffer of self *)
Definition splice (d : list Z) (start : nat) (w : list Z) : list Z :=
  firstn start d ++ w ++ skipn (start + length w) d.
Definition setitem_range (self : loc) (start len : nat) (w : loc) : M unit :=
  ia <- arr_info self ;; iw <- arr_info w ;;
  match a_shape ia with
  | [] => raise EIndex                                   (* a 0-d array cannot be sliced *)
  | _ =>
    let len' := Nat.min (start + len) (length (a_data ia)) - start in   (* slices are clipped *)
    if is_single (a_shape iw) then
      match a_data iw with
      | [y] => write (a_buf ia) (CBuf (a_dt ia) (splice (a_data ia) start (repeat y len')))
      | _ => raise EValue
      end
    else if shape_eqb (a_shape iw) [len']
         then write (a_buf ia) (CBuf (a_dt ia) (splice (a_data ia) start (a_data iw)))
         else raise EValue
  end.

(* TimeArray.__setitem__ (timeseries.py 248-253, after 9da9736) *)
Definition ta_setitem (self : loc) (start len : nat) (v : pyval) : M unit :=
  c <- read self ;;
  match c with
  | CArr _ _ k => w <- convert_if_needed (kind_cf k) v ;; setitem_range self start len w
  | _ => raise EType
  end.

(* the python statement `val *= k` *)
Definition imul_stmt (v : pyval) (k : Z) : M pyval :=
  match v with
  | PInt z => ret (PInt (k * z))
  | PFloat z => ret (PFloat (k * z))
  | PRef l =>
      c <- read l ;;
      match c with
      | CArr b sh _ =>
          cb <- read b ;;
          match cb with
          | CBuf dt d => write b (CBuf dt (map (Z.mul k) d)) ;;; ret (PRef l)
          | _ => raise EOther
          end
      | CList fl d => write l (CList fl (tile (Z.to_nat k) d)) ;;; ret (PRef l)
      | _ => raise EType
      end
  end.

(* TimeArray.__setitem__ before 9da9736:
     if not hasattr(val, '_conversion_factor'): val *= self._conversion_factor *)
Definition ta_setitem_old (self : loc) (start len : nat) (v : pyval) : M unit :=
  c <- read self ;;
  match c with
  | CArr _ _ k =>
      h <- has_cf v ;;
      v' <- match h with Some _ => ret v | None => imul_stmt v (kind_cf k) end ;;
      w <- asarray v' ;;
      setitem_range self start len w
  | _ => raise EType
  end.

(* ------------------------------------------------------------------ UniformTime *)
Fixpoint diffs (d : list Z) : list Z :=
  match d with
  | x :: ((y :: _) as t) => (y - x)%Z :: diffs t
  | _ => []
  end.

Definition scalar_of (l : loc) : M (Z * Z) :=      (* value and conversion factor of a 0-d time object *)
  i <- arr_info l ;;
  match a_data i with [z] => ret (z, kind_cf (a_kind i)) | _ => raise EOther end.

(* UniformTime._convert_and_check_uniformity (after c4c4884, 9a1272e and c3a0f82):
   the operand is converted out of place (ut_convert); a 1-d operand must have constant
   increments and must leave a positive sampling interval (ut_check); nothing is written *)
Definition ut_convert (cf : Z) (v : pyval) : M loc :=
  h <- has_cf v ;;
  match h, v with
  | Some _, PRef l => i <- arr_info l ;; astype l (a_dt i)     (* np.array(val): a private copy (c3a0f82) *)
  | _, _ =>
      a <- asarray v ;;
      i <- arr_info a ;;
      a2 <- match a_dt i with I32 => astype a I64 | _ => ret a end ;;
      mul_fresh a2 cf
  end.

Definition ut_check (si : loc) (sign : Z) (w : loc) : M loc :=
  i <- arr_info w ;;
  match a_shape i with
  | [_] =>
      match diffs (a_data i) with
      | [] => raise EIndex                                   (* dv[0] of an empty difference *)
      | d0 :: ds =>
          if forallb (Z.eqb d0) ds
          then x <- scalar_of si ;;
               if (fst x + sign * d0 <=? 0)%Z then raise EValue else ret w
          else raise EValue
      end
  | _ => ret w
  end.

Definition ut_convert_check (self : loc) (sign : Z) (v : pyval) : M loc :=
  c <- read self ;;
  match c with
  | CArr _ _ (KUniform cf _ si _) => w <- ut_convert cf v ;; ut_check si sign w
  | _ => raise EAttr
  end.

(* UniformTime._follow_shift (781-794): t0 (and for a ramp the interval and the duration) are
   re-bound to freshly computed time objects; nothing is modified in place *)
Definition follow_shift (self w : loc) (sign : Z) : M unit :=
  c <- read self ;;
  match c with
  | CArr b sh (KUniform cf t0 si dur) =>
      i <- arr_info w ;;
      match a_shape i with
      | [_] =>
          match a_data i with
          | v0 :: v1 :: _ =>
              t <- scalar_of t0 ;; t0' <- new_arr I64 [fst t + sign * v0]%Z [] (KTime (snd t)) ;;
              write self (CArr b sh (KUniform cf t0' si dur)) ;;;
              let dv := (sign * v1 - sign * v0)%Z in
              x <- scalar_of si ;; si' <- new_arr I64 [fst x + dv]%Z [] (KTime (snd x)) ;;
              write self (CArr b sh (KUniform cf t0' si' dur)) ;;;
              y <- scalar_of dur ;;
              dur' <- new_arr I64 [fst y + Z.of_nat (hd 0%nat sh) * dv]%Z [] (KTime (snd y)) ;;
              write self (CArr b sh (KUniform cf t0' si' dur')) ;;;
              (* self.sampling_rate = Frequency(1.0 / (float(self.sampling_interval) / ...)) *)
              if (fst x + dv =? 0)%Z then raise EZero else ret tt
          | [v0] =>
              t <- scalar_of t0 ;; t0' <- new_arr I64 [fst t + sign * v0]%Z [] (KTime (snd t)) ;;
              write self (CArr b sh (KUniform cf t0' si dur)) ;;; raise EIndex
          | [] => raise EIndex
          end
      | _ =>
          t <- scalar_of t0 ;;
          r <- match bcast Z.add [fst t] [] (map (Z.mul sign) (a_data i)) (a_shape i) with
               | Some (d, sh') => new_arr I64 d sh' (KTime (snd t))
               | None => raise EValue end ;;
          write self (CArr b sh (KUniform cf r si dur))
      end
  | _ => raise EAttr
  end.

(* UniformTime.__iadd__ (sign = 1) / __isub__ (sign = -1)  (796-806) *)
Definition ut_iop (sign : Z) (self : loc) (v : pyval) : M unit :=
  c <- read self ;;
  match c with
  | CArr _ _ k =>
      w <- ut_convert_check self sign v ;;
      iop_inplace (fun a b => a + sign * b)%Z self w ;;;
      follow_shift self w sign
  | _ => raise EType
  end.

(* the attribute part of UniformTime.__imul__: t0, interval and duration are re-bound to fresh
   products, then the rate is recomputed *)
Definition rebind_scaled (self : loc) (k : Z) : M unit :=
      c <- read self ;;
      match c with
      | CArr b sh (KUniform cf t0 si dur) =>
          t <- scalar_of t0 ;; t0' <- new_arr I64 [fst t * k]%Z [] (KTime (snd t)) ;;
          write self (CArr b sh (KUniform cf t0' si dur)) ;;;
          x <- scalar_of si ;; si' <- new_arr I64 [fst x * k]%Z [] (KTime (snd x)) ;;
          write self (CArr b sh (KUniform cf t0' si' dur)) ;;;
          y <- scalar_of dur ;; dur' <- new_arr I64 [fst y * k]%Z [] (KTime (snd y)) ;;
          write self (CArr b sh (KUniform cf t0' si' dur')) ;;;
          (* self.sampling_rate = Frequency(self.sampling_rate / val) *)
          if (k =? 0)%Z then raise EZero else ret tt
      | _ => raise EAttr
      end.

(* UniformTime.__imul__ with a python number (after 9a1272e) *)
Definition ut_imul (self : loc) (v : pyval) : M unit :=
  match v with
  | PInt k =>
      if (k <=? 0)%Z then raise EValue else           (* `not val > 0`: refused up front *)
      kk <- new_arr I64 [k] [] KPlain ;;
      iop_inplace Z.mul self kk ;;;
      rebind_scaled self k
  | PFloat k =>
      if (k <=? 0)%Z then raise EValue else
      kk <- new_arr F64 [k] [] KPlain ;; iop_inplace Z.mul self kk
  | PRef _ => raise EOther      (* array factors: not modelled (they belong to C17) *)
  end.

(* ndarray.copy(self): fresh buffer, fresh header; for a subclass instance __array_finalize__
   copies the attribute slots by reference *)
Definition copy_arr (l : loc) : M loc :=
  i <- arr_info l ;; new_arr (a_dt i) (a_data i) (a_shape i) (a_kind i).

(* Objects DERIVED from an array through numpy rather than through .copy() / the constructor:
   the result of a ufunc (`a + 0`, `a - 1`, np.add(a, k), a.astype(..)), copy.copy(a),
   copy.deepcopy(a), np.copy(a, subok=True), np.array(a, subok=True): a fresh buffer and a fresh
   header of the same class; __array_finalize__ hands the attribute slots over BY REFERENCE
   (timeseries.py UniformTime.__array_finalize__: setattr(self, attr, getattr(obj, attr))).
   g is what the derivation does to the values. *)
Definition np_derive (g : list Z -> list Z) (x : loc) : M loc :=
  i <- arr_info x ;; new_arr (a_dt i) (g (a_data i)) (a_shape i) (a_kind i).
(* a view (a[:], a.view()): a fresh header on the SAME buffer, attribute slots by reference *)
Definition view_of (x : loc) : M loc :=
  c <- read x ;;
  match c with CArr b sh k => alloc (CArr b sh k) | _ => raise EAttr end.

(* _follow_shift with AUGMENTED assignments (`self.t0 += ...`, `self.sampling_interval += dv`,
   `self.duration += ...`; not the code of the tree: the seeded variant C16_2): a TimeArray has no
   __iadd__ of its own, so ndarray.__iadd__ overwrites the buffer of the attribute object, which
   every axis derived through numpy shares *)
Definition follow_shift_aug (self w : loc) (sign : Z) : M unit :=
  c <- read self ;;
  match c with
  | CArr b sh (KUniform cf t0 si dur) =>
      i <- arr_info w ;;
      match a_shape i with
      | [_] =>
          match a_data i with
          | v0 :: v1 :: _ =>
              x0 <- new_arr I64 [sign * v0]%Z [] (KTime 1) ;; iop_inplace Z.add t0 x0 ;;;
              let dv := (sign * v1 - sign * v0)%Z in
              x1 <- new_arr I64 [dv] [] (KTime 1) ;; iop_inplace Z.add si x1 ;;;
              x2 <- new_arr I64 [Z.of_nat (hd 0%nat sh) * dv]%Z [] (KTime 1) ;; iop_inplace Z.add dur x2
          | _ => raise EIndex
          end
      | _ =>
          x0 <- new_arr I64 (map (Z.mul sign) (a_data i)) (a_shape i) (KTime 1) ;; iop_inplace Z.add t0 x0
      end
  | _ => raise EAttr
  end.
Definition ut_iop_aug (sign : Z) (self : loc) (v : pyval) : M unit :=
  w <- ut_convert_check self sign v ;;
  iop_inplace (fun a b => a + sign * b)%Z self w ;;;
  follow_shift_aug self w sign.

(* UniformTime.copy before 30eef3b was ndarray.copy *)
Definition ut_copy_old (self : loc) : M loc := copy_arr self.

(* for attr in ['t0', 'sampling_interval', 'duration']: setattr(out, attr, getattr(self, attr).copy())
   (the slots of out still hold self's objects at this point) *)
Definition ut_copy_attrs (out : loc) : M loc :=
  c <- read out ;;
  match c with
  | CArr b sh (KUniform cf t0 si dur) =>
      t0' <- copy_arr t0 ;; write out (CArr b sh (KUniform cf t0' si dur)) ;;;
      si' <- copy_arr si ;; write out (CArr b sh (KUniform cf t0' si' dur)) ;;;
      dur' <- copy_arr dur ;; write out (CArr b sh (KUniform cf t0' si' dur')) ;;;
      ret out
  | _ => ret out
  end.

(* UniformTime.copy (after 30eef3b): the three time-valued attributes are copied too *)
Definition ut_copy (self : loc) : M loc :=
  out <- copy_arr self ;; ut_copy_attrs out.

(* ------------------------------------------------------------------ TimeSeries *)
(* TimeSeries.copy (1076-1080) *)
Definition ts_copy (self : loc) : M loc :=
  c <- read self ;;
  match c with
  | CSeries d t0 si dur =>
      d' <- copy_arr d ;; t0' <- copy_arr t0 ;; si' <- copy_arr si ;; dur' <- copy_arr dur ;;
      alloc (CSeries d' t0' si' dur')
  | _ => raise EAttr
  end.

(* np.asanyarray(other).T : asanyarray keeps subclass instances as they are; .T of a 0-d / 1-d
   array is a view (fresh header, same buffer) *)
Definition asanyarray_T (v : pyval) : M loc :=
  a <- match v with
       | PRef l => c <- read l ;; match c with CArr _ _ _ => ret l | _ => asarray v end
       | _ => asarray v
       end ;;
  c <- read a ;;
  match c with
  | CArr b sh k => alloc (CArr b (rev sh) k)
  | _ => raise EType
  end.

(* out.data = out.data.__op__(np.asanyarray(other).T) *)
Definition ts_apply (f : Z -> Z -> Z) (out : loc) (v : pyval) : M loc :=
  o <- asanyarray_T v ;;
  c <- read out ;;
  match c with
  | CSeries d t0 si dur =>
      i <- arr_info d ;; io <- arr_info o ;;
      r <- binop_fresh f d o (promote (a_dt i) (a_dt io)) KPlain ;;
      write out (CSeries r t0 si dur) ;;; ret out
  | _ => raise EAttr
  end.

(* TimeSeries + - * other (1004-1020): out = self.copy(); out.data = out.data.__op__(other.T) *)
Definition ts_binop (f : Z -> Z -> Z) (self : loc) (v : pyval) : M loc :=
  out <- ts_copy self ;; ts_apply f out v.

(* TimeSeries += -= *= other (1027-1037): documented in-place on self.data *)
Definition ts_iop (f : Z -> Z -> Z) (self : loc) (v : pyval) : M unit :=
  c <- read self ;;
  match c with
  | CSeries d _ _ _ => o <- asanyarray_T v ;; iop_inplace f d o
  | _ => raise EAttr
  end.

(* ------------------------------------------------------------------ periodogram_csd *)
Definition flat2 (sh : list nat) : list nat :=
  let n := last sh 1%nat in [Nat.div (prod_shape sh) n; n].

(* scipy.fftpack.fft(a, n=N): raises for N < 1, else a fresh array (values not modelled) *)
Definition fft_lib (a : loc) (N : option Z) : M loc :=
  i <- arr_info a ;;
  match N with
  | Some n => if (n <? 1)%Z then raise EValue
              else new_arr F64 [] [hd 0%nat (a_shape i); Z.to_nat n] KPlain
  | None => new_arr F64 [] (a_shape i) KPlain
  end.

(* a.reshape(sh): a view *)
Definition reshape_view (a : loc) (sh : list nat) : M loc :=
  c <- read a ;;
  match c with CArr b _ k => alloc (CArr b sh k) | _ => raise EAttr end.

(* a.shape = sh : in place on the header *)
Definition set_shape (a : loc) (sh : list nat) : M unit :=
  c <- read a ;;
  match c with
  | CArr b sh0 k => if Nat.eqb (prod_shape sh0) (prod_shape sh) then write a (CArr b sh k)
                    else raise EAttr
  | _ => raise EAttr
  end.

(* periodogram_csd (algorithms/spectral.py 311-328, after 1507847), BOTH array arguments:
     s_loc = s.reshape(-1, n)                                   a view of s
     if Sk is not None:  Sk_loc = Sk.reshape(np.prod(Sk.shape[:-1]), N)
                         a view of the caller's precomputed transform; for a 1-d Sk the product of
                         the empty shape is a float and reshape raises TypeError; NFFT is ignored
     else:               Sk_loc = fft(s_loc, n=N)               may raise (bad NFFT)
   everything after is computed from Sk_loc into fresh arrays *)
Definition csd (s : loc) (Sk : option loc) (N : option Z) : M loc :=
  c <- read s ;;
  match c with
  | CArr _ sh _ =>
      s_loc <- reshape_view s (flat2 sh) ;;
      match Sk with
      | Some k =>
          ck <- read k ;;
          match ck with
          | CArr _ [_] _ => raise EType
          | CArr _ shk _ => k_loc <- reshape_view k (flat2 shk) ;; new_arr F64 [] [] KPlain
          | _ => raise EAttr
          end
      | None => fft_lib s_loc N
      end
  | _ => raise EAttr
  end.

(* the seeded variant  Sk_loc = np.asarray(Sk); Sk_loc.shape = (-1, N)  : asarray of an ndarray is the
   caller's own object, whose header is then overwritten *)
Definition csd_sk_inplace (s : loc) (Sk : loc) : M loc :=
  c <- read s ;;
  match c with
  | CArr _ sh _ =>
      s_loc <- reshape_view s (flat2 sh) ;;
      k <- asarray (PRef Sk) ;;
      ck <- read k ;;
      match ck with
      | CArr _ shk _ => set_shape k (flat2 shk) ;;; new_arr F64 [] [] KPlain
      | _ => raise EAttr
      end
  | _ => raise EAttr
  end.

(* before 1507847:  s_shape = s.shape; s.shape = (-1, n); Sk_loc = fft(s, n=N); s.shape = s_shape *)
Definition csd_old (s : loc) (N : option Z) : M loc :=
  c <- read s ;;
  match c with
  | CArr _ sh _ =>
      set_shape s (flat2 sh) ;;;
      r <- fft_lib s N ;;
      set_shape s sh ;;; ret r
  | _ => raise EAttr
  end.

(* ------------------------------------------------------------------ boxcar filtering *)
(* the row loop `time_series[i] = …` : the buffer of the array is overwritten with library-computed
   values (not modelled: empty payload) *)
Definition assign_rows (a : loc) : M unit :=
  i <- arr_info a ;; write (a_buf i) (CBuf (a_dt i) []).

(* boxcar_filter (algorithms/filter.py, after 322933f and af89e6b): 1-d input is wrapped into a
   fresh 2-d array, 2-d input is copied, in both cases as a FLOATING POINT array
   (np.result_type(dtype, float): float64 for the int / bool / float64 dtypes of the model); the
   rows of that array are then filtered in place *)
Definition boxcar (a : loc) : M loc :=
  i <- arr_info a ;;
  match a_shape i with
  | [n] => w <- new_arr (promote (a_dt i) F64) (a_data i) [1%nat; n] KPlain ;; assign_rows w ;;;
           reshape_view w [n]                                     (* time_series[0] *)
  | [_; _] => w <- astype a (promote (a_dt i) F64) ;; assign_rows w ;;; ret w
  | _ => w <- astype a (promote (a_dt i) F64) ;; raise EValue
  end.

(* before 322933f the 2-d input itself was filtered in place *)
Definition boxcar_old (a : loc) : M loc :=
  i <- arr_info a ;;
  match a_shape i with
  | [n] => w <- new_arr (a_dt i) (a_data i) [1%nat; n] KPlain ;; assign_rows w ;;;
           reshape_view w [n]
  | [_; _] => assign_rows a ;;; ret a
  | _ => raise EValue
  end.

(* FilterAnalyzer.filtered_boxcar (analysis/spectral.py 493): boxcar_filter(np.copy(self.data)) *)
Definition filtered_boxcar (series : loc) : M loc :=
  c <- read series ;;
  match c with
  | CSeries d _ _ _ =>
      i <- arr_info d ;; w <- astype d (a_dt i) ;; r <- boxcar w ;;
      (* data_out - mean(data_out) + mean(self.data): a fresh float array (after bf2d0bb) *)
      j <- arr_info r ;; new_arr F64 [] (a_shape j) KPlain
  | _ => raise EAttr
  end.

(* ------------------------------------------------------------------ observation *)
(* what a caller can see of an object: for an array its dtype, shape and bytes and those of the
   objects in its attribute slots; for a series those of data, t0, interval, duration *)
Record asnap := mk_asnap { s_dt : dtype; s_shape : list nat; s_data : list Z; s_cf : Z }.

Definition arr_snap (s : store) (l : loc) : option asnap :=
  match mem s l with
  | Some (CArr b sh k) =>
      match mem s b with
      | Some (CBuf dt d) => Some (mk_asnap dt sh d (kind_cf k))
      | _ => None
      end
  | _ => None
  end.

Inductive snap :=
| SnArr (a : asnap)
| SnUniform (a : asnap) (t0 si dur : option asnap)
| SnList (fl : bool) (d : list Z)
| SnSeries (d t0 si dur : option asnap)
| SnNone.

Definition snapshot (s : store) (l : loc) : snap :=
  match mem s l with
  | Some (CArr b sh (KUniform cf t0 si dur)) =>
      match arr_snap s l with
      | Some a => SnUniform a (arr_snap s t0) (arr_snap s si) (arr_snap s dur)
      | None => SnNone
      end
  | Some (CArr b sh _) => match arr_snap s l with Some a => SnArr a | None => SnNone end
  | Some (CList fl d) => SnList fl d
  | Some (CSeries d t0 si dur) => SnSeries (arr_snap s d) (arr_snap s t0) (arr_snap s si) (arr_snap s dur)
  | _ => SnNone
  end.

(* the locations `snapshot s l` reads *)
Definition arr_fp (s : store) (l : loc) : list loc :=
  match mem s l with
  | Some (CArr b _ _) => [l; b]
  | _ => [l]
  end.
Definition footprint (s : store) (l : loc) : list loc :=
  match mem s l with
  | Some (CArr b sh (KUniform cf t0 si dur)) => [l; b] ++ arr_fp s t0 ++ arr_fp s si ++ arr_fp s dur
  | Some (CArr b sh _) => [l; b]
  | Some (CSeries d t0 si dur) => l :: arr_fp s d ++ arr_fp s t0 ++ arr_fp s si ++ arr_fp s dur
  | _ => [l]
  end.

(* s' agrees with s on every location of s outside W *)
Definition ext (W : list loc) (s s' : store) : Prop :=
  (next s <= next s')%nat /\ forall l, (l < next s)%nat -> ~ In l W -> mem s' l = mem s l.

(* well-formed store: nothing beyond `next`, and references point below `next` *)
Definition cell_refs (c : cell) : list loc :=
  match c with
  | CArr b _ (KUniform _ t0 si dur) => [b; t0; si; dur]
  | CArr b _ _ => [b]
  | CSeries d t0 si dur => [d; t0; si; dur]
  | _ => []
  end.
Definition wf (s : store) : Prop :=
  (forall l, (next s <= l)%nat -> mem s l = None) /\
  (forall l c, mem s l = Some c -> forall r, In r (cell_refs c) -> (r < next s)%nat).
