(* Model/Adaptive.v — model of nitime.utils.adaptive_weights (utils.py 451-566), the branch for
   K >= 3 tapers, written per frequency bin (the vectorised code treats the bins independently,
   except for the stopping rule).  Definitions only; proofs in Proofs/AdaptiveP.v.

   Inputs: Y k = the k-th tapered spectrum (yk), lam = eigvals, rt = sqrt(eigvals) (library sqrt:
   an argument), sd / N as in Model/Spectral.v, m = the number of passes of the `for n in
   range(max_iter)` loop that were executed (1 <= m <= 150; it is decided by the stopping rule
   `np.percentile(cfn**2, 95) < 1e-12`, whose statistic cfn is modelled by ad_cfn).

     ad_var     501-504  sdf = mtm_cross_spectrum(yk, yk, eigvals[:, None], sides); var_est = sum(sdf)/N
     ad_bb      505      bband_sup = (1 - eigvals) * var_est
     ad_S0      521-522  sdf_iter = mtm_cross_spectrum(yk[:2], yk[:2], eigvals[:2, None], sides)
     ad_ds      534-536  d_sdfs = |yk|^2, doubled (every bin) when L < N
     ad_dk      540-541, 531-532  d_k = rt_eig*sdf_iter / (eigvals*sdf_iter + bband_sup)   (also w_def)
     ad_step    547-548  sdf_iter = sum_k d_k^2 d_sdfs / sum_k d_k^2
     ad_cfn     550-552  cfn = sum_k eigvals (sdf_iter - d_sdfs) / (eigvals sdf_iter + bband_sup)^2
     ad_weights 562-564  weights = d_k of the last pass (bins below min_pwr: w_def, i.e. one pass)
     ad_weights_few, ad_nu_few  486-497  the branch for fewer than 3 tapers
   Not modelled: the 150 dB partition itself (is_default is an argument), np.percentile. *)
From Coq Require Import QArith List Arith Bool.
From NT Require Import QC Sums Spectral.
Open Scope Q_scope.

Definition ad_dk (rt lam bb : nat -> Q) (S : Q) (k : nat) : Q := rt k * S / (lam k * S + bb k).

Definition ad_step (K : nat) (rt lam bb ds : nat -> Q) (S : Q) : Q :=
  sumn (fun k => ad_dk rt lam bb S k * ad_dk rt lam bb S k * ds k) K
  / sumn (fun k => ad_dk rt lam bb S k * ad_dk rt lam bb S k) K.

Fixpoint ad_iter (m K : nat) (rt lam bb ds : nat -> Q) (S : Q) : Q :=
  match m with O => S | Datatypes.S m' => ad_iter m' K rt lam bb ds (ad_step K rt lam bb ds S) end.

Definition ad_cfn (K : nat) (lam bb ds : nat -> Q) (S : Q) : Q :=
  sumn (fun k => lam k * (S - ds k) / ((lam k * S + bb k) * (lam k * S + bb k))) K.

Definition ad_var (sd : sides) (N K : nat) (lam : nat -> Q) (Y : nat -> sig) : Q :=
  sumn (fun f => mtm_auto sd N K (fun k _ => lam k) Y f) (out_len sd N) / inj N.
Definition ad_bb (lam : nat -> Q) (var : Q) (k : nat) : Q := (1 - lam k) * var.
Definition ad_S0 (sd : sides) (N : nat) (lam : nat -> Q) (Y : nat -> sig) (f : nat) : Q :=
  mtm_auto sd N 2 (fun k _ => lam k) Y f.
Definition ad_ds (sd : sides) (N : nat) (Y : nat -> sig) (f k : nat) : Q :=
  (if (out_len sd N <? N)%nat then 2 else 1) * sq (Y k f).

(* the weights returned after m passes (m >= 1) *)
Definition ad_weights (m : nat) (is_default : nat -> bool) (sd : sides) (N K : nat) (rt lam : nat -> Q)
           (Y : nat -> sig) : nat -> nat -> Q :=
  let bb := ad_bb lam (ad_var sd N K lam Y) in
  fun k f =>
  let passes := if is_default f then O else (m - 1)%nat in
  ad_dk rt lam bb (ad_iter passes K rt lam bb (ad_ds sd N Y f) (ad_S0 sd N lam Y f)) k.

(* the adaptive estimate multi_taper_psd returns *)
Definition mt_psd_adaptive (m : nat) (is_default : nat -> bool) (sd : sides) (N K : nat) (Fs : Q)
           (rt lam : nat -> Q) (Y : nat -> sig) (f : nat) : Q :=
  mt_psd sd N K Fs (ad_weights m is_default sd N K rt lam Y) Y f.

(* ---- the branch for fewer than 3 tapers (utils.py 486-497): "not adaptively combining the spectral
   estimators": weights = sqrt(eigvals) repeated over the L bins, nu = 2 * K *)
Definition ad_weights_few (rt : nat -> Q) (k f : nat) : Q := rt k.
Definition ad_nu_few (K : nat) : nat := (2 * K)%nat.
(* adaptive_weights as a whole *)
Definition ad_weights_all (m : nat) (is_default : nat -> bool) (sd : sides) (N K : nat) (rt lam : nat -> Q)
           (Y : nat -> sig) : nat -> nat -> Q :=
  if (K <? 3)%nat then ad_weights_few rt else ad_weights m is_default sd N K rt lam Y.
Definition mt_psd_adaptive_all (m : nat) (is_default : nat -> bool) (sd : sides) (N K : nat) (Fs : Q)
           (rt lam : nat -> Q) (Y : nat -> sig) (f : nat) : Q :=
  mt_psd sd N K Fs (ad_weights_all m is_default sd N K rt lam Y) Y f.
