(* Model/TimeArray.v — executable model of nitime.timeseries.TimeArray
   (nitime/timeseries.py: time_unit_conversion 53-67, get_time_unit 86-102,
    TimeArray.__new__ 107-193, __array_finalize__ 203-218, _convert_if_needed 255-262,
    __add__ … __eq__ 264-298, min/ptp/sum 300-332, max 486-497, convert_unit 499-503).
   Definitions only; proofs are in Proofs/TimeArray.v.

   What is modelled as written:   the unit table, the three constructor paths (time object /
     integer / float: multiply, np.round (half-even), astype(int64)), int64 wrap-around
     written explicitly (wrap64), operand conversion, numpy broadcasting of 0-d / length-1 /
     equal-length operands, the left operand deciding the result unit, the reductions.
   What is taken from numpy:      int64 arithmetic is two's-complement, float64 multiplication
     is IEEE binary64 (PrimFloat.mul), round() is round-half-even. *)
From Coq Require Import ZArith List Bool PrimFloat.
From NT Require Import F2Z.
Import ListNotations.
Open Scope Z_scope.

Inductive unit := Ups | Uns | Uus | Ums | Us | Um | Uh | UD | UW.
Definition all_units := [Ups; Uns; Uus; Ums; Us; Um; Uh; UD; UW].

Definition factor (u : unit) : Z :=
  match u with
  | Ups => 1
  | Uns => 1000
  | Uus => 1000000
  | Ums => 1000000000
  | Us => 1000000000000
  | Um => 60000000000000
  | Uh => 3600000000000000
  | UD => 86400000000000000
  | UW => 604800000000000000
  end.

Definition unit_eqb (a b : unit) : bool :=
  match a, b with
  | Ups, Ups | Uns, Uns | Uus, Uus | Ums, Ums | Us, Us | Um, Um | Uh, Uh | UD, UD | UW, UW => true
  | _, _ => false
  end.

(* index of the unit in the order of all_units; used by generated tables *)
Definition unit_of_nat (n : nat) : unit := nth n all_units Us.

(* a time array: payload in picoseconds, display unit, 0-d flag *)
Record tarr := mk_tarr { payload : list Z; tunit : unit; scalar : bool }.

Inductive err := ValueError | TypeError | NotImplementedErr | AttributeErr | OtherError.
Inductive res (A : Type) := Ok (a : A) | Err (e : err).
Arguments Ok {A} a.
Arguments Err {A} e.

(* the time_unit argument: absent, a valid unit, or an invalid string *)
Inductive uarg := UArgNone | UArg (u : unit) | UArgBad.

(* constructor data *)
Inductive data :=
| DInts (sc : bool) (l : list Z)          (* python int / list / int32 / int64 array *)
| DFloats (sc : bool) (l : list float)    (* python float / list / float64 array *)
| DTime (t : tarr)                        (* a time object *)
| DTimeList (t : tarr) (l : list tarr).   (* non-empty list of scalar time objects *)

Fixpoint opt_all {A} (l : list (option A)) : option (list A) :=
  match l with
  | [] => Some []
  | Some a :: l' => match opt_all l' with Some r => Some (a :: r) | None => None end
  | None :: _ => None
  end.

(* (x * conv_fac).round().astype(int64) on one float64 *)
Definition ctor_float1 (cf : Z) (x : float) : option Z :=
  rne_f (PrimFloat.mul x (z2f cf)).

Definition head_ps (t : tarr) : Z := hd 0 (payload t).

Definition ctor (ua : uarg) (d : data) : res tarr :=
  match ua with
  | UArgBad => Err ValueError
  | _ =>
    let cf := match ua with UArg u => factor u | _ => factor Us end in
    let du := match d with
              | DTime t => Some (tunit t)
              | DTimeList t _ => Some (tunit t)
              | _ => None end in
    let u := match ua, du with
             | UArg u, _ => u
             | _, Some u => u
             | _, None => Us end in
    match d with
    | DInts sc l => Ok (mk_tarr (map (fun n => wrap64 (n * cf)) l) u sc)
    | DFloats sc l =>
        match opt_all (map (ctor_float1 cf) l) with
        | Some p => Ok (mk_tarr p u sc)
        | None => Err OtherError
        end
    | DTime t => Ok (mk_tarr (payload t) u (scalar t))
    | DTimeList t l => Ok (mk_tarr (map head_ps (t :: l)) u false)
    end
  end.

Definition convert_unit (t : tarr) (u : unit) : tarr := mk_tarr (payload t) u (scalar t).

(* operands of the binary operators *)
Inductive operand :=
| OTime (t : tarr)
| OInts (sc : bool) (l : list Z)
| OFloats (sc : bool) (l : list float).

(* _convert_if_needed: a bare number is read in the unit of the time operand *)
Definition conv_operand (self : tarr) (o : operand) : option (list Z * bool) :=
  let cf := factor (tunit self) in
  match o with
  | OTime t => Some (payload t, scalar t)
  | OInts sc l => Some (map (fun n => wrap64 (n * cf)) l, sc)
  | OFloats sc l =>
      match opt_all (map (ctor_float1 cf) l) with
      | Some p => Some (p, sc)
      | None => None
      end
  end.

(* numpy broadcasting of two operands that are 0-d or 1-d *)
Definition bcast {A} (f : Z -> Z -> A) (a : list Z) (sa : bool) (b : list Z) (sb : bool)
  : option (list A * bool) :=
  match a, b with
  | [x], _ => Some (map (f x) b, sa && sb)
  | _, [y] => Some (map (fun x => f x y) a, false)
  | _, _ => if Nat.eqb (length a) (length b)
            then Some (map (fun p => f (fst p) (snd p)) (combine a b), false)
            else None
  end.

Inductive arith := Add | Sub | RAdd | RSub.
Inductive cmp := Lt | Le | Gt | Ge | Eq.

Definition arith_fn (op : arith) (x y : Z) : Z :=
  match op with
  | Add | RAdd => wrap64 (x + y)
  | Sub => wrap64 (x - y)
  | RSub => wrap64 (y - x)
  end.

Definition cmp_fn (op : cmp) (x y : Z) : bool :=
  match op with
  | Lt => x <? y | Le => x <=? y | Gt => x >? y | Ge => x >=? y | Eq => x =? y
  end.

Definition binop_arith (op : arith) (self : tarr) (o : operand) : res tarr :=
  match conv_operand self o with
  | None => Err OtherError
  | Some (b, sb) =>
      match bcast (arith_fn op) (payload self) (scalar self) b sb with
      | Some (p, sc) => Ok (mk_tarr p (tunit self) sc)
      | None => Err ValueError
      end
  end.

Definition binop_cmp (op : cmp) (self : tarr) (o : operand) : res (list bool * bool) :=
  match conv_operand self o with
  | None => Err OtherError
  | Some (b, sb) =>
      match bcast (cmp_fn op) (payload self) (scalar self) b sb with
      | Some r => Ok r
      | None => Err ValueError
      end
  end.

(* reductions *)
Definition zmin_list (x : Z) (l : list Z) : Z := fold_left Z.min l x.
Definition zmax_list (x : Z) (l : list Z) : Z := fold_left Z.max l x.
Definition zsum_wrap (l : list Z) : Z := fold_left (fun a b => wrap64 (a + b)) l 0.

Inductive red := RMin | RMax | RSum | RPtp.

Definition reduce (r : red) (t : tarr) : res tarr :=
  match payload t with
  | [] => match r with
          | RSum => Ok (mk_tarr [0] (tunit t) true)
          | _ => Err ValueError
          end
  | x :: l =>
      let v := match r with
               | RMin => zmin_list x l
               | RMax => zmax_list x l
               | RSum => zsum_wrap (x :: l)
               | RPtp => wrap64 (zmax_list x l - zmin_list x l)
               end in
      Ok (mk_tarr [v] (tunit t) true)
  end.

(* A numpy integer scalar (np.int64 / np.int32) on the LEFT of + or -: numpy's scalar
   arithmetic runs the ufunc itself and TimeArray.__radd__/__rsub__ are never called, so
   the number is added as picoseconds instead of being read in the time object's unit.
   Modelled as the code behaves (known finding C01/reflected/numpy-scalar-left). *)
Definition reflected_npscalar (op : arith) (self : tarr) (v : Z) : res tarr :=
  Ok (mk_tarr (map (fun x => arith_fn op x v) (payload self)) (tunit self) (scalar self)).
