(* Model/LWR.v — executable model of nitime's multichannel autoregressive estimation.
   Definitions only; all proofs are in Proofs/LWRP.v.

   What stands for what (line numbers of /repo at the time of writing):

   * `lwr_delta`, `lwr_step`, `lwr_run`, `lwr_recursion`
       nitime/algorithms/autoregressive.py:168-249  `lwr_recursion(r)`, written over an abstract
       ring (record `rops`: 0 1 + * - transposition inverse).  Matrices are one instance
       (`mat_ops nc`, below), rationals another (`q_ops`).  The coefficient arrays `a`, `b`
       (pre-allocated with zeros in the code and filled up to index p-1 at stage p) are the lists
       of their first p entries; `delta` is accumulated in the code's order
       (r[p+1] + a[0] r[p] + a[1] r[p-1] + ...); `ka`, `kb`, the two update loops (the b-loop
       reads the *old* a, `ao = a.copy()`), `a[p] = -ka`, `b[p] = -kb`, and the two error
       covariance updates `(I - ka kb) sigf`, `(I - kb ka) sigb` are as written.
       `linalg.inv` is the ring's `rinv` (a library kernel; for matrices over Q: Gauss-Jordan,
       `mat_ops n`; `mat_ops_with n iv` is the same ring with any other inverse kernel `iv`, e.g.
       the 2 x 2 adjugate formula `minv2`).  `mperm n s` relabels the channels of a matrix.
   * `crosscov_entry`, `crosscov_vector`, `autocov_vector`, `lags_of`, and `crosscov_vector_kw` /
     `autocov_vector_kw` = the same with the public keyword `nlags=None` (default: all N lags)
       nitime/utils.py:2132-2217 (real data: `.conj()` is the identity); `lags_of` is the
       `.transpose(2, 0, 1)` every caller applies (layout [i][j][k] -> [k][i][j]).
   * `MAR_est_LWR`          autoregressive.py:252-274 (after the fix: nlags = order + 1;
     `MAR_est_LWR_in` is the same call with the recursion run over another ring instance);
     `MAR_est_LWR_snapshot`  the same function as it was in the snapshot (nlags = order).
   * `fit_model_fixed`, `fit_model_select`, `fit_model`
       nitime/analysis/granger.py:17-71.  The information criterion is a parameter `crit`
       (utils.py:2273-2376 compute it with `log` and `det`, library kernels).
   * `aic`, `bic`           utils.py:2273-2376 given the value of log(det(ecov)) and log(Ntotal).
   * `mar_row`, `generate_mar_from` utils.py:2220-2268 from the drawn noise onwards
       (`np.random.multivariate_normal` is not modelled: the noise is the returned `nz`).
   * `ld_step`, `ld`         autoregressive.py:146-165, the Levinson-Durbin loop of `AR_est_LD`
       for a real autocorrelation sequence (`.conj()`, `.real` are the identity) — the "scalar
       estimator" the one-channel case is compared with.
*)
From Coq Require Import List Arith QArith Bool Lia.
From NT Require Import Sums.
Import ListNotations.

(* ------------------------------------------------------------------ ring operations *)
Record rops (R : Type) := mk_rops {
  r0 : R; r1 : R;
  radd : R -> R -> R; rmul : R -> R -> R; ropp : R -> R;
  rtr : R -> R;       (* transposition (an involution reversing products) *)
  rinv : R -> R       (* partial inverse: only used where the theorems assume it inverts *)
}.
Arguments r0 {R}. Arguments r1 {R}. Arguments radd {R}. Arguments rmul {R}.
Arguments ropp {R}. Arguments rtr {R}. Arguments rinv {R}.

Definition rsub {R} (O : rops R) (a b : R) : R := radd O a (ropp O b).

(* ------------------------------------------------------------------ lwr_recursion *)
Section LWR.
  Context {R : Type} (O : rops R).
  Local Notation "0" := (r0 O).
  Local Notation "1" := (r1 O).
  Local Infix "+" := (radd O).
  Local Infix "*" := (rmul O).
  Local Infix "-" := (rsub O).

  (* state: a (p entries), b (p entries), sigf, sigb *)
  Definition lwr_state := (list R * list R * R * R)%type.

  (* delta[:] = r[p+1]; for i in range(1, p+1): delta += dot(a[i-1], r[p+1-i]) *)
  Definition lwr_delta (r a : list R) (p : nat) : R :=
    fold_left (fun d i => d + nth (i - 1) a 0 * nth (p + 1 - i) r 0) (seq 1 p) (nth (p + 1) r 0).

  Definition lwr_step (r : list R) (st : lwr_state) (p : nat) : lwr_state :=
    let '(a, b, sigf, sigb) := st in
    let delta := lwr_delta r a p in
    let ka := delta * rinv O sigb in
    let kb := rtr O delta * rinv O sigf in
    (* for i in 1..p: a[i-1] -= dot(ka, b[p-i]) ; b[i-1] -= dot(kb, ao[p-i]) *)
    let a' := map (fun i => nth (i - 1) a 0 - ka * nth (p - i) b 0) (seq 1 p) ++ [ropp O ka] in
    let b' := map (fun i => nth (i - 1) b 0 - kb * nth (p - i) a 0) (seq 1 p) ++ [ropp O kb] in
    (a', b', (1 - ka * kb) * sigf, (1 - kb * ka) * sigb).

  Definition lwr_init (r : list R) : lwr_state := ([], [], nth 0 r 0, nth 0 r 0).

  (* the state after n passes of `for p in range(P)` *)
  Definition lwr_run (r : list R) (n : nat) : lwr_state :=
    fold_left (lwr_step r) (seq 0 n) (lwr_init r).

  (* P = r.shape[0] - 1 ; return a, sigf *)
  Definition lwr_recursion (r : list R) : list R * R :=
    let '(a, _, sigf, _) := lwr_run r (length r - 1) in (a, sigf).
End LWR.

(* ------------------------------------------------------------------ matrices over Q *)
Definition mat := list (list Q).
Definition mget (M : mat) (i j : nat) : Q := nth j (nth i M []) 0%Q.
Definition mtab (n : nat) (f : nat -> nat -> Q) : mat :=
  map (fun i => map (fun j => f i j) (seq 0 n)) (seq 0 n).

(* reduced accumulation (same value as Sums.sumn) *)
Fixpoint sumr (f : nat -> Q) (n : nat) : Q :=
  match n with O => 0%Q | S n' => Qred (sumr f n' + f n') end.

Definition mzero (n : nat) : mat := mtab n (fun _ _ => 0%Q).
Definition mid (n : nat) : mat := mtab n (fun i j => if Nat.eqb i j then 1%Q else 0%Q).
Definition madd (n : nat) (A B : mat) : mat := mtab n (fun i j => Qred (mget A i j + mget B i j)).
Definition mopp (n : nat) (A : mat) : mat := mtab n (fun i j => Qopp (mget A i j)).
Definition mmul (n : nat) (A B : mat) : mat :=
  mtab n (fun i j => sumr (fun k => mget A i k * mget B k j) n).
Definition mtr (n : nat) (A : mat) : mat := mtab n (fun i j => mget A j i).

(* Gauss-Jordan on the augmented rows [A | I]; the first row with a non-zero entry is the pivot *)
Definition qnz (q : Q) : bool := negb (Qeq_bool q 0).
Fixpoint zipw {A B C} (f : A -> B -> C) (l1 : list A) (l2 : list B) : list C :=
  match l1, l2 with a :: t1, b :: t2 => f a b :: zipw f t1 t2 | _, _ => [] end.
Definition row_scale (s : Q) (r : list Q) : list Q := map (fun x => Qred (s * x)) r.
Definition row_elim (c : nat) (p r : list Q) : list Q :=
  let s := nth c r 0%Q in
  if qnz s then zipw (fun x y => Qred (x - s * y)) r p else r.
Fixpoint split_pivot (c : nat) (todo : list (list Q)) : option (list Q * list (list Q)) :=
  match todo with
  | [] => None
  | r :: t => if qnz (nth c r 0%Q) then Some (r, t)
              else match split_pivot c t with
                   | Some (p, t') => Some (p, r :: t')
                   | None => None
                   end
  end.
Fixpoint gauss_jordan (cols : list nat) (done todo : list (list Q)) : option (list (list Q)) :=
  match cols with
  | [] => Some done
  | c :: cs =>
      match split_pivot c todo with
      | None => None
      | Some (p, t) =>
          let p' := row_scale (/ nth c p 0%Q) p in
          gauss_jordan cs (map (row_elim c p') done ++ [p']) (map (row_elim c p') t)
      end
  end.
Definition minv (n : nat) (A : mat) : mat :=
  let aug := map (fun i => map (fun j => mget A i j) (seq 0 n) ++
                           map (fun j => if Nat.eqb i j then 1%Q else 0%Q) (seq 0 n)) (seq 0 n) in
  match gauss_jordan (seq 0 n) [] aug with
  | Some rows => map (skipn n) rows
  | None => mzero n           (* singular: numpy raises LinAlgError; never met in the theorems' scope *)
  end.

(* the matrix ring with any inverse kernel `iv`; `mat_ops` uses Gauss-Jordan *)
Definition mat_ops_with (n : nat) (iv : mat -> mat) : rops mat :=
  mk_rops mat (mzero n) (mid n) (madd n) (mmul n) (mopp n) (mtr n) iv.
Definition mat_ops (n : nat) : rops mat := mat_ops_with n (minv n).

(* relabelling the channels by s: entry (i, j) of the result is entry (s i, s j)
   (= conjugation by the permutation matrix of s) *)
Definition mperm (n : nat) (s : nat -> nat) (A : mat) : mat := mtab n (fun i j => mget A (s i) (s j)).

(* 2 x 2 inverse by the adjugate formula (used for a fully worked instance of the equivariance
   theorem's hypotheses) *)
Definition minv2 (A : mat) : mat :=
  let det := (mget A 0 0 * mget A 1 1 - mget A 0 1 * mget A 1 0)%Q in
  mtab 2 (fun i j =>
    if Nat.eqb i 0 then (if Nat.eqb j 0 then mget A 1 1 / det else - mget A 0 1 / det)
    else (if Nat.eqb j 0 then - mget A 1 0 / det else mget A 0 0 / det))%Q.

(* equality of the n x n windows *)
Definition meq (n : nat) (A B : mat) : Prop :=
  forall i j, (i < n)%nat -> (j < n)%nat -> mget A i j == mget B i j.

(* rationals: one channel *)
(* (sums and products are kept in lowest terms: same values, cheaper evaluation) *)
Definition q_ops : rops Q :=
  mk_rops Q 0%Q 1%Q (fun a b => Qred (a + b)) (fun a b => Qred (a * b)) Qopp (fun x => x) Qinv.

(* ------------------------------------------------------------------ crosscov_vector *)
(* prod = x[i, k:] * y[j, :N-k] ; rxy[i,j,k] = prod.mean() *)
Definition crosscov_entry (N k : nat) (xi yj : list Q) : Q :=
  let prod := zipw Qmult (skipn k xi) (firstn (N - k) yj) in
  Qred (fold_left (fun acc v => Qred (acc + v)) prod 0%Q / inject_Z (Z.of_nat (length prod))).

(* rxy has layout [i][j][k] (nc, nc, nlags); N = x.shape[1] *)
Definition crosscov_vector (x y : list (list Q)) (nlags : nat) : list (list (list Q)) :=
  let N := length (nth 0 x []) in
  map (fun xi => map (fun yj => map (fun k => crosscov_entry N k xi yj) (seq 0 nlags)) y) x.
Definition autocov_vector (x : list (list Q)) (nlags : nat) := crosscov_vector x x nlags.

(* the public keyword `nlags=None` (the default): `if nlags is None: nlags = N` — all N lags *)
Definition nlags_kw (x : list (list Q)) (nlags : option nat) : nat :=
  match nlags with Some n => n | None => length (nth 0 x []) end.
Definition crosscov_vector_kw (x y : list (list Q)) (nlags : option nat) : list (list (list Q)) :=
  crosscov_vector x y (nlags_kw x nlags).
Definition autocov_vector_kw (x : list (list Q)) (nlags : option nat) := crosscov_vector_kw x x nlags.

(* Rxx.transpose(2, 0, 1): the list of lag matrices R(0), R(1), ... *)
Definition lags_of (nc nlags : nat) (rxy : list (list (list Q))) : list mat :=
  map (fun k => mtab nc (fun i j => nth k (nth j (nth i rxy []) []) 0%Q)) (seq 0 nlags).

Definition rxx_of (x : list (list Q)) (nlags : nat) : list mat :=
  lags_of (length x) nlags (autocov_vector x nlags).

(* ------------------------------------------------------------------ MAR_est_LWR *)
(* generic in the ring the recursion runs over (`conv` embeds the lag matrices into it) *)
Definition MAR_est_LWR_in {R} (O : rops R) (conv : mat -> R) (x : list (list Q)) (order : nat) : list R * R :=
  lwr_recursion O (map conv (rxx_of x (order + 1))).
Definition MAR_est_LWR (x : list (list Q)) (order : nat) : list mat * mat :=
  MAR_est_LWR_in (mat_ops (length x)) (fun m => m) x order.
(* as it was in the snapshot: `nlags=order` *)
Definition MAR_est_LWR_snapshot (x : list (list Q)) (order : nat) : list mat * mat :=
  lwr_recursion (mat_ops (length x)) (rxx_of x order).

(* ------------------------------------------------------------------ fit_model *)
Inductive fm_result (R : Type) :=
| FMOk (order : nat) (Rxx : list R) (coef : list R) (ecov : R)
| FMValueError.
Arguments FMOk {R}. Arguments FMValueError {R}.

Definition Qlt_bool (a b : Q) : bool := negb (Qle_bool b a).

Section FitModel.
  Context {R : Type} (O : rops R).
  Variable rxx : nat -> list R.        (* nlags |-> autocov_vector(vstack([x1,x2]), nlags).transpose(2,0,1) *)
  Variable crit : R -> nat -> Q.       (* criterion(ecov, n_process, order, Ntotal), finite values *)

  (* order given: lag = order + 1 *)
  Definition fit_model_fixed (order : nat) : fm_result R :=
    let Rxx := rxx (order + 1)%nat in
    let '(coef, ecov) := lwr_recursion O Rxx in
    FMOk order Rxx coef ecov.

  (* for lag in range(1, max_order): ... ; `cur` = (c_old, order, Rxx, coef, ecov), None while
     c_old = inf (nothing is greater than inf, so the first pass never breaks) *)
  Fixpoint fit_model_loop (lags : list nat) (cur : option (Q * (nat * list R * list R * R)))
    : fm_result R :=
    match lags with
    | [] => FMValueError                       (* the for-else: "did not converge" *)
    | lag :: rest =>
        let Rxx_new := rxx lag in
        let '(coef_new, ecov_new) := lwr_recursion O Rxx_new in
        let order_new := length coef_new in
        let c_new := crit ecov_new order_new in
        match cur with
        | Some (c_old, (o, Rx, cf, ec)) =>
            if Qlt_bool c_old c_new then FMOk o Rx cf ec      (* break: keep the last round *)
            else fit_model_loop rest (Some (c_new, (order_new, Rxx_new, coef_new, ecov_new)))
        | None => fit_model_loop rest (Some (c_new, (order_new, Rxx_new, coef_new, ecov_new)))
        end
    end.
  Definition fit_model_select (max_order : nat) : fm_result R :=
    fit_model_loop (seq 1 (max_order - 1)) None.

  Definition fit_model (order : option nat) (max_order : nat) : fm_result R :=
    match order with Some o => fit_model_fixed o | None => fit_model_select max_order end.
End FitModel.

(* information criteria, given L = log(det(ecov)) and lN = log(Ntotal) *)
Definition aic (L : Q) (p m Ntotal : Z) (corrected : bool) : Q :=
  let base := 2 * L + inject_Z (2 * (p * p) * m) / inject_Z Ntotal in
  if corrected then base + inject_Z (2 * m * (m + 1)) / inject_Z (Ntotal - m - 1) else base.
Definition bic (L lN : Q) (p m Ntotal : Z) : Q :=
  2 * L + (inject_Z (2 * (p * p) * m) * lN) / inject_Z Ntotal.

(* ------------------------------------------------------------------ generate_mar *)
Section GenMar.
  Context {M V : Type}.
  Variable vsub : V -> V -> V.
  Variable act : M -> V -> V.          (* np.dot(a[j], v) *)
  Variable m0 : M. Variable v0 : V.

  (* mar[i] = nz[i]; for j in range(min(i, n_order)): mar[i] -= dot(a[j], mar[i-j-1]) ;
     `prev` = mar[0..i-1], already final *)
  Definition mar_row (a : list M) (prev : list V) (e : V) : V :=
    let i := length prev in
    fold_left (fun acc j => vsub acc (act (nth j a m0) (nth (i - j - 1) prev v0)))
              (seq 0 (Nat.min i (length a))) e.

  Definition generate_mar_from (a : list M) (nz : list V) : list V :=
    fold_left (fun mar e => mar ++ [mar_row a mar e]) nz [].
End GenMar.

(* vectors over Q of length n, matrix-vector product *)
Definition vsubq (n : nat) (v w : list Q) : list Q :=
  map (fun i => Qred (nth i v 0%Q - nth i w 0%Q)) (seq 0 n).
Definition mvmul (n : nat) (A : mat) (v : list Q) : list Q :=
  map (fun i => sumr (fun k => mget A i k * nth k v 0%Q) n) (seq 0 n).

(* ------------------------------------------------------------------ scalar Levinson-Durbin *)
(* state: w[1..p-1], b, w_k ; one pass of `while p <= order` *)
Definition ld_step (r : list Q) (st : list Q * Q * Q) (p : nat) : list Q * Q * Q :=
  let '(w, b, wk) := st in
  let b' := Qred (b * (1 - wk * wk))%Q in
  let s := fold_left Qplus (map (fun i => nth (i - 1) w 0 * nth (p - i) r 0)%Q (seq 1 (p - 1))) 0%Q in
  let wk' := Qred ((nth p r 0 - s) / b')%Q in
  let w' := map (fun i => Qred (nth (i - 1) w 0 - wk' * nth (p - 1 - i) w 0))%Q (seq 1 (p - 1)) ++ [wk'] in
  (w', b', wk').
Definition ld_run (r : list Q) (n : nat) : list Q * Q * Q :=
  let wk := Qred (nth 1 r 0 / nth 0 r 0)%Q in
  fold_left (ld_step r) (seq 2 n) ([wk], nth 0 r 0%Q, wk).
(* returns w[1:], b  (order >= 1) *)
Definition ld (r : list Q) (order : nat) : list Q * Q :=
  let '(w, b, wk) := ld_run r (order - 1) in (w, Qred (b * (1 - wk * wk))%Q).
