(* Model/Uniform.v — executable model of the construction of uniform time axes in
   nitime.timeseries (after commits ac47f31, a2201c3, 49ddd0e, 5c2f8bb, f768865, 5e20692, 4795614, 8134179, 5ab22b3):
     UniformTime.__new__ 527-712 (argument-pattern validity 559-605, attributes taken from a
       given axis 607-626, unit resolution 628-645, interval/rate derivation 647-671, duration
       673-675, casts through the TimeArray constructor 677-683, sample count and samples 693-702,
       attributes 704-710),
     Frequency.__new__ and Frequency.to_period,
     TimeSeries.time and TimeSeries.__init__.
   Definitions only; proofs are in Proofs/UniformP.v.

   Modelled as written, bit-exactly, with the kernel's primitive binary64 floats: every float step
   of the constructors (float(duration)/length, 1.0/interval, the Frequency scale factor
   float(10^12)/factor, f*scale, to_period = np.int64(np.round((1/f)*scale)), to_period()/float(c_f),
   length*interval), the casts `TimeArray(x, unit)` (integers exactly, floats multiply / round
   half even — re-used from Model/TimeArray.v), and the integer sample count
   max(0, -(-duration // interval)) with samples t0 + interval * arange(n).
   Taken from numpy/Python: IEEE binary64 arithmetic (PrimFloat), int -> float conversion is
   round-to-nearest-even, Python floor division.
   Out of scope (result TScope, the correspondence accepts anything there): any intermediate time
   value with |ps| >= 2^62 (the property's quantifier stops there; numpy's float -> int64 cast is
   undefined beyond), more than 10^7 samples. *)
From Coq Require Import ZArith List Bool PrimFloat.
From NT Require Import F2Z TimeArray.
Import ListNotations.
Open Scope Z_scope.

Inductive tres (A : Type) := TOk (a : A) | TErr (e : err) | TScope.
Arguments TOk {A} a.
Arguments TErr {A} e.
Arguments TScope {A}.
Definition tbind {A B} (x : tres A) (f : A -> tres B) : tres B :=
  match x with TOk a => f a | TErr e => TErr e | TScope => TScope end.
Notation "'do' x <- a ; b" := (tbind a (fun x => b)) (at level 200, x name, a at level 100, b at level 200).

(* Python values that flow through the constructors *)
Inductive pv :=
| VInt (z : Z)                 (* Python int / np.int64 *)
| VFlt (f : float)             (* Python float / np.float64 *)
| VTime (ps : Z) (u : unit)    (* 0-d TimeArray *)
| VFreq (f : float).           (* Frequency (a float subclass, already in Hz) *)

Record axis := mk_axis {
  ax_n : Z;                    (* number of samples *)
  ax_t0 : Z; ax_dt : Z; ax_dur : Z;    (* t0, sampling_interval, duration attributes, ps *)
  ax_rate : float;             (* sampling_rate attribute, Hz *)
  ax_unit : unit
}.
(* sample i of the axis: np.arange fills start + i*step in int64 *)
Definition ax_sample (a : axis) (i : Z) : Z := wrap64 (ax_t0 a + i * ax_dt a).

Definition one_f : float := 1%float.
Definition e12_f : float := z2f 1000000000000.
Definition fzero (f : float) : bool := PrimFloat.eqb f 0%float.

(* float(x) *)
Definition to_float (v : pv) : float :=
  match v with VInt z => z2f z | VFlt f => f | VTime ps _ => z2f ps | VFreq f => f end.

(* 1.0 / x  (Python: ZeroDivisionError on zero) *)
Definition recip_f (f : float) : tres float :=
  if fzero f then TErr OtherError else TOk (PrimFloat.div one_f f).
Definition recip (v : pv) : tres float := recip_f (to_float v).

(* Frequency(f, time_unit) *)
Definition freq_scale (u : unit) : float := PrimFloat.div e12_f (z2f (factor u)).
Definition freq_new (v : pv) (u : unit) : float :=
  match v with
  | VFreq f => f
  | _ => PrimFloat.mul (to_float v) (freq_scale u)
  end.

Definition scope62 (z : Z) : tres Z := if in62 z then TOk z else TScope.

(* Frequency.to_period(): np.int64(np.round((1 / self) * scale_factor)), base unit *)
Definition to_period (f : float) : tres Z :=
  do r <- recip_f f;
  match rne_f (PrimFloat.mul r (freq_scale Ups)) with
  | Some p => scope62 p
  | None => TScope
  end.

(* TimeArray(x, time_unit=u) for a scalar x : picoseconds *)
Definition to_ps (u : unit) (v : pv) : tres Z :=
  match v with
  | VInt z => scope62 (z * factor u)
  | VFlt f | VFreq f => match ctor_float1 (factor u) f with Some p => scope62 p | None => TScope end
  | VTime ps _ => scope62 ps
  end.

(* number of samples: max(0, -(-int(duration) // int(sampling_interval))); interval 0 -> ValueError *)
Definition cdivz (a b : Z) : Z := - ((- a) / b).
Definition arange_len (span step : Z) : tres Z :=
  if step =? 0 then TErr ValueError
  else let n := Z.max 0 (cdivz span step) in
       if n <=? 10000000 then TOk n else TScope.

Definition is_some {A} (o : option A) : bool := match o with Some _ => true | None => false end.

(* ------------------------------------------------------------------ UniformTime.__new__ *)
Record ut_args := mk_ut_args {
  u_data : option axis;
  u_length : option Z;
  u_duration : option pv;
  u_rate : option pv;
  u_si : option pv;
  u_t0 : option pv;            (* default: the given axis' t0, else 0 *)
  u_unit : uarg
}.

(* (sampling_interval, sampling_rate, length, duration) given? *)
Definition tspec := (bool * bool * bool * bool)%type.
Definition base_valid (p : tspec) : bool :=
  match p with
  | (true, false, true, false) | (true, false, false, true) | (false, true, true, false)
  | (false, true, false, true) | (false, false, true, true) => true
  | _ => false
  end.
Definition data_valid (p : tspec) : bool :=
  match p with
  | (false, false, false, false) | (true, false, false, false) | (false, true, false, false)
  | (false, false, true, false) | (false, false, false, true) => true
  | _ => false
  end.
Definition ut_tspec_ok (with_data : bool) (p : tspec) : bool := base_valid p || (with_data && data_valid p).

Definition ut_pat (a : ut_args) : tspec :=
  (is_some (u_si a), is_some (u_rate a), is_some (u_length a), is_some (u_duration a)).

Definition time_unit_of (v : option pv) : option unit :=
  match v with Some (VTime _ u) => Some u | _ => None end.

(* the common tail of both constructors: given the resolved unit, derive interval and rate.
   Returns (sampling_interval, sampling_rate as a Frequency). *)
Definition derive (u : unit) (si rate dur : option pv) (len : option Z) (keep_rate : bool)
  : tres (pv * pv) :=
  match si with
  | None =>
      match rate with
      | Some (VFreq f) =>
          do p <- to_period f;
          TOk (VFlt (PrimFloat.div (z2f p) (z2f (factor u))), VFreq f)
      | None =>
          match dur, len with
          | Some d, Some n =>
              if n =? 0 then TErr OtherError else
              let s0 := PrimFloat.div (to_float d) (z2f n) in
              (* a time object counts in the base unit: brought to the unit u *)
              let s := match d with VTime _ _ => PrimFloat.div s0 (z2f (factor u)) | _ => s0 end in
              do r <- recip_f s;
              TOk (VFlt s, VFreq (freq_new (VFlt r) u))
          | _, _ => TErr TypeError
          end
      | Some r =>
          let f := freq_new r Us in
          do p <- to_period f;
          TOk (VFlt (PrimFloat.div (z2f p) (z2f (factor u))), VFreq f)
      end
  | Some s =>
      match rate, keep_rate with
      | Some r, true => TOk (s, r)          (* a rate that is already there (inherited) is kept *)
      | _, _ =>
        match s with
        | VTime ps su =>
            do r <- recip_f (PrimFloat.div (z2f ps) (z2f (factor su)));
            TOk (s, VFreq (freq_new (VFlt r) su))
        | _ =>
            do r <- recip s;
            TOk (s, VFreq (freq_new (VFlt r) u))
        end
      end
  end.

(* the last part of UniformTime.__new__: casts to whole picoseconds, duration from the length when it
   is not given, number of samples, attributes *)
Definition lay_out (u : unit) (si rate : pv) (dur : option pv) (len : option Z) (t0v : pv) : tres axis :=
  do dt_ps <- to_ps u si;
  (* the duration, when not given, is length * the whole-picosecond interval *)
  do dur_ps <- match dur, len with
               | Some d, _ => to_ps u d
               | None, Some n => scope62 (n * dt_ps)
               | None, None => TErr TypeError
               end;
  do t0_ps <- to_ps u t0v;
  do n <- arange_len dur_ps dt_ps;
  TOk (mk_axis n t0_ps dt_ps dur_ps (freq_new rate Us) u).

Definition ut_new (a : ut_args) : tres axis :=
  let p := ut_pat a in
  if negb (ut_tspec_ok (is_some (u_data a)) p) then TErr ValueError else
  (* attributes transferred from a given axis *)
  do st <-
    match u_data a with
    | None => TOk (u_si a, u_rate a, u_duration a, u_unit a)
    | Some d =>
        let ddur := Some (VTime (ax_dur d) (ax_unit d)) in
        let drate := Some (VFreq (ax_rate d)) in
        let dsi := Some (VTime (ax_dt d) (ax_unit d)) in     (* the interval is handed over with the rate *)
        let un := match u_unit a with UArgNone => UArg (ax_unit d) | x => x end in
        match p with
        | (false, false, false, false) => TOk (dsi, drate, ddur, un)
        | (true, false, false, false) => TOk (u_si a, u_rate a, ddur, un)
        | (false, true, false, false) => TOk (u_si a, u_rate a, ddur, un)
        | (false, false, true, false) =>
            match u_length a with
            | Some n => TOk (dsi, drate, Some (VTime (n * ax_dt d) (ax_unit d)), un)
            | None => TErr OtherError
            end
        | (false, false, false, true) => TOk (dsi, drate, u_duration a, un)
        | _ => TOk (u_si a, u_rate a, u_duration a, un)
        end
    end;
  let '(si, rate, dur, un) := st in
  match un with
  | UArgBad => TErr ValueError
  | _ =>
    let u := match un with
             | UArg u => u
             | _ => match time_unit_of dur, time_unit_of si with
                    | Some u, _ => u
                    | None, Some u => u
                    | None, None => Us
                    end
             end in
    (* an interval next to a rate only arises by inheritance from a given axis: the rate is kept *)
    do sr <- derive u si rate dur (u_length a) true;
    let '(si', rate') := sr in
    let t0v := match u_t0 a, u_data a with
               | Some t, _ => t
               | None, Some d => VTime (ax_t0 d) (ax_unit d)
               | None, None => VInt 0
               end in
    lay_out u si' rate' dur (u_length a) t0v
  end.

(* ------------------------------------------------------------------ TimeSeries *)
Record ts_args := mk_ts_args {
  s_len : Z;                   (* data.shape[-1] *)
  s_t0 : option pv;
  s_si : option pv;
  s_rate : option pv;
  s_duration : option pv;
  s_time : option axis;
  s_unit : uarg                (* default 's'; None allowed *)
}.

Record series := mk_series {
  se_len : Z;
  se_dt : Z; se_t0 : Z; se_dur : Z;    (* sampling_interval, t0, duration attributes, ps *)
  se_rate : float;
  se_unit : option unit        (* time_unit attribute (None stays None) *)
}.

Definition ts_tspec_ok (p : bool * bool * bool) : bool :=
  match p with
  | (true, false, false) | (true, false, true) | (false, true, false) | (false, true, true)
  | (false, false, true) => true
  | _ => false
  end.

Definition ts_new (a : ts_args) : tres series :=
  match s_unit a with
  | UArgBad => TScope             (* KeyError or ValueError depending on the path: not modelled *)
  | _ =>
  do st <-
    match s_time a with
    | Some t =>
        let t0 := match s_t0 a with None => Some (VTime (ax_t0 t) (ax_unit t)) | x => x end in
        let inherit := negb (is_some (s_si a)) && negb (is_some (s_rate a)) in
        let si := if inherit then Some (VTime (ax_dt t) (ax_unit t)) else s_si a in
        let rate := if inherit then Some (VFreq (ax_rate t)) else s_rate a in
        let un := match s_unit a with UArgNone => UArg (ax_unit t) | x => x end in
        match s_duration a with
        | None =>
            let mismatch :=
              negb (ax_n t =? s_len a) &&
              negb (match rate with
                    | Some r => PrimFloat.eqb (to_float r)
                                  (PrimFloat.div (z2f (s_len a * factor (ax_unit t))) (z2f (ax_dur t)))
                    | None => false
                    end) in
            if mismatch then TErr ValueError
            else TOk (t0, si, rate, Some (VTime (ax_dur t) (ax_unit t)), un)
        | d => TOk (t0, si, rate, d, un)
        end
    | None =>
        if ts_tspec_ok (is_some (s_si a), is_some (s_rate a), is_some (s_duration a))
        then TOk (s_t0 a, s_si a, s_rate a, s_duration a, s_unit a)
        else TErr ValueError
    end;
  let '(t0, si, rate, dur, un) := st in
  let uo := match un with
            | UArg u => Some u
            | _ => match time_unit_of dur, time_unit_of si with
                   | Some u, _ => Some u
                   | None, Some u => Some u
                   | None, None => None
                   end
            end in
  let u := match uo with Some u => u | None => Us end in
  do sr <- derive u si rate dur (Some (s_len a)) true;
  let '(si', rate') := sr in
  let t0' := match t0 with Some t => t | None => VInt 0 end in
  do dt_ps <- to_ps u si';
  do t0_ps <- to_ps u t0';
  (* the duration, when not given, is n * the whole-picosecond interval *)
  do dur_ps <- match dur with Some d => to_ps u d | None => scope62 (s_len a * dt_ps) end;
  TOk (mk_series (s_len a) dt_ps t0_ps dur_ps (to_float rate') uo)
  end.

(* the data enter TimeSeries.__init__ only through the length of their LAST axis
   (np.asarray(data).shape[-1], self.data.shape[-1], time.shape[-1] comparisons): a call with data of
   shape sh is the call with s_len := last element of sh *)
Definition with_shape (sh : list Z) (a : ts_args) : ts_args :=
  mk_ts_args (last sh 0) (s_t0 a) (s_si a) (s_rate a) (s_duration a) (s_time a) (s_unit a).

(* TimeSeries.time: UniformTime(length=len, t0=self.t0, sampling_interval=self.sampling_interval,
                                time_unit=self.time_unit) *)
Definition series_unit (s : series) : unit := match se_unit s with Some u => u | None => Us end.
Definition ts_time (s : series) : tres axis :=
  let u := series_unit s in
  ut_new (mk_ut_args None (Some (se_len s)) None None (Some (VTime (se_dt s) u)) (Some (VTime (se_t0 s) u))
                     (match se_unit s with Some u => UArg u | None => UArgNone end)).

