(* Model/Corr.v — model of nitime's correlation / covariance / normalisation code (property C20).

   Conventions.  A 1-d signal is a function [nat -> C] (C = Q[i], Base/QC.v) with its length
   carried separately; real data has imaginary part 0.  An n-d array is its row-major flat list
   together with (outer, N, inner): outer = product of the dimensions before the chosen axis,
   N = the length of the axis, inner = product of those after it; `lane` picks one 1-d signal
   along the axis and `along` lays results out again in row-major order.

   Source lines modelled:
     nitime/utils.py
       remove_bias        980-985   -> cmean, remove_bias
       crosscov           988-1052  -> crosscov_fn  (debias, y[::-1].conj(), fftconvolve 'full',
                                                      /= N, all_lags / slice(N-1, 2N-1))
       crosscorr         1055-1092  -> crosscorr_fn (debias forced off)
       autocov           1095-1132  -> autocov_fn   (bias removed once, then crosscov(x, x))
       autocorr          1135-1161  -> autocorr_fn
       fftconvolve       1164-1201  -> fftconvolve_full (axis given, mode 'full'): size = s1+s2-1,
                                       fsize = 2 ** ceil(log2 size), complex_result, the slice
                                       [0:size], `.real` for real input
       zscore            2018-2040  -> zscore_fn    (mean, std, (x - mean) / std)
       percent_change    2043-2082  -> pct_fn       ((x / mean - 1) * 100)
     nitime/algorithms/correlation.py
       seed_corrcoef        6-16    -> seed_xy, seed_xx, seed_yy (r = xy / sqrt (xx * yy))
     nitime/analysis/correlation.py
       CorrelationAnalyzer.xcorr      51-82  -> xcorr_fill     (upper triangle from np.correlate,
                                                 lower triangle filled from the upper one)
       CorrelationAnalyzer.xcorr_norm 84-117 -> xcorr_norm_fill (division by the entry at
                                                 xcorr_norm_idx, times corrcoef[i,j])
     nitime/algorithms/cohere.py
       correlation_spectrum 828-878 -> corrspec_num, corrspec_norm (the spectra of the demeaned
                                       inputs are data)

   Library oracles (not modelled): fftpack.fft / ifft — the model contains the *contract* of
   ifft(fft(a, F) * fft(b, F)), the circular convolution of the zero-padded inputs (`circ_conv`,
   the convolution theorem); in the theorems the kernel is a Section variable with that contract
   as hypothesis.  np.log2 / np.ceil on an integer size (`clog2` is the exact ceiling of log2).
   np.sqrt, np.std (the root is data; the relation root^2 = argument is checked / assumed).
   np.correlate and np.corrcoef in the analyzer (their values are data).
   Executable sums reduce fractions as they go (`csumr`); Proofs/CorrP.v shows csumr = csumn. *)
From Coq Require Import QArith List Arith Bool ZArith.
From NT Require Import QC Sums.
Import ListNotations.
Open Scope Q_scope.

Definition sig := nat -> C.
Definition inj (n : nat) : Q := inject_Z (Z.of_nat n).
Definition cred (z : C) : C := (Qred (re z), Qred (im z)).
(* sum_{k<n} f k with reduction at each step, skipping exact zeros (execution) *)
Definition czerob (z : C) : bool :=
  match Qnum (re z), Qnum (im z) with Z0, Z0 => true | _, _ => false end.
Fixpoint csumr (f : nat -> C) (n : nat) : C :=
  match n with
  | O => c0
  | S n' => let s := csumr f n' in let t := f n' in if czerob t then s else cred (cadd s t)
  end.

(* ------------------------------------------------------------------ remove_bias *)
Definition cmean (x : sig) (N : nat) : C := cscale (1 / inj N) (csumr x N).
Definition remove_bias (x : sig) (N : nat) : sig := let m := cmean x N in fun t => csub (x t) m.

(* ------------------------------------------------------------------ fftconvolve *)
(* int(np.ceil(np.log2(size))): the least e with size <= 2^e *)
Fixpoint clog2_aux (fuel e size : nat) : nat :=
  match fuel with
  | O => e
  | S f => if (size <=? 2 ^ e)%nat then e else clog2_aux f (S e) size
  end.
Definition clog2 (size : nat) : nat := clog2_aux size 0 size.
Definition fsize (size : nat) : nat := (2 ^ clog2 size)%nat.

(* fft(in, F): zero padding of a length-N signal *)
Definition pad (x : sig) (N : nat) : sig := fun t => if (t <? N)%nat then x t else c0.

(* contract of ifft(fft(a,F) * fft(b,F))[k], k < F: circular convolution *)
Definition circ_conv (F : nat) (a b : sig) (k : nat) : C :=
  csumr (fun m => cmul (a m) (b ((k + F - m) mod F)%nat)) F.

(* fftconvolve(in1, in2, axis, mode='full') on one lane; both inputs have length N along the
   axis; kern F a b k stands for ifft(fft(a,F) * fft(b,F))[k]; the result has length 2N-1 *)
Definition fftconvolve_full (kern : nat -> sig -> sig -> sig) (a b : sig) (N : nat) (cplx : bool) : sig :=
  let size := (N + N - 1)%nat in
  let F := fsize size in
  fun k => let r := kern F (pad a N) (pad b N) k in
           if cplx then r else ofQ (re r).

(* y[::-1].conj() *)
Definition revconj (y : sig) (N : nat) : sig := fun t => cconj (y (N - 1 - t)%nat).

Definition out_len (N : nat) (all_lags : bool) : nat := if all_lags then (N + N - 1)%nat else N.

Definition crosscov_fn (kern : nat -> sig -> sig -> sig) (x y : sig) (N : nat)
           (all_lags debias normalize cplx : bool) : sig :=
  let x' := if debias then remove_bias x N else x in
  let y' := if debias then remove_bias y N else y in
  let cxy := fftconvolve_full kern x' (revconj y' N) N cplx in
  let cxy' := if normalize then (fun k => cscale (1 / inj N) (cxy k)) else cxy in
  if all_lags then cxy' else fun k => cxy' (N - 1 + k)%nat.

Definition crosscorr_fn kern (x y : sig) N (all_lags normalize cplx : bool) : sig :=
  crosscov_fn kern x y N all_lags false normalize cplx.

Definition autocov_fn kern (x : sig) N (all_lags debias normalize cplx : bool) : sig :=
  let x' := if debias then remove_bias x N else x in
  crosscov_fn kern x' x' N all_lags false normalize cplx.

Definition autocorr_fn kern (x : sig) N (all_lags normalize cplx : bool) : sig :=
  autocov_fn kern x N all_lags false normalize cplx.

(* ------------------------------------------------------------------ the definition *)
(* direct lagged sum in the all-lags layout: index k stands for lag k - (N-1);
   lagsum x y N k = sum over t of x[t + lag] * conj(y[t]), both indices inside 0..N-1 *)
Definition lagsum (x y : sig) (N k : nat) : C :=
  csumn (fun t => if ((N - 1 <=? t + k) && (t + k <? N + N - 1))%nat
                  then cmul (x (t + k - (N - 1))%nat) (cconj (y t)) else c0) N.

(* ------------------------------------------------------------------ seed_corrcoef (real) *)
(* sum_{k<n} f k over Q with reduction at each step (execution) *)
Fixpoint sumr (f : nat -> Q) (n : nat) : Q :=
  match n with O => 0 | S n' => Qred (sumr f n' + f n') end.
Definition rmean (x : nat -> Q) (N : nat) : Q := sumr x N / inj N.
Definition demean (x : nat -> Q) (N : nat) : nat -> Q := let m := rmean x N in fun t => x t - m.
Definition dot (x y : nat -> Q) (N : nat) : Q := sumr (fun t => x t * y t) N.
Definition seed_xy (seed target : nat -> Q) N := dot (demean target N) (demean seed N) N.
Definition seed_xx (target : nat -> Q) N := dot (demean target N) (demean target N) N.
Definition seed_yy (seed : nat -> Q) N := dot (demean seed N) (demean seed N) N.

(* ------------------------------------------------------------------ zscore / percent_change *)
(* population variance mean(|x - mean|^2); np.std returns its root, which is an argument here *)
Definition cvar (x : sig) (N : nat) : Q :=
  let r := remove_bias x N in re (csumr (fun t => ofQ (cnorm2 (r t))) N) / inj N.
Definition zscore_fn (x : sig) (N : nat) (s : Q) : sig :=
  let r := remove_bias x N in fun t => cscale (1 / s) (r t).
Definition pct_fn (x : sig) (N : nat) : sig :=
  let m := cmean x N in fun t => cscale 100 (csub (cdiv (x t) m) c1).

(* ------------------------------------------------------------------ analyzer pair fill *)
(* corr i j = np.correlate(data[i], data[j], 'full') for i <= j (real data); after the double
   loop the lower triangle is assigned from the upper one: xcorr[j,i] = xcorr[i,j] *)
Definition xcorr_fill (corr : nat -> nat -> nat -> Q) (i j : nat) : nat -> Q :=
  if (i <=? j)%nat then corr i j else corr j i.
(* index of the entry the normalised version divides by *)
Definition xcorr_norm_idx (N : nat) : nat := (N - 1)%nat.
Definition xcorr_norm_fill (corr : nat -> nat -> nat -> Q) (cc : nat -> nat -> Q) (N i j : nat) : nat -> Q :=
  let e := fun a b k => corr a b k / corr a b (xcorr_norm_idx N) * cc a b in
  if (i <=? j)%nat then e i j else e j i.

(* ------------------------------------------------------------------ correlation_spectrum *)
(* numerators real(X1)*real(X2) + imag(X1)*imag(X2) of the n bins; X1 X2 are the spectra of the
   demeaned inputs (data) *)
Definition corrspec_num (X1 X2 : sig) (k : nat) : Q := re (X1 k) * re (X2 k) + im (X1 k) * im (X2 k).
(* norm=True: ccn / sum(ccn) * 2 (the factor D*n cancels) *)
Definition corrspec_norm (X1 X2 : sig) (n : nat) : nat -> Q :=
  let tot := sumr (corrspec_num X1 X2) n in fun k => corrspec_num X1 X2 k / tot * 2.
Definition corrspec_len (n : nat) : nat := (n / 2 + 1)%nat.

(* ------------------------------------------------------------------ arrays and axes *)
Definition prodn (l : list nat) : nat := fold_right Nat.mul 1%nat l.
(* negative axes count from the end *)
Definition norm_axis (ndim : nat) (axis : Z) : nat :=
  Z.to_nat (if (axis <? 0)%Z then (axis + Z.of_nat ndim)%Z else axis).
Definition outer_of (shape : list nat) (ax : nat) : nat := prodn (firstn ax shape).
Definition inner_of (shape : list nat) (ax : nat) : nat := prodn (skipn (S ax) shape).
Definition axlen_of (shape : list nat) (ax : nat) : nat := nth ax shape 0%nat.

Definition lane_list (d : list C) (N inner o i : nat) : list C :=
  map (fun t => nth ((o * N + t) * inner + i) d c0) (seq 0 N).
Definition sig_of (l : list C) : sig := fun t => nth t l c0.
Definition lane (d : list C) (N inner o i : nat) : sig := sig_of (lane_list d N inner o i).

Definition tab (M : nat) (f : sig) : list C := map f (seq 0 M).
(* result array with axis length M, from the per-lane results g o i (lists of length M),
   computed once per lane *)
Definition along (outer M inner : nat) (g : nat -> nat -> list C) : list C :=
  let tbl := map (fun o => map (fun i => g o i) (seq 0 inner)) (seq 0 outer) in
  flat_map (fun o => flat_map (fun t => map (fun i => nth t (nth i (nth o tbl []) []) c0) (seq 0 inner))
                                (seq 0 M)) (seq 0 outer).
