(* Model/Filter.v — executable model of nitime's own logic in the filtering methods
   (nitime/analysis/spectral.py class FilterAnalyzer, nitime/algorithms/filter.py boxcar_filter,
    nitime/utils.py get_freqs).  Definitions only; proofs are in Proofs/FilterP.v.

   Source lines (tree after the fix commits ea21d4b, 7818ff0, bf2d0bb):
     A  Fourier mask        utils.py get_freqs 1207-1211 (np.linspace(0, Fs/2, int(n/2+1)));
                            analysis/spectral.py filtered_fourier 441-473: the grid, ub = freqs[-1]
                            when ub is None, idx_0 = where(freqs < lb) ++ where(freqs > ub),
                            power[idx_0] = 0, power[-1*idx_0] = 0, DC put back, np.real of the inverse.
     B  DC restoration      analysis/spectral.py filtfilt 292-345 (out - mean(out) + mean(in), per channel);
                            fir 347-398 (fractions of Nyquist, the two ValueErrors, n_taps, low-pass stage,
                            high-pass stage with spectral inversion b = -firwin, b[n_taps//2] += 1);
                            iir 400-438 (wp / ws selection for band-, low-, high-pass).
     C  output axis         the ts.TimeSeries(...) calls at 341-344, 381-384, 470-473, 501-504 with the
                            arguments as passed; of the TimeSeries constructor (timeseries.py by-rate
                            branch, Frequency.to_period after a2201c3, TimeArray float path) only the
                            arithmetic that produces the stored sampling interval.
     D  boxcar              algorithms/filter.py boxcar_filter 4-102: box length ceil(1/(2 f)), edge
                            padding, full convolution, excision of the central n points (index
                            arithmetic in Z), the iteration loop that re-convolves the padded signal,
                            in-place low-pass then high-pass with +mean(s_lp); analysis/spectral.py
                            filtered_boxcar 476-504 (ub/Fs, lb/Fs, DC restoration).
   Taken from the libraries (never modelled; Section variables in the proofs, data in K):
     fftpack.fft / ifft, signal.filtfilt, signal.firwin, signal.iirdesign.
   np.convolve with a constant box is written out (a finite sum). *)
From Coq Require Import QArith ZArith List Bool Arith Lia PrimFloat.
From NT Require Import F2Z QC Sums TimeArray.
Import ListNotations.
Open Scope Q_scope.

Definition Qltb (a b : Q) : bool := negb (Qle_bool b a).
Definition qn (k : nat) : Q := inject_Z (Z.of_nat k).
(* sum_{k<n} f k, kept in lowest terms while it is accumulated (for evaluation inside Coq) *)
Fixpoint sumr (f : nat -> Q) (n : nat) : Q :=
  match n with O => 0 | S n' => Qred (sumr f n' + f n') end.
(* list <-> function plumbing; `memo f n` is f on [0,n) evaluated once *)
Definition lq (l : list Q) : nat -> Q := fun k => nth k l 0.
Definition lc (l : list C) : nat -> C := fun k => nth k l c0.
Definition tab {A} (f : nat -> A) (n : nat) : list A := map f (seq 0 n).
Definition memo (f : nat -> Q) (n : nat) : nat -> Q := lq (tab f n).

(* ------------------------------------------------------------------ A. Fourier-domain filter *)
(* int(n / 2 + 1) *)
Definition glen (n : nat) : nat := (n / 2 + 1)%nat.
(* np.linspace(0, Fs / 2, glen n)[k]  ( = arange(num) * ((stop - start) / (num - 1)) + start ) *)
Definition grid (Fs : Q) (n k : nat) : Q :=
  if (glen n =? 1)%nat then 0 else qn k * ((Fs / 2) / qn (glen n - 1)).
(* if self.ub is None: self.ub = freqs[-1] *)
Definition ub_eff (Fs : Q) (n : nat) (ub : option Q) : Q :=
  match ub with Some u => u | None => grid Fs n (glen n - 1) end.
(* idx_0 = np.hstack([np.where(freqs < lb)[0], np.where(freqs > ub)[0]]) *)
Definition idx0 (Fs : Q) (n : nat) (lb ub : Q) : list nat :=
  filter (fun k => Qltb (grid Fs n k) lb) (seq 0 (glen n)) ++
  filter (fun k => Qltb ub (grid Fs n k)) (seq 0 (glen n)).
(* position j is written by power[..., k] = 0 or by power[..., -k] = 0 (python index -k = n-k, -0 = 0) *)
Definition hit (n j k : nat) : bool := (j =? k)%nat || (j =? (n - k) mod n)%nat.
Definition zeroed (n : nat) (idx : list nat) (j : nat) : bool := existsb (hit n j) idx.
(* keep_dc; power[idx_0] = 0; power[-idx_0] = 0; power[0] = keep_dc *)
Definition masked (n : nat) (idx : list nat) (X : nat -> C) (j : nat) : C :=
  if (j =? 0)%nat then X 0%nat else if zeroed n idx j then c0 else X j.
(* np.real(ifft(Y)) seen in the frequency domain: the spectrum of the real part of the inverse
   transform of Y is the conjugate-symmetric part of Y *)
Definition resym (n : nat) (Y : nat -> C) (j : nat) : C :=
  cscale (1 # 2) (cadd (Y j) (cconj (Y ((n - j) mod n)%nat))).
Definition fmask (Fs : Q) (n : nat) (lb : Q) (ub : option Q) : list nat :=
  idx0 Fs n lb (ub_eff Fs n ub).
(* spectrum of the returned data, given the spectrum X of the input data *)
Definition fourier_spec (Fs : Q) (n : nat) (lb : Q) (ub : option Q) (X : nat -> C) : nat -> C :=
  resym n (masked n (fmask Fs n lb ub) X).

(* |true frequency| of bin j of an n-point transform at sampling rate Fs *)
Definition tfreq (Fs : Q) (n j : nat) : Q := qn (Nat.min j (n - j)) * Fs / qn n.
(* the frequency the code attributes to bin j (through the get_freqs grid and the mirrored index) *)
Definition cfreq (Fs : Q) (n j : nat) : Q := grid Fs n (Nat.min j (n - j)).

(* ------------------------------------------------------------------ B. filtfilt wrapper, fir, iir *)
Definition mean (x : nat -> Q) (n : nat) : Q := sumr x n / qn n.
(* dc = mean(data[i]); out = out - mean(out); out = out + dc *)
Definition dc_restore (n : nat) (x y : nat -> Q) : nat -> Q :=
  let my := mean y n in let mx := mean x n in fun t => y t - my + mx.
(* b = -1 * firwin(...); b[n_taps // 2] = b[n_taps // 2] + 1 *)
Definition hp_taps (ntaps : nat) (b : nat -> Q) : nat -> Q :=
  fun i => if (i =? ntaps / 2)%nat then - b i + 1 else - b i.

Inductive stage := LP (frac : Q) | HP (frac : Q).
Inductive plan := PlanErr | Plan (ntaps : nat) (st : list stage).

Definition ub_frac (Fs : Q) (ub : option Q) : Q :=
  match ub with Some u => u / (Fs / 2) | None => 1 end.
Definition lb_frac (Fs lb : Q) : Q := lb / (Fs / 2).

(* fir: which library calls are made, in which order, with which cut-off; from the two fractions *)
Definition fir_plan_fr (lbf ubf : Q) (order n : nat) : plan :=
  if Qltb lbf 0 || Qltb 1 ubf then PlanErr
  else if (3 * n <? order + 1)%nat then PlanErr
  else Plan (order + 1)
            ((if Qltb ubf 1 then [LP ubf] else []) ++ (if Qltb 0 lbf then [HP lbf] else [])).
Definition fir_plan (Fs lb : Q) (ub : option Q) (order n : nat) : plan :=
  fir_plan_fr (lb_frac Fs lb) (ub_frac Fs ub) order n.

(* the fractions exactly as the code computes them in binary64 (lines 355-360 / 410-415):
   ub_frac = self.ub / (self.sampling_rate / 2.)  (1.0 when ub is None), lb_frac = self.lb / (Fs / 2.).
   The branches that follow test ub_frac < 1, ub_frac == 1, ub_frac > 1, lb_frac > 0, lb_frac == 0 on these
   float64 values; their exact dyadic values (f2q) are handed to the plan / specification. *)
Definition half_f (Fs : float) : float := PrimFloat.div Fs 2.
Definition ub_frac_f (Fs : float) (ub : option float) : float :=
  match ub with Some u => PrimFloat.div u (half_f Fs) | None => 1%float end.
Definition lb_frac_f (Fs lb : float) : float := PrimFloat.div lb (half_f Fs).
Definition fir_plan_fl (Fs lb : float) (ub : option float) (order n : nat) : plan :=
  fir_plan_fr (f2q (lb_frac_f Fs lb)) (f2q (ub_frac_f Fs ub)) order n.

(* the taps handed to filtfilt in a stage, given what firwin returned *)
Definition stage_taps (ntaps : nat) (s : stage) (fw : nat -> Q) : nat -> Q :=
  match s with LP _ => fw | HP _ => hp_taps ntaps fw end.

(* the chain of wrapped filtfilt calls: `raws` are the library's outputs, stage by stage *)
Fixpoint chain (n : nat) (x : nat -> Q) (raws : list (nat -> Q)) : nat -> Q :=
  match raws with
  | [] => x
  | r :: rest => chain n (dc_restore n x r) rest
  end.

Definition Qmax' (a b : Q) : Q := if Qle_bool a b then b else a.
Definition Qmin' (a b : Q) : Q := if Qle_bool a b then a else b.

Inductive iirspec :=
| IirUnbound                                   (* no branch assigns wp, ws: UnboundLocalError *)
| IirBand (wp1 wp2 ws1 ws2 : Q)
| IirLow (wp ws : Q)
| IirHigh (wp ws : Q).

(* wp, ws from the two fractions of Nyquist (lines 418-434) *)
Definition iir_of_fracs (lbf ubf : Q) : iirspec :=
  if Qltb 0 lbf && Qltb ubf 1 then
    IirBand lbf ubf (Qmax' (lbf - (1 # 10)) (1 # 1000)) (Qmin' (ubf + (1 # 10)) (999 # 1000))
  else if Qeq_bool lbf 0 then IirLow ubf (Qmin' (ubf + (1 # 10)) (9 # 10))
  else if Qeq_bool ubf 1 then IirHigh lbf (Qmax' (lbf - (1 # 10)) (1 # 10))
  else IirUnbound.
Definition iir_spec (Fs lb : Q) (ub : option Q) : iirspec :=
  iir_of_fracs (lb_frac Fs lb) (ub_frac Fs ub).
Definition iir_spec_fl (Fs lb : float) (ub : option float) : iirspec :=
  iir_of_fracs (f2q (lb_frac_f Fs lb)) (f2q (ub_frac_f Fs ub)).

(* ------------------------------------------------------------------ C. the axis of the output *)
Record axis := mk_axis { ashape : list Z; adelta : Z; at0 : Z; aunit : unit }.
(* what a filter reads from its input series *)
Record tsin := mk_tsin { in_shape : list Z; in_Fs : float; in_delta : Z; in_t0 : Z; in_unit : unit }.

(* Frequency.to_period(): np.int64(np.round((1 / self) * (1e12 / 1))) *)
Definition period_ps (Fs : float) : option Z :=
  rne_f (PrimFloat.mul (PrimFloat.div 1%float Fs) (z2f 1000000000000)).
(* TimeSeries(..., sampling_rate=<Frequency>, time_unit=u): sampling_interval =
   to_period() / float(c_f), stored as TimeArray(sampling_interval, time_unit=u) *)
Definition interval_by_rate (Fs : float) (u : unit) : option Z :=
  match period_ps Fs with
  | Some p => ctor_float1 (factor u) (PrimFloat.div (z2f p) (z2f (factor u)))
  | None => None
  end.
(* ts.TimeSeries(data, sampling_rate=Fs, time_unit=u, t0=t0) with t0 a time object *)
Definition ts_by_rate (shape : list Z) (Fs : float) (u : unit) (t0 : Z) : option axis :=
  match interval_by_rate Fs u with
  | Some d => Some (mk_axis shape d t0 u)
  | None => None
  end.

Inductive meth := MFir (nstages : nat) | MIir | MFourier | MBoxcar | MFiltfilt.

(* FilterAnalyzer.filtfilt(b, a, in_ts): Fs, t0, time_unit are read from in_ts *)
Definition filtfilt_axis (shape : list Z) (Fs : float) (a : axis) : option axis :=
  ts_by_rate shape Fs (aunit a) (at0 a).
Fixpoint fir_stages_axis (k : nat) (shape : list Z) (Fs : float) (a : axis) : option axis :=
  match k with
  | O => Some a
  | S k' => match filtfilt_axis shape Fs a with
            | Some a' => fir_stages_axis k' shape Fs a'
            | None => None
            end
  end.
(* time_unit argument of the intermediate series built by fir (line 383, since ea21d4b) *)
Definition fir_mid_unit (i : tsin) : unit := in_unit i.

Definition out_axis (m : meth) (i : tsin) : option axis :=
  match m with
  | MFir k =>
      match ts_by_rate (in_shape i) (in_Fs i) (fir_mid_unit i) (in_t0 i) with
      | Some a => fir_stages_axis k (in_shape i) (in_Fs i) a
      | None => None
      end
  | MIir | MFiltfilt | MFourier | MBoxcar =>
      ts_by_rate (in_shape i) (in_Fs i) (in_unit i) (in_t0 i)
  end.

(* ------------------------------------------------------------------ D. boxcar *)
Definition ceilQ (q : Q) : Z := (- ((- Qnum q) / Zpos (Qden q)))%Z.
(* np.ceil(1 / (2.0 * f)) *)
Definition box_len (f : Q) : Z := ceilQ (1 / (2 * f)).
(* filtered_boxcar: ub = self.ub / Fs (1.0 when None), lb = self.lb / Fs; boxcar_filter: lb == 0 -> None *)
Definition box_cfg (Fs lb : Q) (ub : option Q) : Z * option Z :=
  let u := match ub with Some u => u / Fs | None => 1 end in
  let l := lb / Fs in
  (box_len u, if Qeq_bool l 0 then None else Some (box_len l)).

(* pad_s = hstack(ones(L) * x[0], x, ones(L) * x[-1]); outside [0, n+2L): not part of the array *)
Definition padv (n L : Z) (x : nat -> Q) (t : Z) : Q :=
  if (t <? 0)%Z then 0
  else if (t <? L)%Z then x 0%nat
  else if (t <? L + n)%Z then x (Z.to_nat (t - L))
  else if (t <? n + 2 * L)%Z then x (Z.to_nat (n - 1))
  else 0.
(* np.convolve(pad_s, box)[m], box = L entries 1/L ('full' mode) *)
Definition convv (n L : Z) (x : nat -> Q) (m : Z) : Q :=
  sumr (fun i => padv n L x (m - Z.of_nat i) * (1 / inject_Z L)) (Z.to_nat L).
Definition clen (n L : Z) : Z := (n + 2 * L + L - 1)%Z.
(* conv_s.shape[-1] // 2 - int(np.floor(n / 2.))  :  conv_s.shape[-1] // 2 + int(np.ceil(n / 2.)) *)
Definition ex_start (n L : Z) : Z := (clen n L / 2 - n / 2)%Z.
Definition ex_stop (n L : Z) : Z := (clen n L / 2 + (n + 1) / 2)%Z.
(* every pass of `for iteration in range(n_iterations)` convolves pad_s again: one pass counts *)
Definition lowpass (n L : Z) (x : nat -> Q) : nat -> Q :=
  fun j => convv n L x (ex_start n L + Z.of_nat j).
(* one channel of boxcar_filter (in place: the high-pass part works on the low-passed channel) *)
Definition boxcar_chan (n : nat) (Lub : Z) (Llb : option Z) (x : nat -> Q) : nat -> Q :=
  let x1 := memo (lowpass (Z.of_nat n) Lub x) n in
  match Llb with
  | None => x1
  | Some L => let s := memo (lowpass (Z.of_nat n) L x1) n in
              let ms := mean s n in
              fun j => x1 j - s j + ms
  end.
(* filtered_boxcar (since bf2d0bb): data_out - mean(data_out) + mean(data) *)
Definition boxcar_out (n : nat) (Lub : Z) (Llb : option Z) (x : nat -> Q) : nat -> Q :=
  dc_restore n x (boxcar_chan n Lub Llb x).
(* n_iterations = 0: conv_s is never assigned before it is sliced (UnboundLocalError) *)
Definition boxcar_defined (iters : nat) : bool := negb (iters =? 0)%nat.

(* FilterAnalyzer.filtfilt(b, a, in_ts=None), lines 313-323: data, Fs, t0, time_unit are those of in_ts
   when it is given, of the analyzer's own series otherwise *)
Definition pick {A} (own : A) (in_ts : option A) : A := match in_ts with Some x => x | None => own end.
Definition filtfilt_method (n : nat) (F : (nat -> Q) -> nat -> Q) (own : nat -> Q)
  (in_ts : option (nat -> Q)) : nat -> Q :=
  let data := pick own in_ts in dc_restore n data (F data).
Definition filtfilt_method_axis (own : tsin) (in_ts : option tsin) : option axis :=
  out_axis MFiltfilt (pick own in_ts).
