(* Model/Freqs.v — every frequency grid nitime builds, as exact rationals (Q), and the
   specification `true_bins` they are compared with (property C05).  Definitions only.

   What each definition stands for (line numbers of /repo at the time of writing):
     linspace, rfftfreq      numpy (np.linspace / np.fft.rfftfreq) — their documented arithmetic
                             (arange(n)*step+start ; arange(n//2+1)*(1/n)); library, not nitime
     periodogram_freqs       nitime/algorithms/spectral.py 245-260  (periodogram)
     pcsd_freqs              nitime/algorithms/spectral.py 335-355  (periodogram_csd, after the
                             `fix:` commits of this property: rfftfreq(N)*Fs / linspace(0,Fs,N,False))
     mt_nfft, mt_freqs       nitime/utils.py tapered_spectra 733-735 (NFFT < N -> N);
                             nitime/algorithms/spectral.py 590-594, 730-733 (multi_taper_psd/csd)
     old_*                   the expressions those lines had before the fix commits (kept so the
                             repaired defects stay documented by theorems)
     get_freqs, circle_to_hz, searchsorted_*, get_bounds      nitime/utils.py 1207-1242
     slice, band_freqs, cache_fft_bins, cache_fft_freqs       nitime/algorithms/cohere.py 963-976,
                             1013 (fft(...)[lb_idx:ub_idx]), 1024 (return freqs, cache);
                             analysis/coherence.py 525-536, 618-630 (freqs[lb_idx:ub_idx])
     ff_keep                 analysis/spectral.py 448-456 (filtered_fourier: which one-sided bins survive)
     fourier_complex_freqs   analysis/spectral.py 181-183 (spectrum_fourier, complex input)
     freqz_grid              scipy.signal.freqz(worN=m, whole=False): linspace(0, pi, m, endpoint=False)
     granger_reported        analysis/granger.py 179-181 ; granger_true: algorithms/spectral.py
                             freq_response (real_n = n_freqs//2+1 points of freqz) mapped to Hz
     fs_of_interval, fs_of_rate   nitime/timeseries.py Frequency.__new__ 899-913 and the
                             TimeSeries constructor 1226-1252 (sampling_rate from sampling_interval)
     site, site_freqs, site_len, site_true    the table: which expression every estimator / analyzer
                             attribute uses (analysis/coherence.py 73-80,127-136,399-402,525-536,
                             618-630; analysis/spectral.py 84-188, 190-228; analysis/granger.py 179-181;
                             analysis/snr.py 90-93; algorithms/spectral.py get_spectra 103-146)
   Library behaviour taken as given (not modelled): matplotlib.mlab.psd/csd's frequency vector
   (`lib` below), np.searchsorted's binary search (modelled by the first-index scan it equals on a
   sorted array), scipy freqz's grid, float rounding (all arithmetic here is exact). *)
From Coq Require Import QArith List Bool Arith ZArith.
From NT Require Import TimeArray.
Import ListNotations.
Open Scope Q_scope.

Definition qn (n : nat) : Q := inject_Z (Z.of_nat n).
Definition Qltb (x y : Q) : bool := negb (Qle_bool y x).

Inductive sides := OneSided | TwoSided.

(* ------------------------------------------------------------------ specification *)
Definition nbins (NFFT : nat) (s : sides) : nat :=
  match s with OneSided => (NFFT / 2 + 1)%nat | TwoSided => NFFT end.
Definition bin_freq (Fs : Q) (NFFT k : nat) : Q := qn k * Fs / qn NFFT.
Definition true_bins (Fs : Q) (NFFT : nat) (s : sides) : list Q :=
  map (bin_freq Fs NFFT) (seq 0 (nbins NFFT s)).

(* pointwise equality of two grids as rationals (and equal lengths) *)
Definition leq (l1 l2 : list Q) : Prop := Forall2 Qeq l1 l2.

(* ------------------------------------------------------------------ numpy *)
Definition linspace (a b : Q) (n : nat) (endpoint : bool) : list Q :=
  let div := if endpoint then (n - 1)%nat else n in
  match div with
  | O => match n with O => [] | _ => [a] end
  | _ => map (fun k => a + qn k * ((b - a) / qn div)) (seq 0 n)
  end.

Definition rfftfreq (n : nat) : list Q := map (fun k => qn k * (1 / qn n)) (seq 0 (n / 2 + 1)).
Definition scale (c : Q) (l : list Q) : list Q := map (fun x => x * c) l.

(* ------------------------------------------------------------------ estimators *)
Definition periodogram_freqs (Fs : Q) (N : nat) (s : sides) : list Q :=
  match s with OneSided => scale Fs (rfftfreq N) | TwoSided => linspace 0 Fs N false end.

Definition pcsd_freqs (Fs : Q) (N : nat) (s : sides) : list Q :=
  match s with OneSided => scale Fs (rfftfreq N) | TwoSided => linspace 0 Fs N false end.

Definition mt_nfft (N NFFT : nat) : nat := if (NFFT <? N)%nat then N else NFFT.
Definition mt_freqs (Fs : Q) (NFFT : nat) (s : sides) : list Q :=
  match s with OneSided => scale Fs (rfftfreq NFFT) | TwoSided => linspace 0 Fs NFFT false end.

(* what these lines were before the fix commits *)
Definition old_pcsd_freqs (Fs : Q) (N : nat) (s : sides) : list Q :=
  match s with OneSided => linspace 0 (Fs / 2) (N / 2 + 1) true
             | TwoSided => linspace 0 (Fs / 2) N false end.
Definition old_mt_freqs (Fs : Q) (NFFT : nat) (s : sides) : list Q :=
  match s with OneSided => linspace 0 (Fs / 2) (NFFT / 2 + 1) true
             | TwoSided => linspace 0 Fs NFFT false end.

(* ------------------------------------------------------------------ utils *)
(* np.linspace(0, Fs / 2, int(n / 2 + 1)) *)
Definition get_freqs (Fs : Q) (n : nat) : list Q := linspace 0 (Fs / 2) (n / 2 + 1) true.

Definition circle_to_hz (twopi : Q) (omega : list Q) (Fsamp : Q) : list Q :=
  map (fun w => Fsamp * w / twopi) omega.

Fixpoint count_while (p : Q -> bool) (l : list Q) : nat :=
  match l with
  | [] => O
  | x :: t => if p x then S (count_while p t) else O
  end.
(* first index i with f[i] >= v  /  first index i with f[i] > v *)
Definition searchsorted_left (f : list Q) (v : Q) : nat := count_while (fun x => Qltb x v) f.
Definition searchsorted_right (f : list Q) (v : Q) : nat := count_while (fun x => Qle_bool x v) f.

Definition get_bounds (f : list Q) (lb : Q) (ub : option Q) : nat * nat :=
  (searchsorted_left f lb,
   match ub with None => length f | Some u => searchsorted_right f u end).

(* python l[a:b] for 0 <= a, b *)
Definition slice {A} (l : list A) (a b : nat) : list A := firstn (b - a) (skipn a l).

(* ------------------------------------------------------------------ band selection *)
(* SparseCoherenceAnalyzer.frequencies / SeedCoherenceAnalyzer.frequencies *)
Definition band_freqs (Fs : Q) (NFFT : nat) (lb : Q) (ub : option Q) : list Q :=
  let f := get_freqs Fs NFFT in
  let '(a, b) := get_bounds f lb ub in slice f a b.

(* cache_fft: the FFT bins that are kept, fft(...)[lb_idx:ub_idx] *)
Definition cache_fft_bins (Fs : Q) (NFFT : nat) (lb : Q) (ub : option Q) : list nat :=
  let f := get_freqs Fs NFFT in
  let '(a, b) := get_bounds f lb ub in seq a (b - a).
(* cache_fft: the frequency vector it returns (the whole grid, whatever the band) *)
Definition cache_fft_freqs (Fs : Q) (NFFT : nat) : list Q := get_freqs Fs NFFT.

(* the requirement: exactly the one-sided bins whose true frequency lies in the band *)
Definition in_band (lb : Q) (ub : option Q) (x : Q) : bool :=
  Qle_bool lb x && match ub with None => true | Some u => Qle_bool x u end.
Definition true_band_bins (Fs : Q) (NFFT : nat) (lb : Q) (ub : option Q) : list nat :=
  filter (fun k => in_band lb ub (bin_freq Fs NFFT k)) (seq 0 (NFFT / 2 + 1)).
Definition true_band_freqs (Fs : Q) (NFFT : nat) (lb : Q) (ub : option Q) : list Q :=
  map (bin_freq Fs NFFT) (true_band_bins Fs NFFT lb ub).

(* filtered_fourier: one-sided bins 0..n//2 that are NOT zeroed (DC is always restored) *)
Definition ff_keep (Fs : Q) (n : nat) (lb : Q) (ub : option Q) : list nat :=
  let f := get_freqs Fs n in
  let u := match ub with Some u => u | None => last f 0 end in
  filter (fun k => (k =? 0)%nat || negb (Qltb (nth k f 0) lb || Qltb u (nth k f 0)))
         (seq 0 (length f)).
Definition true_ff_keep (Fs : Q) (n : nat) (lb : Q) (ub : option Q) : list nat :=
  filter (fun k => (k =? 0)%nat || in_band lb ub (bin_freq Fs n k)) (seq 0 (n / 2 + 1)).

(* ------------------------------------------------------------------ analyzers' own grids *)
(* spectrum_fourier, complex data: linspace(-Fs/2, Fs/2, n) next to fftshift(fft(data)) *)
Definition fourier_complex_freqs (Fs : Q) (n : nat) : list Q := linspace (- (Fs / 2)) (Fs / 2) n true.
(* bin i of fftshift(fft(x)) is frequency (i - n//2) * Fs / n *)
Definition true_shifted_bins (Fs : Q) (n : nat) : list Q :=
  map (fun i => (qn i - qn (n / 2)) * Fs / qn n) (seq 0 n).

Definition freqz_grid (pi : Q) (m : nat) : list Q := linspace 0 pi m false.
Definition granger_reported (Fs : Q) (n_freqs : nat) : list Q := get_freqs Fs n_freqs.
Definition granger_true (pi : Q) (Fs : Q) (n_freqs : nat) : list Q :=
  circle_to_hz (2 * pi) (freqz_grid pi (n_freqs / 2 + 1)) Fs.

(* ------------------------------------------------------------------ Fs of a series *)
(* TimeSeries(data, sampling_interval=d, time_unit=u): Frequency(1.0/d, u) = (1/d) * (10^12 / factor u) *)
Definition fs_of_interval (d : Q) (u : unit) : Q :=
  (1 / d) * (inject_Z (factor Us) / inject_Z (factor u)).
(* TimeSeries(data, sampling_rate=r, time_unit=u): Frequency(r, 's') = r * (10^12 / 10^12) *)
Definition fs_of_rate (r : Q) (u : unit) : Q := r * (inject_Z (factor Us) / inject_Z (factor Us)).

(* ------------------------------------------------------------------ a method dict shared by analyzers *)
(* CoherenceAnalyzer.__init__ (coherence.py 72-76), SparseCoherenceAnalyzer.__init__ (463, 472) and
   SeedCoherenceAnalyzer.__init__ (607, 618) keep the caller's dict object and do, on it,
   method['Fs'] = method.get('Fs', own sampling rate).  `d` is the 'Fs' entry of the dict before the
   first of these events, `rates` the own sampling rates of the analyzers in the order of the events;
   the result lists the Fs each analyzer ends up using. *)
Fixpoint shared_dict_fs (d : option Q) (rates : list Q) : list Q :=
  match rates with
  | [] => []
  | r :: t => let fs := match d with Some f => f | None => r end in fs :: shared_dict_fs (Some fs) t
  end.

(* ------------------------------------------------------------------ the table of call sites *)
Inductive site :=
| S_periodogram | S_pcsd | S_mt_psd | S_mt_csd
| S_gs_welch | S_gs_pcsd | S_gs_mt
| S_cache_fft
| A_Coh_welch | A_Coh_pcsd | A_Coh_mt
| A_MTCoh | A_SparseCoh | A_SeedCoh
| A_Spec_psd | A_Spec_cpsd | A_Spec_periodogram | A_Spec_fourier_real | A_Spec_fourier_complex
| A_Spec_mt
| A_Granger | A_SNR
| U_get_freqs.           (* utils.get_freqs(Fs, n) called directly, n = eNFFT *)

Record env := mk_env {
  eFs : Q;            (* sampling rate in Hz (the value handed to / taken by the call) *)
  eFsGiven : bool;    (* false: the call leaves Fs to its default 2*pi *)
  eN : nat;           (* length of the data *)
  eNFFT : nat;        (* NFFT / N argument (for analyzers without one: = eN) *)
  eSides : sides;
  eLb : Q; eUb : option Q;
  eNfreqs : nat;      (* GrangerAnalyzer n_freqs *)
  eLib : list Q;      (* frequency vector of matplotlib.mlab.psd/csd for (NFFT, Fs) — library *)
  ePi : Q             (* numpy's pi *)
}.

Definition eff_Fs (e : env) : Q := if eFsGiven e then eFs e else 2 * ePi e.

(* the frequency vector the code returns at each site *)
Definition site_freqs (s : site) (e : env) : list Q :=
  match s with
  | S_periodogram => periodogram_freqs (eff_Fs e) (eNFFT e) (eSides e)
  | S_pcsd | S_gs_pcsd | A_Coh_pcsd => pcsd_freqs (eff_Fs e) (eNFFT e) (eSides e)
  | S_mt_psd | S_mt_csd | S_gs_mt | A_Coh_mt => mt_freqs (eff_Fs e) (mt_nfft (eN e) (eNFFT e)) (eSides e)
  | S_gs_welch | A_Coh_welch | A_Spec_psd | A_Spec_cpsd => eLib e
  | S_cache_fft => cache_fft_freqs (eff_Fs e) (eNFFT e)
  | A_MTCoh | A_SNR => scale (eff_Fs e) (rfftfreq (eN e))
  | A_SparseCoh | A_SeedCoh => band_freqs (eff_Fs e) (eNFFT e) (eLb e) (eUb e)
  | A_Spec_periodogram => periodogram_freqs (eff_Fs e) (eN e) (eSides e)   (* sides: complex data -> two-sided *)
  | A_Spec_fourier_real => get_freqs (eff_Fs e) (eN e)
  | U_get_freqs => get_freqs (eff_Fs e) (eNFFT e)
  | A_Spec_fourier_complex => fourier_complex_freqs (eff_Fs e) (eN e)
  | A_Spec_mt => mt_freqs (eff_Fs e) (eN e) (eSides e)
  | A_Granger => granger_reported (eff_Fs e) (eNfreqs e)
  end.

(* the length of the frequency axis of the spectrum returned with it *)
Definition site_len (s : site) (e : env) : nat :=
  match s with
  | S_periodogram | S_pcsd | S_gs_pcsd | A_Coh_pcsd => nbins (eNFFT e) (eSides e)
  | S_mt_psd | S_mt_csd | S_gs_mt | A_Coh_mt => nbins (mt_nfft (eN e) (eNFFT e)) (eSides e)
  | S_gs_welch | A_Coh_welch | A_Spec_psd | A_Spec_cpsd => nbins (eNFFT e) (eSides e)
  | S_cache_fft | A_SparseCoh | A_SeedCoh =>
      length (cache_fft_bins (eff_Fs e) (eNFFT e) (eLb e) (eUb e))
  | A_MTCoh | A_SNR | A_Spec_fourier_real => (eN e / 2 + 1)%nat
  | A_Spec_periodogram | A_Spec_mt => nbins (eN e) (eSides e)
  | A_Spec_fourier_complex => eN e
  | A_Granger => (eNfreqs e / 2 + 1)%nat
  | U_get_freqs => (eNFFT e / 2 + 1)%nat
  end.

(* the true centre frequencies of the bins of that spectrum (the requirement) *)
Definition site_true (s : site) (e : env) : list Q :=
  match s with
  | S_periodogram | S_pcsd | S_gs_pcsd | A_Coh_pcsd
  | S_gs_welch | A_Coh_welch | A_Spec_psd | A_Spec_cpsd => true_bins (eff_Fs e) (eNFFT e) (eSides e)
  | S_mt_psd | S_mt_csd | S_gs_mt | A_Coh_mt => true_bins (eff_Fs e) (mt_nfft (eN e) (eNFFT e)) (eSides e)
  | S_cache_fft | A_SparseCoh | A_SeedCoh => true_band_freqs (eff_Fs e) (eNFFT e) (eLb e) (eUb e)
  | A_MTCoh | A_SNR | A_Spec_fourier_real => true_bins (eff_Fs e) (eN e) OneSided
  | A_Spec_periodogram | A_Spec_mt => true_bins (eff_Fs e) (eN e) (eSides e)
  | A_Spec_fourier_complex => true_shifted_bins (eff_Fs e) (eN e)
  | A_Granger => granger_true (ePi e) (eff_Fs e) (eNfreqs e)
  | U_get_freqs => true_bins (eff_Fs e) (eNFFT e) OneSided
  end.

(* the sites and inputs on which the code as it stands meets the requirement *)
Definition full_band (e : env) : bool :=
  Qle_bool (eLb e) 0 && match eUb e with None => true | Some u => Qle_bool (eff_Fs e / 2) u end.
Definition site_good (s : site) (e : env) : bool :=
  match s with
  | S_periodogram | S_pcsd | S_gs_pcsd | A_Coh_pcsd
  | S_mt_psd | S_mt_csd | S_gs_mt | A_Coh_mt
  | S_gs_welch | A_Coh_welch | A_Spec_psd | A_Spec_cpsd
  | A_MTCoh | A_SNR | A_Spec_periodogram | A_Spec_mt => true
  | A_Spec_fourier_real => Nat.even (eN e)
  | A_SparseCoh | A_SeedCoh | U_get_freqs => Nat.even (eNFFT e)
  | S_cache_fft => Nat.even (eNFFT e) && full_band e
  | A_Spec_fourier_complex | A_Granger => false
  end.
