(* Model/Index.v — executable model of time / epoch / integer selection in nitime.timeseries
   (picosecond integers only; re-uses Model/TimeArray.v for units, the TimeArray constructor
   `ctor`, operand broadcasting and the comparison / arithmetic operators).

   Source lines (nitime/timeseries.py at /repo 4795614, i.e. with the two C03 `fix:` commits 26ee0a6
   and 3add054 and the C02/C17 fixes of UniformTime.__new__; the numbers move with every fix,
   the function names are the anchor):
     TimeArray.__getitem__ 237-246, index_at 354-392, _index_closest 394-404, _index_before 406-413,
       _index_after 415-421, slice_during 423-459, at 461-463, during 465-476
                                                              -> as_query, index_closest, index_before,
                                                                 index_after, index_at, tslice_during,
                                                                 tarr_at, tarr_during
     UniformTime.__getitem__ 756-765, index_at 852-872, slice_during 874-893, at 895-897,
       during 899-908                                         -> uindex_at (uindex1, ubin, in_range),
                                                                 uslice_during, uat, uduring
     TimeSeriesBase.__getitem__ 1028-1037, TimeSeries.time 1088-1095 (UniformTime.__new__ 672-709:
       duration = length*interval, n = ceil(duration/interval), samples t0 + interval*arange(n)),
       at 1334-1336, during 1338-1358                          -> series_getint, series_time (arange),
                                                                 series_at, series_during
     Epochs.__init__ 1370-1467, start/stop/duration 1470-1485, __getitem__/iteration 1487-1493
                                                              -> epochs_ctor, ep_start, ep_stop,
                                                                 e_durations, epoch_list, epochs_getitem
     Events.__getitem__ 1631-1652                             -> events_get
   Definitions only; proofs are in Proofs/IndexP.v.

   Modelled as written: the order of the checks and which exception each raises, the conversion
     of every time argument through the TimeArray constructor in the unit of the object indexed,
     int64 wrap-around of t - t0 / t0 + duration / |self - t| (wrap64), floor division by the
     sampling interval, numpy's np.where(mask)[0] (ascending positions), first arg-max / arg-min,
     the `+= 1` corrections of the slice ends, the repeat step of the fixed TimeArray.slice_during,
     Python's negative-index and slice clamping rules, np.array's refusal of ragged rows.
   Data are abstract: the data of a series is the list of its "columns" data[..., k] (any leading
     dimensions, any dtype: a type parameter A); the per-event data of an Events object is the
     list of the per-event records (all keys, any trailing dimensions).
   Not modelled (out of the property's observation points or another property's business):
     0-d `self`, empty time arguments (StopIteration in get_time_unit), the float sampling_rate
     attribute (C02), Events' labels/indices, non-positive sampling intervals of np.arange. *)
From Coq Require Import ZArith List Bool PrimFloat.
From NT Require Import F2Z Lists TimeArray.
Import ListNotations.
Open Scope Z_scope.

(* ---------------------------------------------------------------- results and exceptions *)
Inductive xerr := XValue | XIndex | XNotImpl | XType | XOther.
Inductive xres (A : Type) := XOk (a : A) | XErr (e : xerr).
Arguments XOk {A} a.
Arguments XErr {A} e.

Definition xerr_of (e : err) : xerr :=
  match e with
  | ValueError => XValue | TypeError => XType | NotImplementedErr => XNotImpl
  | AttributeErr => XOther | OtherError => XOther
  end.

Definition of_res {A} (r : res A) : xres A :=
  match r with Ok a => XOk a | Err e => XErr (xerr_of e) end.

Definition xbind {A B} (r : xres A) (f : A -> xres B) : xres B :=
  match r with XOk a => f a | XErr e => XErr e end.
Notation "'do' x <- r ; k" := (xbind r (fun x => k)) (at level 200, x pattern, r at level 100, k at level 200).

Fixpoint xall {A} (l : list (xres A)) : xres (list A) :=
  match l with
  | [] => XOk []
  | XErr e :: _ => XErr e
  | XOk a :: l' => match xall l' with XOk r => XOk (a :: r) | XErr e => XErr e end
  end.

(* ---------------------------------------------------------------- numpy / Python primitives *)
(* np.where(mask)[0] *)
Fixpoint where_from (i : nat) (m : list bool) : list nat :=
  match m with
  | [] => []
  | b :: m' => if b then i :: where_from (S i) m' else where_from (S i) m'
  end.
Definition np_where (m : list bool) : list nat := where_from 0 m.

(* ndarray.argmax / argmin: position of the FIRST extremal element *)
Fixpoint argmax_from (best : Z) (bi i : nat) (l : list Z) : nat :=
  match l with
  | [] => bi
  | x :: l' => if best <? x then argmax_from x i (S i) l' else argmax_from best bi (S i) l'
  end.
Definition argmax (l : list Z) : option nat :=
  match l with [] => None | x :: l' => Some (argmax_from x 0%nat 1%nat l') end.

Fixpoint argmin_from (best : Z) (bi i : nat) (l : list Z) : nat :=
  match l with
  | [] => bi
  | x :: l' => if x <? best then argmin_from x i (S i) l' else argmin_from best bi (S i) l'
  end.
Definition argmin (l : list Z) : option nat :=
  match l with [] => None | x :: l' => Some (argmin_from x 0%nat 1%nat l') end.

(* max / min of a non-empty array of positions *)
Definition nat_max (x : nat) (l : list nat) : nat := fold_left Nat.max l x.
Definition nat_min (x : nat) (l : list nat) : nat := fold_left Nat.min l x.

(* a[k] for a position that is known to be non-negative *)
Definition getn {A} (l : list A) (k : nat) : xres A :=
  match nth_error l k with Some a => XOk a | None => XErr XIndex end.
(* a[[k0, k1, ...]] *)
Definition gather {A} (l : list A) (idx : list nat) : xres (list A) := xall (map (getn l) idx).

(* Python / numpy integer index k into a sequence of length n (negative counts from the end) *)
Definition py_index (n : nat) (k : Z) : option nat :=
  let n' := Z.of_nat n in
  if (0 <=? k) && (k <? n') then Some (Z.to_nat k)
  else if (k <? 0) && (- n' <=? k) then Some (Z.to_nat (k + n'))
  else None.
Definition getz {A} (l : list A) (k : Z) : xres A :=
  match py_index (length l) k with Some i => getn l i | None => XErr XIndex end.
Definition gatherz {A} (l : list A) (idx : list Z) : xres (list A) := xall (map (getz l) idx).

(* a[lo:hi] for non-negative positions *)
Definition slice_nat {A} (lo hi : nat) (l : list A) : list A := firstn (hi - lo) (skipn lo l).
(* a[lo:hi] for arbitrary integers: Python's clamping *)
Definition clampz (n : nat) (x : Z) : nat :=
  let n' := Z.of_nat n in
  if x <? 0 then Z.to_nat (Z.max (x + n') 0) else Z.to_nat (Z.min x n').
Definition pyslice {A} (lo hi : Z) (l : list A) : list A :=
  slice_nat (clampz (length l) lo) (clampz (length l) hi) l.

(* the samples a, a+d, ... below b (d > 0): ceil((b-a)/d) of them — np.arange(a, b, d) / the integer
   count of UniformTime.__new__ *)
Definition arange (a b d : Z) : list Z :=
  if 0 <? d then map (fun i => a + Z.of_nat i * d) (seq 0 (Z.to_nat ((b - a + d - 1) / d))) else [].

(* ---------------------------------------------------------------- TimeArray.index_at *)
Inductive mode := Closest | Before | After | BadMode.
(* what index_at returns: an ndarray of positions, or one numpy integer *)
Inductive idx := IList (l : list nat) | IScalar (k : nat).

Definition clock_tick : tarr := mk_tarr [1] Ups true.

(* `if not np.iterable(t): t = [t]` then TimeArray(t, time_unit=self.time_unit) *)
Definition as_query (u : unit) (d : data) : res tarr :=
  ctor (UArg u)
       (match d with
        | DInts true l => DInts false l
        | DFloats true l => DFloats false l
        | DTime t => if scalar t then DTimeList t [] else DTime t
        | _ => d
        end).

Definition tabs (t : tarr) : tarr :=
  mk_tarr (map (fun x => wrap64 (Z.abs x)) (payload t)) (tunit t) (scalar t).

Definition index_closest (self t : tarr) (tol : option data) : xres idx :=
  do d0 <- of_res (binop_arith Sub self (OTime t));
  let d := tabs d0 in
  do ttol <- of_res (ctor (UArg (tunit self)) (match tol with None => DTime clock_tick | Some x => x end));
  do m <- of_res (binop_cmp Le d (OTime ttol));
  XOk (IList (np_where (fst m))).

(* cond -> position (inside self) of the first extremal element of self[cond] *)
Definition pick (am : list Z -> option nat) (self : tarr) (cond : list nat) : xres idx :=
  match cond with
  | [] => XOk (IList [])
  | _ => do v <- gather (payload self) cond;
         match am v with
         | None => XErr XValue
         | Some j => do k <- getn cond j; XOk (IScalar k)
         end
  end.

Definition index_before (self t : tarr) : xres idx :=
  do m <- of_res (binop_cmp Le self (OTime t));
  pick argmax self (np_where (fst m)).

Definition index_after (self t : tarr) : xres idx :=
  do m <- of_res (binop_cmp Le t (OTime self));
  pick argmin self (np_where (fst m)).

Definition index_at (self : tarr) (t : data) (tol : option data) (md : mode) : xres idx :=
  do te <- of_res (as_query (tunit self) t);
  match md with
  | Closest => index_closest self te tol
  | Before => index_before self te
  | After => index_after self te
  | BadMode => XErr XValue
  end.

(* ---------------------------------------------------------------- Epochs *)
(* start / stop in picoseconds, 0-d or 1-d, the scalar offset (a time object), the unit *)
Record epochs := mk_epochs { e_start : list Z; e_stop : list Z; e_scalar : bool;
                             e_offset : tarr; e_unit : unit }.

Record eargs := mk_eargs { a_t0 : option data; a_stop : option data; a_offset : option data;
                           a_start : option data; a_duration : option data; a_unit : uarg }.

Definition is_none {A} (o : option A) : bool := match o with None => true | Some _ => false end.

Definition same_shape (a b : tarr) : bool :=
  Bool.eqb (scalar a) (scalar b) && Nat.eqb (length (payload a)) (length (payload b)).

Definition epochs_ctor (a : eargs) : xres epochs :=
  if is_none (a_t0 a) && is_none (a_start a) then XErr XValue else
  if is_none (a_stop a) && is_none (a_duration a) then XErr XValue else
  if negb (is_none (a_stop a)) && negb (is_none (a_duration a)) then XErr XValue else
  let tu := a_unit a in
  do t_offset <- of_res (ctor tu (match a_offset a with None => DInts true [0] | Some d => d end));
  if negb (scalar t_offset) then XErr XValue else
  do t_0 <- match a_t0 a with
            | None => XOk None
            | Some d => do t <- of_res (ctor tu d); XOk (Some t)
            end;
  do t_start <- match a_start a, t_0 with
                | Some d, _ => of_res (ctor tu d)
                | None, Some t0 => of_res (binop_arith Sub t0 (OTime t_offset))
                | None, None => XErr XValue
                end;
  do t_stop <- match a_stop a, a_duration a with
               | Some d, _ => of_res (ctor tu d)
               | None, Some d => do t_dur <- of_res (ctor tu d);
                                 of_res (binop_arith Add t_start (OTime t_dur))
               | None, None => XErr XValue
               end;
  if negb (same_shape t_start t_stop) then XErr XValue else
  XOk (mk_epochs (payload t_start) (payload t_stop) (scalar t_start) t_offset (tunit t_start)).

(* e.start / e.stop : TimeArray(self.data['start'], time_unit=self.time_unit, copy=False) *)
Definition ep_start (e : epochs) : tarr := mk_tarr (e_start e) (e_unit e) (e_scalar e).
Definition ep_stop (e : epochs) : tarr := mk_tarr (e_stop e) (e_unit e) (e_scalar e).
(* e.duration = e.stop - e.start *)
Definition e_durations (e : epochs) : res tarr := binop_arith Sub (ep_stop e) (OTime (ep_start e)).

(* iteration `for ep in e`: the scalar epochs e[0], e[1], ... (same offset, same unit) *)
Definition epoch_list (e : epochs) : list epochs :=
  map (fun p => mk_epochs [fst p] [snd p] true (e_offset e) (e_unit e)) (combine (e_start e) (e_stop e)).

(* Epochs.__getitem__: `static = self.__dict__.copy(); static['data'] = self.data[key]` — the
   selection keeps the offset and the unit of the object; self.data[key] is numpy indexing of the
   1-d structured array (an integer gives a scalar epoch, a slice / list / boolean mask a 1-d one);
   any index into a 0-d epoch is an IndexError *)
Inductive ekidx := EInt (k : Z) | ESlice (lo hi : option Z) | EList (l : list Z) | EMask (m : list bool).

Definition epochs_getitem (e : epochs) (k : ekidx) : xres epochs :=
  let keep st sp sc := XOk (mk_epochs st sp sc (e_offset e) (e_unit e)) in
  if e_scalar e then XErr XIndex else
  match k with
  | EInt z => do s <- getz (e_start e) z; do p <- getz (e_stop e) z; keep [s] [p] true
  | ESlice lo hi =>
      let a := match lo with None => 0 | Some x => x end in
      let b := match hi with None => Z.of_nat (length (e_start e)) | Some x => x end in
      keep (pyslice a b (e_start e)) (pyslice a b (e_stop e)) false
  | EList l => do s <- gatherz (e_start e) l; do p <- gatherz (e_stop e) l; keep s p false
  | EMask m =>
      if negb (Nat.eqb (length m) (length (e_start e))) then XErr XIndex else
      do s <- gather (e_start e) (np_where m); do p <- gather (e_stop e) (np_where m); keep s p false
  end.

(* ---------------------------------------------------------------- TimeArray.slice_during / at / during *)
Definition scalar_bounds (e : epochs) : xres (Z * Z) :=
  if negb (e_scalar e) then XErr XNotImpl else
  match e_start e, e_stop e with
  | [s], [p] => XOk (s, p)
  | _, _ => XErr XOther
  end.

Definition idx_nonempty (i : idx) : bool := match i with IList [] => false | _ => true end.

Definition tslice_during (self : tarr) (e : epochs) : xres (nat * nat) :=
  do b <- scalar_bounds e;
  let (s, p) := b in
  do start <- index_at self (DTime (ep_start e)) None After;
  do stop <- index_at self (DTime (ep_stop e)) None Before;
  if negb (idx_nonempty start && idx_nonempty stop) then XOk (0%nat, 0%nat) else
  let i_start := match start with IScalar k => k | IList l => nat_max 0 l end in
  let i_stop := match stop with IScalar k => k | IList l => match l with [] => 0%nat | x :: l' => nat_min x l' end end in
  do x_start <- getn (payload self) i_start;
  let i_start := if s >? x_start then S i_start else i_start in
  do x_stop <- getn (payload self) i_stop;
  let i_stop := if p >? x_stop
                then S (nat_max 0 (np_where (map (fun x => x =? x_stop) (payload self))))
                else i_stop in
  XOk (i_start, i_stop).

(* integer selection self[k], k a Python int or ANY numpy integer scalar (since /repo f2c2916; before,
   only int / np.int32 / np.int64): self[[k]].reshape(()) — a 0-d time object in the unit of self;
   UniformTime.__getitem__ does the same and views the result as a TimeArray *)
Definition tarr_getint (self : tarr) (k : Z) : xres tarr :=
  do x <- getz (payload self) k; XOk (mk_tarr [x] (tunit self) true).

(* self[self.index_at(t, tol=tol)] *)
Definition tarr_at (self : tarr) (t : data) (tol : option data) : xres tarr :=
  do i <- index_at self t tol Closest;
  match i with
  | IList l => do v <- gather (payload self) l; XOk (mk_tarr v (tunit self) false)
  | IScalar k => do x <- getn (payload self) k; XOk (mk_tarr [x] (tunit self) true)
  end.

Definition tarr_during (self : tarr) (e : epochs) : xres tarr :=
  do _ <- scalar_bounds e;
  do sl <- tslice_during self e;
  XOk (mk_tarr (slice_nat (fst sl) (snd sl) (payload self)) (tunit self) false).

(* ---------------------------------------------------------------- UniformTime *)
(* the state of a UniformTime object: its samples and the four attributes it carries *)
Record uaxis := mk_uaxis { u_samples : list Z; u_t0 : Z; u_dt : Z; u_dur : Z; u_unit : unit }.

Inductive uidx := UScalar (k : Z) | UList (l : list Z) | UMask (m : list bool).

(* the position of one instant (picoseconds); the range check is done by the caller on min/max *)
Definition ubin (ax : uaxis) (t : Z) : Z := wrap64 (t - u_t0 ax) / u_dt ax.

Definition in_range (ax : uaxis) (lo hi : Z) : bool :=
  negb ((lo <? u_t0 ax) || (hi >=? wrap64 (u_t0 ax + u_dur ax))).

Fixpoint set_true (m : list bool) (k : nat) : list bool :=
  match m, k with
  | [], _ => []
  | _ :: m', O => true :: m'
  | b :: m', S k' => b :: set_true m' k'
  end.

Definition uindex_at (ax : uaxis) (t : data) (boolean : bool) : xres uidx :=
  do ta <- of_res (ctor (UArg (u_unit ax)) t);
  match payload ta with
  | [] => XErr XValue
  | x :: l =>
      if negb (in_range ax (zmin_list x l) (zmax_list x l)) then XErr XValue else
      let idx := map (ubin ax) (x :: l) in
      if boolean then
        let n := length (u_samples ax) in
        do pos <- xall (map (fun k => match py_index n k with Some i => XOk i | None => XErr XIndex end) idx);
        XOk (UMask (fold_left set_true pos (repeat false n)))
      else if scalar ta then XOk (UScalar (ubin ax x))
      else XOk (UList idx)
  end.

(* a well-formed axis: samples t0 + i*dt (i < n), duration n*dt, positive interval *)
Definition uaxis_of (t0 dt : Z) (n : nat) (u : unit) : uaxis :=
  mk_uaxis (map (fun i => t0 + Z.of_nat i * dt) (seq 0 n)) t0 dt (Z.of_nat n * dt) u.

Definition wf_axisb (ax : uaxis) : bool :=
  (0 <? u_dt ax) &&
  list_eqb Z.eqb (u_samples ax)
           (map (fun i => u_t0 ax + Z.of_nat i * u_dt ax) (seq 0 (length (u_samples ax)))) &&
  (u_dur ax =? Z.of_nat (length (u_samples ax)) * u_dt ax).

(* the picosecond-level core used by the theorems: index_at of one instant *)
Definition uindex1 (ax : uaxis) (t : Z) : xres Z :=
  if in_range ax t t then XOk (ubin ax t) else XErr XValue.

Definition uslice_during (ax : uaxis) (e : epochs) : xres (Z * Z) :=
  do b <- scalar_bounds e;
  let (s, p) := b in
  do i_start <- uindex1 ax s;
  do i_stop <- uindex1 ax p;
  do x_start <- getz (u_samples ax) i_start;
  let i_start := if s >? x_start then i_start + 1 else i_start in
  do x_stop <- getz (u_samples ax) i_stop;
  let i_stop := if p >? x_stop then i_stop + 1 else i_stop in
  XOk (i_start, i_stop).

(* TimeArray(self[self.index_at(t)], time_unit=self.time_unit) *)
Definition uat (ax : uaxis) (t : data) : xres tarr :=
  do i <- uindex_at ax t false;
  match i with
  | UScalar k => do x <- getz (u_samples ax) k; XOk (mk_tarr [x] (u_unit ax) true)
  | UList l => do v <- gatherz (u_samples ax) l; XOk (mk_tarr v (u_unit ax) false)
  | UMask _ => XErr XOther
  end.

Definition uaxis_getint (ax : uaxis) (k : Z) : xres tarr :=
  do x <- getz (u_samples ax) k; XOk (mk_tarr [x] (u_unit ax) true).

Definition uduring (ax : uaxis) (e : epochs) : xres (list Z) :=
  do _ <- scalar_bounds e;
  do sl <- uslice_during ax e;
  XOk (pyslice (fst sl) (snd sl) (u_samples ax)).

(* ---------------------------------------------------------------- TimeSeries *)
Record series (A : Type) := mk_series { s_data : list A; s_t0 : Z; s_dt : Z; s_unit : unit }.
Arguments mk_series {A}.
Arguments s_data {A}.
Arguments s_t0 {A}.
Arguments s_dt {A}.
Arguments s_unit {A}.

(* the lazily built `time`: UniformTime(length=len, t0=self.t0, sampling_interval=self.sampling_interval) *)
Definition series_time {A} (s : series A) : uaxis :=
  let n := Z.of_nat (length (s_data s)) in
  let dur := wrap64 (n * s_dt s) in
  mk_uaxis (arange (s_t0 s) (wrap64 (s_t0 s + dur)) (s_dt s)) (s_t0 s) (s_dt s) dur (s_unit s).

Inductive sel (A : Type) := SOne (a : A) | SMany (l : list A).
Arguments SOne {A} a.
Arguments SMany {A} l.

(* self.data[..., self.time.index_at(t)] *)
Definition series_at {A} (s : series A) (t : data) : xres (sel A) :=
  do i <- uindex_at (series_time s) t false;
  match i with
  | UScalar k => do a <- getz (s_data s) k; XOk (SOne a)
  | UList l => do v <- gatherz (s_data s) l; XOk (SMany v)
  | UMask _ => XErr XOther
  end.

(* self.data[..., key] for an integer key *)
Definition series_getint {A} (s : series A) (k : Z) : xres A := getz (s_data s) k.

(* what `during` builds: the selected columns (one row per epoch for an epoch array), and the
   t0 / sampling interval / unit handed to the TimeSeries constructor (the interval itself since
   /repo 237b5b4; before that the float rate, which lost the last digits of intervals > 2^53 ps) *)
Inductive dsel (A : Type) := DOne (l : list A) | DRows (rows : list (list A)).
Arguments DOne {A} l.
Arguments DRows {A} rows.
Record during_out (A : Type) := mk_dout { d_sel : dsel A; d_t0 : Z; d_dt : Z; d_unit : unit }.
Arguments mk_dout {A}.
Arguments d_sel {A}.
Arguments d_t0 {A}.
Arguments d_dt {A}.
Arguments d_unit {A}.

Definition all_same_len {A} (rows : list (list A)) : bool :=
  match rows with
  | [] => true
  | r :: rows' => forallb (fun r' => Nat.eqb (length r') (length r)) rows'
  end.

Definition all_equal (l : list Z) : bool :=
  match l with [] => true | x :: l' => forallb (fun y => y =? x) l' end.

Definition series_during {A} (s : series A) (e : epochs) : xres (during_out A) :=
  let ax := series_time s in
  (* TimeArray(t0=e.offset, time_unit=self.time_unit): the payload of the offset is kept *)
  let t0' := head_ps (e_offset e) in
  if e_scalar e then
    do sl <- uslice_during ax e;
    XOk (mk_dout (DOne (pyslice (fst sl) (snd sl) (s_data s))) t0' (s_dt s) (s_unit s))
  else
    do dur <- of_res (e_durations e);
    match payload dur with
    | [] => XErr XOther     (* an empty epoch array: e.stop / e.start build a TimeArray from an empty
                               array, StopIteration in get_time_unit (C01's constructor) *)
    | _ =>
      if negb (all_equal (payload dur)) then XErr XValue else
      do rows <- xall (map (fun ep => do sl <- uslice_during ax ep;
                                      XOk (pyslice (fst sl) (snd sl) (s_data s)))
                           (epoch_list e));
      if negb (all_same_len rows) then XErr XValue else
      XOk (mk_dout (DRows rows) t0' (s_dt s) (s_unit s))
    end.

(* ---------------------------------------------------------------- Events *)
Record events (A : Type) := mk_events { ev_time : tarr; ev_data : list A }.
Arguments mk_events {A}.
Arguments ev_time {A}.
Arguments ev_data {A}.

Inductive ekey := KInt (k : Z) | KFloat (x : float) | KEpochs (e : epochs).

Definition events_get {A} (ev : events A) (key : ekey) : xres (events A) :=
  let tm := ev_time ev in
  match key with
  | KInt k =>
      (* newtime = self.time[key].reshape(-1); v[[key]] *)
      do x <- getz (payload tm) k;
      do d <- getz (ev_data ev) k;
      XOk (mk_events (mk_tarr [x] (tunit tm) false) [d])
  | KFloat x =>
      (* newtime = self.time.at(key).reshape(-1); sl = self.time.index_at(key) *)
      do nt <- tarr_at tm (DFloats true [x]) None;
      do i <- index_at tm (DFloats true [x]) None Closest;
      match i with
      | IList l => do d <- gather (ev_data ev) l;
                   XOk (mk_events (mk_tarr (payload nt) (tunit tm) false) d)
      | IScalar k => do d <- getn (ev_data ev) k;
                     XOk (mk_events (mk_tarr (payload nt) (tunit tm) false) [d])
      end
  | KEpochs e =>
      (* newtime = self.time.during(key).reshape(-1); sl = self.time.slice_during(key) *)
      do nt <- tarr_during tm e;
      do sl <- tslice_during tm e;
      XOk (mk_events (mk_tarr (payload nt) (tunit tm) false) (slice_nat (fst sl) (snd sl) (ev_data ev)))
  end.
