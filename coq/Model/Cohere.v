(* Model/Cohere.v — Gallina model of nitime's coherence code (property C08). Definitions only.

   What is modelled (nitime's own logic), by source line:
     cohere.py  24-85   coherency            pair loop i<=j + conj fill      -> coherency_mat
     cohere.py  87-111  coherency_spec       fxy / sqrt(fxx*fyy)             -> coherency_spec
     cohere.py 114-173  coherence            pair loop i<=j + conj fill      -> coherence_mat
     cohere.py 176-203  coherence_spec       |fxy|^2 / (re fxx * re fyy)     -> coherence_spec
     cohere.py 405-466  coherency_bavg       bounds, lb==0 rule, loop, fill  -> bavg_bounds, coherency_bavg_mat
     cohere.py 469-516  _coherency_bavg      mean phase, mean |coherency|    -> coherency_bavg_spec
     cohere.py 519-566  coherence_bavg       bounds, lb==0 rule, loop, fill  -> bavg_bounds, coherence_bavg_mat
     cohere.py 569-592  _coherence_bavg      |sum fxy|^2/(sum fxx * sum fyy) -> coherence_bavg_spec
     cohere.py 595-668  coherence_partial    which spectra are handed to the formula -> coherence_partial_mat
                                             (as repaired: fry = conj of csd(y, r))
     cohere.py 671-700  coherence_partial_spec  as written                   -> coherence_partial_spec
     cohere.py 703-754  coherency_phase_spectrum  loop j>i, angle / angle conj  -> phase_mat_fn
     cohere.py 757-825  coherency_phase_delay, _coherency_phase_delay        -> delay_bounds, delay_mat_fn, delay_spec
     utils.py 1221-1242 get_bounds (searchsorted left / right on the sorted grid) -> get_bounds
     analysis/coherence.py  96-117  CoherenceAnalyzer.coherency              -> coherency_mat
     analysis/coherence.py 139-163  CoherenceAnalyzer.coherence              -> coherence_mat
     analysis/coherence.py 165-186  CoherenceAnalyzer.phase  (j from i: diagonal written twice) -> phase_mat_an
     analysis/coherence.py 188-202  CoherenceAnalyzer.delay  (without unwrapping) -> delay_mat_an
     analysis/coherence.py 204-235  CoherenceAnalyzer.coherence_partial (as repaired) -> an_partial_mat
     analysis/coherence.py 340-364  MTCoherenceAnalyzer.coherence (as repaired: diagonal 1) -> mt_coherence_mat

     utils.py adaptive_weights: only its stopping test                         -> adaptive_stop
     (estimator contract) channel gains act bilinearly on the cross-spectra   -> gained
   "as repaired" refers to the /repo commits 83d594e (partial coherence: f_ry instead of f_yr) and
   1f8444b (multitaper analyzer diagonal); the pre-repair behaviour is kept as
   coherence_partial_mat_old / mt_coherence_mat_old for the refutation theorems.

   What is NOT modelled and enters as data (library / estimator oracles):
     the cross-spectral matrix S i j k returned by get_spectra (mlab.csd, multi_taper_csd,
     periodogram_csd) and by mtm_cross_spectrum; np.sqrt (a value s with the contract
     0 <= s /\ s*s = a, see CohereBase.is_sqrt); np.angle (a function with angle (conj z) = - angle z
     for the antisymmetry theorems; its characterising relation with the harness's sin/cos in K);
     np.cos / np.sin of the mean phase in _coherency_bavg; the float constant 2*np.pi.
   np.abs(z)**2 is modelled by the algebraic |z|^2 = cnorm2 z.

   A spectral matrix is a function  S i j k  (channel, channel, frequency index). get_spectra
   with the Welch method fills only i <= j (csd of (x_j, x_i) stored at [i][j]); every loop below
   reads only those entries, except where `herm` completes the matrix explicitly. *)
From Coq Require Import QArith List Arith Bool.
From NT Require Import QC Sums.
Import ListNotations.
Open Scope Q_scope.

Definition spec := nat -> nat -> nat -> C.

(* the pair loop `for i: for j in range(i, n): c[i][j] = f i j` followed by
   `c[tril] = c[triu].conj()` *)
Definition pair_fill {X} (cj : X -> X) (f : nat -> nat -> X) (i j : nat) : X :=
  if (i <=? j)%nat then f i j else cj (f j i).

(* ------------------------------------------------------------------ coherency, coherence *)
(* fxy / s  where s is the library's sqrt (fxx * fyy) *)
Definition coherency_spec (s : Q) (fxy : C) : C := cscale (/ s) fxy.

Definition coherence_spec (fxy : C) (fxx fyy : Q) : Q := cnorm2 fxy / (fxx * fyy).

Definition coherence_mat (S : spec) (i j k : nat) : Q :=
  pair_fill (fun x => x)
            (fun a b => coherence_spec (S a b k) (re (S a a k)) (re (S b b k))) i j.

(* sq a b k : the library's sqrt (S a a k * S b b k), a <= b *)
Definition coherency_mat (sq : nat -> nat -> nat -> Q) (S : spec) (i j k : nat) : C :=
  pair_fill cconj (fun a b => coherency_spec (sq a b k) (S a b k)) i j.

(* ------------------------------------------------------------------ bands *)
Fixpoint count_lt (f : list Q) (x : Q) : nat :=
  match f with [] => O | y :: f' => ((if Qle_bool x y then 0 else 1) + count_lt f' x)%nat end.
Fixpoint count_le (f : list Q) (x : Q) : nat :=
  match f with [] => O | y :: f' => ((if Qle_bool y x then 1 else 0) + count_le f' x)%nat end.

(* np.searchsorted(f, lb, 'left'), np.searchsorted(f, ub, 'right') on an ascending grid *)
Definition get_bounds (f : list Q) (lb : Q) (ub : option Q) : nat * nat :=
  (count_lt f lb, match ub with None => length f | Some u => count_le f u end).

(* coherence_bavg / coherency_bavg: `if lb == 0: lb_idx = 1` *)
Definition bavg_bounds (f : list Q) (lb : Q) (ub : option Q) : nat * nat :=
  let (l, u) := get_bounds f lb ub in ((if Qeq_bool lb 0 then 1 else l)%nat, u).
(* coherency_phase_delay: `if lb_idx == 0: lb_idx = 1` *)
Definition delay_bounds (f : list Q) (lb : Q) (ub : option Q) : nat * nat :=
  let (l, u) := get_bounds f lb ub in ((if (l =? 0)%nat then 1 else l)%nat, u).

(* sums over the slice [l:u] *)
Definition band_csum (g : nat -> C) (l u : nat) : C := csumn (fun k => g (l + k)%nat) (u - l).
Definition band_sum (g : nat -> Q) (l u : nat) : Q := sumn (fun k => g (l + k)%nat) (u - l).

Definition coherence_bavg_spec (fxy : nat -> C) (fxx fyy : nat -> Q) (l u : nat) : Q :=
  cnorm2 (band_csum fxy l u) / (band_sum fxx l u * band_sum fyy l u).

Definition coherence_bavg_mat (S : spec) (l u i j : nat) : Q :=
  pair_fill (fun x => x)
            (fun a b => coherence_bavg_spec (S a b) (fun k => re (S a a k)) (fun k => re (S b b k)) l u)
            i j.

(* _coherency_bavg: mean of the magnitudes times (cos, sin) of the mean phase.
   mags k = library |coherency_spec| at band index k, n of them; (cosp, sinp) = library cos / sin
   of the mean of the library phases *)
Definition coherency_bavg_spec (mags : nat -> Q) (n : nat) (cosp sinp : Q) : C :=
  cscale (sumn mags n / inject_Z (Z.of_nat n)) (cosp, sinp).

Definition coherency_bavg_mat (mags : nat -> nat -> nat -> Q) (n : nat)
           (cosp sinp : nat -> nat -> Q) (i j : nat) : C :=
  pair_fill cconj (fun a b => coherency_bavg_spec (mags a b) n (cosp a b) (sinp a b)) i j.

(* ------------------------------------------------------------------ partial coherence *)
(* coherence_partial_spec as written; sxr sry sxy are the library's square roots of
   fxx*frr, fyy*frr, fxx*fyy *)
Definition coherence_partial_spec (sxr sry sxy : Q) (fxy fxr fry : C) : Q :=
  let Rxr := coherency_spec sxr fxr in
  let Rry := coherency_spec sry fry in
  let Rxy := coherency_spec sxy fxy in
  cnorm2 (csub Rxy (cmul Rxr Rry)) / ((1 - cnorm2 Rxr) * (1 - cnorm2 Rry)).

(* the same value without square roots (Proofs/CohereP.v: partial_spec_closed) *)
Definition partial_closed (fxy : C) (fxx fyy : Q) (fxr fry : C) (frr : Q) : Q :=
  cnorm2 (csub (cscale frr fxy) (cmul fxr fry))
  / ((fxx * frr - cnorm2 fxr) * (fyy * frr - cnorm2 fry)).

(* coherence_partial (function): Sr a k = csd of (x_a, r) from get_spectra_bi(time_series[a], r),
   frr b k = the psd of r from the call made for channel b; the formula receives
   fxr = Sr a, fry = conj (Sr b) *)
Definition coherence_partial_mat (S : spec) (Sr : nat -> nat -> C) (frr : nat -> nat -> Q)
           (i j k : nat) : Q :=
  pair_fill (fun x => x)
            (fun a b => partial_closed (S a b k) (re (S a a k)) (re (S b b k))
                                       (Sr a k) (cconj (Sr b k)) (frr b k)) i j.

(* what the callers handed over before the repair: fry = csd of (y, r) itself *)
Definition coherence_partial_mat_old (S : spec) (Sr : nat -> nat -> C) (frr : nat -> nat -> Q)
           (i j k : nat) : Q :=
  pair_fill (fun x => x)
            (fun a b => partial_closed (S a b k) (re (S a a k)) (re (S b b k))
                                       (Sr a k) (Sr b k) (frr b k)) i j.

(* Hermitian completion of a matrix of which only i <= j is read *)
Definition herm (S : spec) (a b k : nat) : C :=
  if (a <=? b)%nat then S a b k else cconj (S b a k).

(* CoherenceAnalyzer.coherence_partial [i][j][r] *)
Definition an_partial_mat (S : spec) (i j r k : nat) : Q :=
  if ((j =? r) || (i =? r))%nat then 0
  else pair_fill (fun x => x)
                 (fun a b => partial_closed (herm S a b k) (re (S a a k)) (re (S b b k))
                                            (herm S a r k) (herm S r b k) (re (S r r k))) i j.

(* the partial coherence defined through the inverse of the 3x3 spectral matrix
        | sxx  sxy  sxr |
    M = | syx  syy  syr |      (Hermitian: syx = conj sxy, srx = conj sxr, sry = conj syr)
        | srx  sry  srr |
   G = M^-1 = adj M / det M ;  partial coherence = |G_xy|^2 / (G_xx G_yy).
   Generic 3x3 complex matrices, the full adjugate, the determinant and the product are written
   out so that "adj M / det M is the inverse of M" is a theorem (CohereP.adj3_inverse). *)
Record m3 := M3 { m00 : C; m01 : C; m02 : C; m10 : C; m11 : C; m12 : C; m20 : C; m21 : C; m22 : C }.

Definition adj3 (m : m3) : m3 :=
  M3 (csub (cmul (m11 m) (m22 m)) (cmul (m12 m) (m21 m)))
     (cneg (csub (cmul (m01 m) (m22 m)) (cmul (m02 m) (m21 m))))
     (csub (cmul (m01 m) (m12 m)) (cmul (m02 m) (m11 m)))
     (cneg (csub (cmul (m10 m) (m22 m)) (cmul (m12 m) (m20 m))))
     (csub (cmul (m00 m) (m22 m)) (cmul (m02 m) (m20 m)))
     (cneg (csub (cmul (m00 m) (m12 m)) (cmul (m02 m) (m10 m))))
     (csub (cmul (m10 m) (m21 m)) (cmul (m11 m) (m20 m)))
     (cneg (csub (cmul (m00 m) (m21 m)) (cmul (m01 m) (m20 m))))
     (csub (cmul (m00 m) (m11 m)) (cmul (m01 m) (m10 m))).

Definition det3 (m : m3) : C :=
  cadd (cadd (cmul (m00 m) (m00 (adj3 m))) (cmul (m01 m) (m10 (adj3 m)))) (cmul (m02 m) (m20 (adj3 m))).

Definition mmul3 (a b : m3) : m3 :=
  M3 (cadd (cadd (cmul (m00 a) (m00 b)) (cmul (m01 a) (m10 b))) (cmul (m02 a) (m20 b)))
     (cadd (cadd (cmul (m00 a) (m01 b)) (cmul (m01 a) (m11 b))) (cmul (m02 a) (m21 b)))
     (cadd (cadd (cmul (m00 a) (m02 b)) (cmul (m01 a) (m12 b))) (cmul (m02 a) (m22 b)))
     (cadd (cadd (cmul (m10 a) (m00 b)) (cmul (m11 a) (m10 b))) (cmul (m12 a) (m20 b)))
     (cadd (cadd (cmul (m10 a) (m01 b)) (cmul (m11 a) (m11 b))) (cmul (m12 a) (m21 b)))
     (cadd (cadd (cmul (m10 a) (m02 b)) (cmul (m11 a) (m12 b))) (cmul (m12 a) (m22 b)))
     (cadd (cadd (cmul (m20 a) (m00 b)) (cmul (m21 a) (m10 b))) (cmul (m22 a) (m20 b)))
     (cadd (cadd (cmul (m20 a) (m01 b)) (cmul (m21 a) (m11 b))) (cmul (m22 a) (m21 b)))
     (cadd (cadd (cmul (m20 a) (m02 b)) (cmul (m21 a) (m12 b))) (cmul (m22 a) (m22 b))).

Definition mscale3 (c : C) (a : m3) : m3 :=
  M3 (cmul c (m00 a)) (cmul c (m01 a)) (cmul c (m02 a)) (cmul c (m10 a)) (cmul c (m11 a))
     (cmul c (m12 a)) (cmul c (m20 a)) (cmul c (m21 a)) (cmul c (m22 a)).
Definition id3 : m3 := M3 c1 c0 c0 c0 c1 c0 c0 c0 c1.
Definition meq3 (a b : m3) : Prop :=
  m00 a =c= m00 b /\ m01 a =c= m01 b /\ m02 a =c= m02 b /\ m10 a =c= m10 b /\ m11 a =c= m11 b /\
  m12 a =c= m12 b /\ m20 a =c= m20 b /\ m21 a =c= m21 b /\ m22 a =c= m22 b.

(* the spectral matrix of (x, y, r) at one frequency *)
Definition spectral3 (sxx syy srr : Q) (sxy sxr syr : C) : m3 :=
  M3 (ofQ sxx) sxy sxr (cconj sxy) (ofQ syy) syr (cconj sxr) (cconj syr) (ofQ srr).

(* |G_xy|^2 / (G_xx G_yy) with G = adj M / det M  (det M is real for a Hermitian M) *)
Definition partial_inverse (sxx syy srr : Q) (sxy sxr syr : C) : Q :=
  let m := spectral3 sxx syy srr sxy sxr syr in
  let d := re (det3 m) in
  cnorm2 (cscale (/ d) (m01 (adj3 m)))
  / (re (cscale (/ d) (m00 (adj3 m))) * re (cscale (/ d) (m11 (adj3 m)))).

(* ------------------------------------------------------------------ phase, delay *)
Section Angle.
  Variable angle : C -> Q.      (* np.angle *)

  (* coherency_phase_spectrum: p = zeros; for j in range(i+1, n): p[i][j] = angle(fxy[i][j]);
     p[j][i] = angle(fxy[i][j].conjugate()) *)
  Definition phase_mat_fn (S : spec) (i j k : nat) : Q :=
    if (i <? j)%nat then angle (S i j k)
    else if (j <? i)%nat then angle (cconj (S j i k)) else 0.

  (* CoherenceAnalyzer.phase: for j in range(i, n): the diagonal is written twice *)
  Definition phase_mat_an (S : spec) (i j k : nat) : Q :=
    if (i <? j)%nat then angle (S i j k) else angle (cconj (S j i k)).

  Definition delay_spec (twopi phi f : Q) : Q := phi / (twopi * f).

  (* coherency_phase_delay: entry k of the result is band index l + k *)
  Definition delay_mat_fn (twopi : Q) (S : spec) (fr : nat -> Q) (l : nat) (i j k : nat) : Q :=
    delay_spec twopi (phase_mat_an S i j (l + k)) (fr (l + k)%nat).
End Angle.

(* CoherenceAnalyzer.delay (unwrap_phases=False): self.phase / (2*pi*self.frequencies) *)
Definition delay_mat_an (twopi : Q) (phase : nat -> nat -> nat -> Q) (fr : nat -> Q)
           (i j k : nat) : Q := delay_spec twopi (phase i j k) (fr k).

(* ------------------------------------------------------------------ MTCoherenceAnalyzer *)
(* for j < i:  |sxy|^2 / (sxx * syy)  with sxy = mtm_cross_spectrum(spectra[i], spectra[j],
   (w_i, w_j)), sxx = mtm_cross_spectrum(spectra[i], spectra[i], w_i) (sx i), syy likewise (sx j);
   the upper triangle is a copy of the lower; the diagonal is 1 (as repaired; it was left 0) *)
Definition mt_coherence_mat (sxy : spec) (sx : nat -> nat -> Q) (i j k : nat) : Q :=
  if (i =? j)%nat then 1
  else if (j <? i)%nat then coherence_spec (sxy i j k) (sx i k) (sx j k)
       else coherence_spec (sxy j i k) (sx j k) (sx i k).

Definition mt_coherence_mat_old (sxy : spec) (sx : nat -> nat -> Q) (i j k : nat) : Q :=
  if (i =? j)%nat then 0
  else if (j <? i)%nat then coherence_spec (sxy i j k) (sx i k) (sx j k)
       else coherence_spec (sxy j i k) (sx j k) (sx i k).

(* ------------------------------------------------------------------ channel gains *)
(* a gain g_i on channel i turns every (bilinear) cross-spectral estimate S_ij into g_i g_j S_ij
   (estimator contract, validated on the implementation by the KGain cases) *)
Definition gained (g : nat -> Q) (S : spec) : spec := fun i j k => cscale (g i * g j) (S i j k).

(* ------------------------------------------------------------------ adaptive multitaper weights *)
(* utils.py adaptive_weights (behind multi_taper_csd(adaptive=True) and MTCoherenceAnalyzer(adaptive=True)):
   the iteration stops when  np.percentile(cfn**2, 95) < 1e-12 ; cfn = sum_k lam_k (S - S_k) /
   (lam_k S + B_k)^2 has the dimension 1/power, so under a channel gain g it is divided by g^2 and
   its square by g^4. Only this stopping test is modelled. *)
Definition adaptive_stop (p95_cfn2 : Q) : bool := negb (Qle_bool (1 # 1000000000000) p95_cfn2).
