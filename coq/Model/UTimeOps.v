(* Model/UTimeOps.v — executable model of the in-place operations, slicing and copying of
   nitime.timeseries.UniformTime, and the abstract (t0, Δ, n) machine they are meant to refine.
   (nitime/timeseries.py, after commits ac47f31/a2201c3/c4c4884/9a1272e/c3a0f82:
      __array_finalize__ 705-725 (attribute inheritance of views/slices/copies),
      __getitem__ 741-750 (slices), __setitem__ 752-755, _convert_and_check_uniformity 759-780,
      _follow_shift 782-796, __iadd__ 798-802, __isub__ 804-808, __imul__ 810-816,
      __idiv__ 818-822, index_at 826-846.)
   Definitions only; proofs are in Proofs/UTimeOpsP.v.

   Operands are VALUES in the model (c3a0f82: the code takes a private copy of a time-object operand, so an
   operand that is the axis itself, a view or an element of it behaves like any other value).
   Modelled as written: the order of the statements of each operator (so the state left behind
   by a failing operation is the one the code leaves), conversion of bare operands by the unit
   factor, the uniformity check on np.diff, numpy's in-place shape rule (operand length must be
   the axis length), the attribute updates, the inheritance of all four attributes by slices and
   copies, the range check and floor division of index_at, `__idiv__` calling the non-existent
   np.ndarray.__idiv__.
   Taken from numpy: int64 arithmetic (no wrap-around is modelled here: the C17 quantifier is
   over small axes), floor division, basic-slice index arithmetic.
   The rate is carried as an exact rational (10^12/Δ recomputed, or rate/k); the correspondence
   compares it with the implementation's float64 within tolerance. *)
From Coq Require Import ZArith List Bool QArith.
From NT Require Import Lists TimeArray.
Import ListNotations.
Open Scope Z_scope.

(* ---------------------------------------------------------------- concrete state *)
Record ustate := mk_ustate {
  samples : list Z;      (* int64 picoseconds *)
  a_t0 : Z; a_dt : Z; a_dur : Z;   (* t0, sampling_interval, duration attributes (ps) *)
  a_rate : Q;            (* sampling_rate attribute (Hz) *)
  a_cf : Z               (* _conversion_factor of the axis' time unit *)
}.

Definition rate_of (dt : Z) : Q := Qred (inject_Z 1000000000000 / inject_Z dt).

Definition ramp (t0 dt : Z) (n : nat) : list Z := map (fun i => t0 + Z.of_nat i * dt) (seq 0 n).

(* a freshly constructed axis (C02's int path): n samples, duration n*Δ *)
Definition init_state (t0 dt : Z) (n : nat) (cf : Z) : ustate :=
  mk_ustate (ramp t0 dt n) t0 dt (Z.of_nat n * dt) (rate_of dt) cf.

Inductive uop :=
| OpAddScalar (bare : bool) (v : Z)        (* u += v : bare number in the axis unit / 0-d time object (ps) *)
| OpSubScalar (bare : bool) (v : Z)
| OpAddArr (bare : bool) (l : list Z)      (* 1-d operand: a ramp, or non-uniform values *)
| OpSubArr (bare : bool) (l : list Z)
| OpMul (k : Z)
| OpDiv (k : Z)
| OpSlice (a b : option Z) (c : Z)         (* u[a:b:c], c >= 1 *)
| OpCopy
| OpSetItem (i v : Z).

Definition conv (st : ustate) (bare : bool) (v : Z) : Z := if bare then v * a_cf st else v.

(* np.diff(val) all equal to its first element *)
Fixpoint diffs (l : list Z) : list Z :=
  match l with
  | x :: ((y :: _) as l') => (y - x) :: diffs l'
  | _ => []
  end.
Definition uniformb (l : list Z) : bool :=
  match diffs l with
  | [] => true
  | d :: ds => forallb (Z.eqb d) ds
  end.

Definition zip_with (f : Z -> Z -> Z) (a b : list Z) : list Z :=
  map (fun p => f (fst p) (snd p)) (combine a b).

(* += / -= with a 0-d operand *)
Definition shift_scalar (sign : Z) (st : ustate) (v : Z) : ustate * option err :=
  (mk_ustate (map (fun x => x + sign * v) (samples st)) (a_t0 st + sign * v) (a_dt st) (a_dur st)
             (a_rate st) (a_cf st), None).

(* += / -= with a 1-d operand (already in ps) *)
Definition shift_arr (sign : Z) (st : ustate) (l : list Z) : ustate * option err :=
  match diffs l with
  | [] => (st, Some OtherError)                       (* dv[0]: IndexError, nothing touched *)
  | d :: _ =>
    if negb (uniformb l) then (st, Some ValueError)   (* uniformity check, nothing touched *)
    else if a_dt st + sign * d <=? 0 then (st, Some ValueError)   (* would not leave a positive interval *)
    else if negb (Nat.eqb (length l) (length (samples st))) then (st, Some ValueError) (* numpy: shapes *)
    else
      let dt' := a_dt st + sign * d in
      (mk_ustate (zip_with (fun x y => x + sign * y) (samples st) l)
                 (a_t0 st + sign * hd 0 l) dt'
                 (a_dur st + Z.of_nat (length (samples st)) * (sign * d))
                 (rate_of dt') (a_cf st), None)
  end.

(* Python basic-slice index normalisation for a positive step *)
Definition norm_idx (n x : Z) : Z := if x <? 0 then Z.max (x + n) 0 else Z.min x n.
Definition cdiv (a b : Z) : Z := - ((- a) / b).
Definition slice_start (n : Z) (a : option Z) : Z := match a with None => 0 | Some x => norm_idx n x end.
Definition slice_stop (n : Z) (b : option Z) : Z := match b with None => n | Some x => norm_idx n x end.
Definition slice_len (start stop c : Z) : Z := if start <? stop then cdiv (stop - start) c else 0.
Definition pick (l : list Z) (start c : Z) (m : nat) : list Z :=
  map (fun j => nth (Z.to_nat (start + Z.of_nat j * c)) l 0) (seq 0 m).

Definition ustep (op : uop) (st : ustate) : ustate * option err :=
  match op with
  | OpAddScalar bare v => shift_scalar 1 st (conv st bare v)
  | OpSubScalar bare v => shift_scalar (-1) st (conv st bare v)
  | OpAddArr bare l => shift_arr 1 st (map (conv st bare) l)
  | OpSubArr bare l => shift_arr (-1) st (map (conv st bare) l)
  | OpMul k =>
      if k <=? 0 then (st, Some ValueError)           (* refused before anything is touched *)
      else (mk_ustate (map (fun x => x * k) (samples st)) (a_t0 st * k) (a_dt st * k) (a_dur st * k)
                      (Qred (a_rate st / inject_Z k)) (a_cf st), None)
  | OpDiv _ => (st, Some AttributeErr)               (* np.ndarray has no __idiv__ *)
  | OpSlice a b c =>
      if c <? 1 then (st, Some OtherError) else
      let n := Z.of_nat (length (samples st)) in
      let start := slice_start n a in
      let stop := slice_stop n b in
      (mk_ustate (pick (samples st) start c (Z.to_nat (slice_len start stop c)))
                 (a_t0 st) (a_dt st) (a_dur st) (a_rate st) (a_cf st), None)   (* attributes inherited *)
  | OpCopy => (st, None)
  | OpSetItem _ _ => (st, Some ValueError)
  end.

(* index_at(t) for a scalar time t (ps) *)
Definition uindex_at (st : ustate) (t : Z) : res Z :=
  if (t <? a_t0 st) || (t >=? a_t0 st + a_dur st) then Err ValueError
  else Ok ((t - a_t0 st) / a_dt st).

(* run a history; a failing operation leaves whatever state the code leaves and the history goes on *)
Definition urun (ops : list uop) (st : ustate) : ustate := fold_left (fun s op => fst (ustep op s)) ops st.

(* ---------------------------------------------------------------- abstract machine *)
Record aspec := mk_aspec { s_t0 : Z; s_dt : Z; s_n : nat }.
Definition wf (s : aspec) : Prop := 0 < s_dt s.
Definition samples_of (s : aspec) : list Z := ramp (s_t0 s) (s_dt s) (s_n s).

(* the intended semantics: Some = performed, None = rejected (axis unchanged) *)
Definition spec_shift_arr (sign : Z) (s : aspec) (l : list Z) : option aspec :=
  match diffs l with
  | [] => None
  | d :: _ =>
      if uniformb l && Nat.eqb (length l) (s_n s) && (0 <? s_dt s + sign * d)
      then Some (mk_aspec (s_t0 s + sign * hd 0 l) (s_dt s + sign * d) (s_n s))
      else None
  end.

Definition spec_step (cf : Z) (op : uop) (s : aspec) : option aspec :=
  let cv (bare : bool) (v : Z) := if bare then v * cf else v in
  match op with
  | OpAddScalar bare v => Some (mk_aspec (s_t0 s + cv bare v) (s_dt s) (s_n s))
  | OpSubScalar bare v => Some (mk_aspec (s_t0 s - cv bare v) (s_dt s) (s_n s))
  | OpAddArr bare l => spec_shift_arr 1 s (map (cv bare) l)
  | OpSubArr bare l => spec_shift_arr (-1) s (map (cv bare) l)
  | OpMul k => if 1 <=? k then Some (mk_aspec (s_t0 s * k) (s_dt s * k) (s_n s)) else None
  | OpDiv k => if (1 <=? k) && (s_t0 s mod k =? 0) && (s_dt s mod k =? 0)
               then Some (mk_aspec (s_t0 s / k) (s_dt s / k) (s_n s)) else None
  | OpSlice a b c =>
      if c <? 1 then None else
      let n := Z.of_nat (s_n s) in
      let start := slice_start n a in
      let stop := slice_stop n b in
      Some (mk_aspec (s_t0 s + start * s_dt s) (c * s_dt s) (Z.to_nat (slice_len start stop c)))
  | OpCopy => Some s
  | OpSetItem _ _ => None
  end.

(* what the operation means on the bare list of samples, metadata aside *)
Definition sem_samples (cf : Z) (op : uop) (l : list Z) : list Z :=
  let cv (bare : bool) (v : Z) := if bare then v * cf else v in
  match op with
  | OpAddScalar bare v => map (fun x => x + cv bare v) l
  | OpSubScalar bare v => map (fun x => x - cv bare v) l
  | OpAddArr bare r => zip_with Z.add l (map (cv bare) r)
  | OpSubArr bare r => zip_with Z.sub l (map (cv bare) r)
  | OpMul k => map (fun x => x * k) l
  | OpDiv k => map (fun x => x / k) l
  | OpSlice a b c =>
      let n := Z.of_nat (length l) in
      let start := slice_start n a in
      pick l start c (Z.to_nat (slice_len start (slice_stop n b) c))
  | OpCopy => l
  | OpSetItem _ _ => l
  end.

Definition spec_next (cf : Z) (p : aspec * list Z) (op : uop) : aspec * list Z :=
  match spec_step cf op (fst p) with
  | Some s' => (s', sem_samples cf op (snd p))
  | None => p
  end.
Definition spec_run (cf : Z) (ops : list uop) (p : aspec * list Z) : aspec * list Z :=
  fold_left (spec_next cf) ops p.

Definition spec_lookup (s : aspec) (t : Z) : option Z :=
  if (s_t0 s <=? t) && (t <? s_t0 s + Z.of_nat (s_n s) * s_dt s) then Some ((t - s_t0 s) / s_dt s) else None.

(* abstraction relation: the concrete attributes and samples are exactly those of the abstract axis *)
Definition R (c : ustate) (a : aspec) : Prop :=
  samples c = samples_of a /\ a_t0 c = s_t0 a /\ a_dt c = s_dt a /\
  a_dur c = Z.of_nat (s_n a) * s_dt a /\ Qeq (a_rate c) (rate_of (s_dt a)).

(* boolean form of R, used by the oracle-side checks in the correspondence *)
Definition Rb (c : ustate) (a : aspec) : bool :=
  Lists.zlist_eqb (samples c) (samples_of a) && (a_t0 c =? s_t0 a) && (a_dt c =? s_dt a) &&
  (a_dur c =? Z.of_nat (s_n a) * s_dt a) && Qeq_bool (a_rate c) (rate_of (s_dt a)).

(* operations whose implementation refines the abstract machine *)
Definition preserving (op : uop) : bool :=
  match op with
  | OpAddScalar _ _ | OpSubScalar _ _ | OpAddArr _ _ | OpSubArr _ _ | OpMul _ | OpCopy | OpSetItem _ _ => true
  | OpDiv _ | OpSlice _ _ _ => false
  end.
